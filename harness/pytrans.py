"""pytrans: a translator from a small, explicitly listed subset of Python to Lean 4 `do`-blocks.

Purpose (DESIGN section 4.1): the hand-written models of the orchestrator loop, of the drop tracker and of `join_all` are tied
to /repo not only by running both sides on inputs (correspondence) but also *statically*: on every run the current source text
of those functions is parsed (`ast`), translated statement by statement into `lean/MlodaVerif/Gen/<Name>.lean`, and theorems in
`Props/` prove the generated definitions equal to the hand-written model.  An edit of the Python function changes the generated
definition; the equality proof then fails to check (a broken obligation -> failing-input search), or, if the edit uses a construct
outside the subset, the generated file does not compile at all and names the construct.

The subset (everything else raises `Unsupported`, which makes the generated file fail to build):
  statements   Expr(call), Assign to a local name / AugAssign |= -= on sets, If/elif/else, For over a set/list, Return, Continue,
               Break, Pass, With (only the locks listed as transparent), Raise of Exception/ValueError with a constant message,
               Try/except Exception (calls that may raise are oracle-driven, see `Opaque.may_raise`)
  expressions  names, True/False/None, int/str constants, not/and/or, `in`/`not in`/==/!=/</<=/>/>= , len(), all()/any() over
               one generator, next(iter(s)), isinstance (listed pairs only), set methods issubset/intersection, attribute reads and
               zero-argument getters listed in the spec, calls of other translated functions, calls of listed opaque functions
  effects      a call of an opaque function appends its name to the effect log; an opaque function that returns a value takes
               that value from an oracle parameter of the generated function
  mutation     a set parameter mutated by the callee (update/add/difference_update/...) is returned next to the result and
               re-bound at the call site (Python aliasing of the caller's object); `self.<field>` mutation rebuilds `self`

Types come from the spec: "set" (PSet), "bool", "nat", "step" (PStep), "unit", "boolorset".

Extension for `CfwManager` (cfw_manager.py; run-time meaning in `Model/PyRtDict.lean`):
  types        "uuid", "sid" (a `str` as a Nat id; id 0 is the empty string, the only falsy one), "objid" (an object that is only
               stored and handed back) - all Lean `Nat`, but `==` is only accepted between equal types; "any" (`Any`: `Option Nat`,
               `none` = Python None); composite `opt[T]` (`Optional[T]`), `tuple[A,B]`, `dict[K,V]` with K a uuid / sid: an
               insertion-ordered dict as an association list `NDict V` (an existing key keeps its place, a new key goes to the end)
  expressions  `(a, b)`; `t[0]` / `t[1]` on a tuple; `d[k]` (KeyError), `k in d`, `d.get(k)` / `d.get(k, None)`, `{}`;
               `x is None` / `x is not None` on `opt[..]` / "any" values; truthiness of `opt[..]` (None is falsy, then the
               value's own truthiness), of a tuple (a pair is truthy) and of a "sid"; a method call on an `opt[dict]`
               receiver dereferences it (`None.get` raises AttributeError)
  statements   `d[k] = v`; `self.<field> = v` (also annotated); `a, b = t`; `for k, v in d.items():`; assignment to a loop variable
               inside the body (a mutable shadow - the iteration is not affected, as in Python); `return` inside a `for`;
               **`while cond:` gets FUEL**: the generated function (and every translated caller) takes an extra parameter
               `fuel : Nat`, the loop is `for _ in List.range fuel` around `if not cond: break; body`, and when `fuel`
               executions of the body did not make `cond` false the function ends with `throw .fuel`.  So a result other than
               `.error .fuel` at some fuel is the result of the Python call; `.error .fuel` at EVERY fuel means that the Python
               call does not return.  (`while ... else` is outside the subset; `break` inside a `while` body is supported.)
  coercions    a `T` where an `opt[T]` is expected is `some`, `None` where an `opt[..]` / "any" is expected is `none` (return
               values, attribute and item assignment).  There is no flow narrowing: a function that returns an `Optional` local
               after `if x is None: raise` is declared with an `opt[..]` result and the bridging theorem shows it is never `none`.
"""
from __future__ import annotations

import ast
import hashlib
import textwrap
from dataclasses import dataclass, field
from pathlib import Path
from typing import Any, Callable, Dict, List, Optional, Tuple

def split_ty(ty: str) -> Tuple[str, List[str]]:
    """"dict[uuid,tuple[sid,set]]" -> ("dict", ["uuid", "tuple[sid,set]"]); a plain type -> (ty, [])"""
    if "[" not in ty:
        return ty, []
    if not ty.endswith("]"):
        raise Unsupported(f"type {ty}")
    head, rest = ty.split("[", 1)
    rest, args, depth, cur = rest[:-1], [], 0, ""
    for ch in rest:
        if ch == "," and depth == 0:
            args.append(cur.strip())
            cur = ""
            continue
        depth += ch == "["
        depth -= ch == "]"
        cur += ch
    args.append(cur.strip())
    return head, args


class _LeanTy(dict):  # type: ignore[type-arg]
    """Lean text of a spec type; composite types opt[T], tuple[A,B], dict[K,V], items[K,V] are built on demand"""

    def __missing__(self, ty: str) -> str:
        head, args = split_ty(ty)

        def par(t: str) -> str:
            t = self[t]
            return f"({t})" if " " in t and not t.startswith("(") else t

        if head == "opt" and len(args) == 1:
            return f"Option {par(args[0])}"
        if head == "tuple" and len(args) == 2:
            return f"({self[args[0]]} × {self[args[1]]})"
        if head in ("dict", "items") and len(args) == 2 and args[0] in ("uuid", "sid"):
            return f"NDict {par(args[1])}"
        raise Unsupported(f"type {ty}")


NAT_LIKE = ("nat", "uuid", "sid", "objid")
LEAN_TY = _LeanTy({"uuid": "Nat", "sid": "Nat", "objid": "Nat", "any": "Option Nat", "obj": "Unit", "dict": "PyDict", "pyval": "PyVal", "items": "PyDict", "strlist": "List String", "set": "PSet", "bool": "Bool", "nat": "Nat", "step": "PStep", "unit": "Unit", "boolorset": "BoolOrSet", "str": "String", "natlist": "List Nat"})
SET_MUTATORS = {"update", "add", "difference_update", "discard", "remove", "clear"}
LEAN_KEYWORDS = {"from", "to", "end", "at", "in", "do", "then", "else", "if", "let", "have", "show", "fun", "open", "local", "instance", "class", "structure", "def", "theorem", "where", "with", "match", "return", "for", "mut", "unless", "break", "continue", "try", "catch", "finally", "import", "namespace", "section", "variable", "universe", "export", "prefix", "infix", "notation", "macro", "syntax", "deriving", "extends", "abbrev", "example", "axiom", "private", "protected", "partial", "unsafe", "mutual", "inductive", "Type", "Prop", "Sort", "by", "using", "calc", "nomatch", "nofun", "forall", "exists"}


class Unsupported(Exception):
    pass


@dataclass
class Opaque:
    """A callee that is not translated: calling it appends `event` to the effect log."""

    event: str
    returns: Optional[str] = None  # None: no value used; "bool": value comes from the oracle parameter `oracle`
    oracle: Optional[str] = None  # name of the generated function's extra parameter providing the returned value
    may_raise: Optional[str] = None  # name of an oracle parameter (Nat -> Bool or Bool) deciding whether the call raises
    raise_arg: Optional[int] = None  # index of the call's receiver/argument handed to a Nat -> Bool raise oracle (-1 = receiver)


@dataclass
class FnSpec:
    py_name: str
    params: Dict[str, str]  # python parameter name -> type (in order, without self)
    ret: str = "unit"
    lean_name: Optional[str] = None
    self_type: Optional[str] = None  # Lean structure name for `self`, fields listed in ModuleSpec.self_fields
    # take only a slice of the function: callable(FunctionDef) -> (statements, {extra live-in name: type})
    slicer: Optional[Callable[[ast.FunctionDef], List[ast.stmt]]] = None
    live_in: Dict[str, str] = field(default_factory=dict)  # for slices: local names that are parameters of the generated function
    live_out: List[str] = field(default_factory=list)  # for slices: locals returned at the end (and at `continue`)
    continue_is_return: bool = False  # a slice taken from a loop body: `continue` ends the slice
    extra_params: List[Tuple[str, str]] = field(default_factory=list)  # further parameters (name, Lean type), e.g. predicates used by isinstance_map
    doc: str = ""


@dataclass
class ModuleSpec:
    path: str  # relative to the repo root
    cls: Optional[str]
    functions: List[FnSpec]
    attrs: Dict[str, Tuple[str, str]] = field(default_factory=dict)  # "step.required_uuids" -> (lean text, type)
    getters: Dict[str, Tuple[str, str]] = field(default_factory=dict)  # "step.get_uuids" -> (lean text, type)   (zero-arg calls)
    isinstance_map: Dict[Tuple[str, str], str] = field(default_factory=dict)  # ("step","FeatureGroupStep") -> lean bool text
    opaque: Dict[str, Opaque] = field(default_factory=dict)  # "self._execute_step" -> Opaque
    transparent_with: List[str] = field(default_factory=list)  # "self._step_lock"
    self_fields: Dict[str, str] = field(default_factory=dict)  # field -> type
    ignore_calls: List[str] = field(default_factory=list)  # "logger.error", "time.sleep" ... (no semantic effect in the model)
    prelude: str = ""
    expr_map: Dict[str, Tuple[str, str]] = field(default_factory=dict)  # ast.unparse(expr) -> (lean text, type), checked first
    attr_vars: Dict[str, Tuple[str, str]] = field(default_factory=dict)  # "step.step_is_done" -> (variable name, type): an attribute treated as a mutable variable that is passed in and returned
    attr_assign_events: Dict[str, str] = field(default_factory=dict)  # "command.step_is_done" -> event name (value appended)
    imports: List[str] = field(default_factory=lambda: ["MlodaVerif.Model.PyRt"])
    opens: List[str] = field(default_factory=lambda: ["PyRt"])
    fstring_text: bool = False  # f-strings are rendered as their constant parts with `{}` holes instead of the token "<f-string>"


def lname(n: str) -> str:
    return f"«{n}»" if n in LEAN_KEYWORDS else n


def dotted(e: ast.AST) -> Optional[str]:
    if isinstance(e, ast.Name):
        return e.id
    if isinstance(e, ast.Attribute):
        b = dotted(e.value)
        return None if b is None else f"{b}.{e.attr}"
    return None


class FnTranslator:
    def __init__(self, mod: "ModuleTranslator", spec: FnSpec, fdef: ast.FunctionDef):
        self.mod = mod
        self.ms = mod.spec
        self.spec = spec
        self.fdef = fdef
        self.env: Dict[str, str] = dict(spec.params)
        self.env.update(spec.live_in)
        self.mutated: List[str] = []  # parameters (or live-in names) mutated -> returned
        self.self_mut = False
        self.effects = False
        self.oracles: Dict[str, str] = {}  # oracle parameter -> lean type
        self.declared: set = set(self.env)
        self.tmp = 0
        self.attr_written: List[str] = []
        self.reassigned: List[str] = []  # parameters assigned a new value (need a mutable shadow, not returned)
        self.try_flag: Optional[str] = None
        self.lines: List[str] = []
        self.needs_fuel = False  # the function (or a translated callee) contains a `while`: extra parameter `fuel`
        self.while_flags: List[Optional[str]] = []  # innermost last: flag variable of a `while`, None for a `for`

    # ---------------------------------------------------------------- analysis
    def analyse(self, stmts: List[ast.stmt]) -> None:
        self.attr_params: List[str] = []
        for node in ast.walk(ast.Module(body=stmts, type_ignores=[])):
            if isinstance(node, ast.Attribute) and dotted(node) in self.ms.attr_vars:
                vn, vt = self.ms.attr_vars[dotted(node)]
                if vn not in self.env:
                    self.env[vn] = vt
                    self.declared.add(vn)
                    self.attr_params.append(vn)
                if isinstance(node.ctx, ast.Store) and vn not in self.attr_written:
                    self.attr_written.append(vn)
            if isinstance(node, ast.Call) and isinstance(node.func, ast.Attribute) and node.func.attr in SET_MUTATORS:
                tgt = dotted(node.func.value)
                if tgt in self.env and self.env[tgt] == "set" and tgt not in self.mutated:
                    self.mutated.append(tgt)
                elif tgt and tgt.startswith("self.") and tgt[5:] in self.ms.self_fields:
                    self.self_mut = True
            if isinstance(node, ast.Assign) and len(node.targets) == 1 and isinstance(node.targets[0], ast.Name) and node.targets[0].id in self.env and node.targets[0].id not in self.reassigned:
                self.reassigned.append(node.targets[0].id)
            if isinstance(node, ast.Assign) and len(node.targets) == 1 and isinstance(node.targets[0], ast.Subscript):
                tgt = dotted(node.targets[0].value)
                if tgt and tgt.startswith("self.") and tgt[5:] in self.ms.self_fields:
                    self.self_mut = True
            if isinstance(node, (ast.Assign, ast.AnnAssign)):
                tg0 = node.targets[0] if isinstance(node, ast.Assign) and len(node.targets) == 1 else node.target if isinstance(node, ast.AnnAssign) else None
                tgt = dotted(tg0) if isinstance(tg0, ast.Attribute) else None
                if tgt and tgt.startswith("self.") and tgt[5:] in self.ms.self_fields and tgt not in self.ms.attr_vars and tgt not in self.ms.attr_assign_events:
                    self.self_mut = True
            if isinstance(node, ast.While):
                self.needs_fuel = True
            if isinstance(node, ast.Assign) and len(node.targets) == 1 and dotted(node.targets[0]) in self.ms.attr_assign_events:
                self.effects = True
            if isinstance(node, ast.Break) and self.spec.continue_is_return:
                self.effects = True
            if isinstance(node, ast.AugAssign):
                tgt = dotted(node.target)
                if tgt in self.env and self.env[tgt] == "set" and tgt not in self.mutated:
                    self.mutated.append(tgt)
            if isinstance(node, ast.Call):
                d = dotted(node.func)
                if d in self.ms.opaque:
                    self.effects = True
                    o = self.ms.opaque[d]
                    if o.oracle:
                        self.oracles[o.oracle] = LEAN_TY[o.returns or "bool"]
                    if o.may_raise and o.raise_arg is None:
                        pass
                    if o.may_raise:
                        self.oracles[o.may_raise] = "Nat → Bool" if o.raise_arg is not None else "Bool"
                if d and ((d.startswith("self.") and d[5:] in self.mod.translated) or (self.ms.cls is None and d in self.mod.translated)):
                    callee = self.mod.translated[d[5:]] if d.startswith("self.") else self.mod.translated[d]
                    # mutations / effects of a callee propagate
                    for i, (pn, _) in enumerate(callee.spec.params.items()):
                        if pn in callee.mutated and i < len(node.args):
                            a = dotted(node.args[i])
                            if a in self.env and a not in self.mutated:
                                self.mutated.append(a)
                    self.effects = self.effects or callee.effects
                    self.self_mut = self.self_mut or callee.self_mut
                    self.needs_fuel = self.needs_fuel or callee.needs_fuel
                    self.oracles.update(callee.oracles)
                    for av in callee.attr_params:
                        if av not in self.env:
                            self.env[av] = callee.env[av]
                            self.declared.add(av)
                            self.attr_params.append(av)
                    for av in callee.attr_written:
                        if av not in self.attr_written:
                            self.attr_written.append(av)
                    for xp in callee.spec.extra_params:
                        if xp not in self.spec.extra_params:
                            self.spec.extra_params.append(xp)
        # keep parameter order
        order = list(self.spec.params) + list(self.spec.live_in)
        self.mutated.sort(key=lambda n: order.index(n))

    # ---------------------------------------------------------------- signature helpers
    def ret_components(self) -> List[Tuple[str, str]]:
        comps: List[Tuple[str, str]] = []
        if self.spec.ret != "unit":
            comps.append(("<ret>", LEAN_TY[self.spec.ret]))
        for m in self.mutated:
            comps.append((m, LEAN_TY[self.env[m]]))
        for lo in self.spec.live_out:
            if lo not in self.mutated:
                comps.append((lo, LEAN_TY[self.env[lo]]))
        for av in self.attr_written:
            comps.append((av, LEAN_TY[self.env[av]]))
        if self.self_mut:
            comps.append(("self", self.spec.self_type or "Unit"))
        if self.effects:
            comps.append(("log", "List String"))
        return comps

    def ret_type(self) -> str:
        comps = self.ret_components()
        if not comps:
            return "Unit"
        return " × ".join(t for _, t in comps)

    def ret_tuple(self, value: Optional[str]) -> str:
        parts = []
        for n, _ in self.ret_components():
            parts.append(value if n == "<ret>" else lname(n))
        if not parts:
            return "()"
        return parts[0] if len(parts) == 1 else "(" + ", ".join(parts) + ")"

    # ---------------------------------------------------------------- expressions
    def truthy(self, txt: str, ty: str) -> str:
        if ty == "bool":
            return txt
        if ty == "set":
            return f"PSet.truthy {txt}"
        if ty == "obj":
            return "true"  # an object without __bool__/__len__ is truthy
        if ty == "sid":
            return f"(strTruthy {txt})"  # the empty string (id 0) is the only falsy str
        head, args = split_ty(ty)
        if head == "tuple":
            return "true"  # a pair is never empty
        if head == "opt":
            inner = self.truthy("v", args[0])
            return f"({txt}).isSome" if inner == "true" else f"(Option.any (fun v => {inner}) {txt})"
        raise Unsupported(f"truthiness of a value of type {ty}: {txt}")

    def coerce(self, txt: str, ty: str, want: str) -> Optional[str]:
        """`txt : ty` used where a `want` is expected (return value, attribute / item assignment); None if not possible"""
        if ty == want:
            return txt
        wh, wa = split_ty(want)
        if ty == "unit" and txt == "()" and (wh == "opt" or want == "any"):
            return "none"
        if wh == "opt" and wa[0] == ty:
            return f"(some {txt})"
        if ty == "emptydict" and wh == "dict":
            return "[]"
        if ty == "emptydict" and wh == "opt" and split_ty(wa[0])[0] == "dict":
            return "(some [])"
        return None

    def deref_receiver(self, recv: str, rty: str) -> Tuple[str, str]:
        """receiver of a method call that has type `opt[T]`: `None.<attr>` raises AttributeError (`Opt.deref`)"""
        head, args = split_ty(rty)
        if head == "opt":
            return f"(← Opt.deref {recv})", args[0]
        return recv, rty

    def expr(self, e: ast.expr, pre: List[str]) -> Tuple[str, str]:
        """returns (lean term, type); statements that must run before (monadic binds of calls) are appended to `pre`"""
        key = ast.unparse(e)
        if key in self.ms.expr_map:
            return self.ms.expr_map[key]
        if isinstance(e, ast.JoinedStr):
            # the text of a message is not modelled, but what is interpolated must be harmless to evaluate: a known local,
            # or a call the spec lists; anything else (attribute access, method call) could raise and is refused
            for part in e.values:
                if isinstance(part, ast.FormattedValue):
                    if isinstance(part.value, ast.Name) and part.value.id in self.env:
                        continue
                    self.expr(part.value, pre)
            return '"' + self.fstring_text(e) + '"', "str"
        if isinstance(e, ast.Constant):
            if e.value is True:
                return "true", "bool"
            if e.value is False:
                return "false", "bool"
            if e.value is None:
                return "()", "unit"
            if isinstance(e.value, int):
                return str(e.value), "nat"
            if isinstance(e.value, str):
                return '"' + e.value.replace("\\", "\\\\").replace('"', '\\"') + '"', "str"
            raise Unsupported(f"constant {e.value!r}")
        if isinstance(e, ast.Name):
            if e.id not in self.env:
                raise Unsupported(f"unknown name {e.id}")
            return lname(e.id), self.env[e.id]
        if isinstance(e, ast.Tuple) and isinstance(e.ctx, ast.Load) and len(e.elts) == 2:
            a, aty = self.expr(e.elts[0], pre)
            b, bty = self.expr(e.elts[1], pre)
            return f"({a}, {b})", f"tuple[{aty},{bty}]"
        if isinstance(e, ast.Dict) and not e.keys:
            return "[]", "emptydict"
        if isinstance(e, ast.Attribute) and dotted(e) in self.ms.attr_vars:
            vn, vt = self.ms.attr_vars[dotted(e)]
            return lname(vn), vt
        if isinstance(e, ast.Attribute):
            d = dotted(e)
            if d in self.ms.attrs:
                return self.ms.attrs[d]
            if d and d.startswith("self.") and d[5:] in self.ms.self_fields:
                return f"self.{lname(d[5:])}", self.ms.self_fields[d[5:]]
            raise Unsupported(f"attribute {d}")
        if isinstance(e, ast.UnaryOp) and isinstance(e.op, ast.Not):
            t, ty = self.expr(e.operand, pre)
            return f"!({self.truthy(t, ty)})", "bool"
        if isinstance(e, ast.BoolOp) and isinstance(e.op, ast.Or) and len(e.values) == 2 and isinstance(e.values[1], ast.Constant) and e.values[1].value is None:
            t0, ty0 = self.expr(e.values[0], pre)
            if ty0 == "obj":
                return t0, "obj"  # `obj or None`
            raise Unsupported(f"`{ty0} or None`")
        if isinstance(e, ast.BoolOp):
            first = self.expr(e.values[0], pre)
            n0 = len(pre)
            parts = [first] + [self.expr(v, pre) for v in e.values[1:]]
            if len(pre) != n0 or any("←" in t for t, _ in parts[1:]):
                raise Unsupported("call with effects / subscript that may raise in a later operand of and/or (evaluation would not be short-circuited)")
            op = " && " if isinstance(e.op, ast.And) else " || "
            return "(" + op.join(self.truthy(t, ty) for t, ty in parts) + ")", "bool"
        if isinstance(e, ast.Compare):
            if len(e.ops) != 1:
                raise Unsupported("chained comparison")
            op = e.ops[0]
            if isinstance(op, (ast.Is, ast.IsNot)):
                if not (isinstance(e.comparators[0], ast.Constant) and e.comparators[0].value is None):
                    raise Unsupported(f"`is` other than against None: {key}")
                l, lt = self.expr(e.left, pre)
                if lt != "any" and split_ty(lt)[0] != "opt":
                    raise Unsupported(f"`is None` on a value of type {lt}")
                return (f"({l}).isNone" if isinstance(op, ast.Is) else f"({l}).isSome"), "bool"
            l, lt = self.expr(e.left, pre)
            r, rt = self.expr(e.comparators[0], pre)
            if isinstance(op, (ast.In, ast.NotIn)):
                if rt == "dict" and lt == "str":
                    t = f"PyDict.has {r} {l}"
                elif split_ty(rt)[0] == "dict" and split_ty(rt)[1][:1] == [lt]:
                    t = f"NDict.has {r} {l}"
                elif rt == "set":
                    t = f"PSet.has {r} {l}"
                else:
                    raise Unsupported(f"`in` on {rt}")
                return (f"!({t})" if isinstance(op, ast.NotIn) else f"({t})"), "bool"
            if isinstance(op, (ast.Eq, ast.NotEq)):
                if lt == "set" and rt == "set":
                    t = f"PSet.eq {l} {r}"
                elif lt == rt and lt in ("nat", "bool", "str", "uuid", "sid"):
                    t = f"{l} == {r}"
                else:
                    raise Unsupported(f"== between {lt} and {rt}")
                return (f"!({t})" if isinstance(op, ast.NotEq) else f"({t})"), "bool"
            sym = {ast.Lt: "<", ast.LtE: "≤", ast.Gt: ">", ast.GtE: "≥"}.get(type(op))
            if sym and lt == "nat" and rt == "nat":
                return f"decide ({l} {sym} {r})", "bool"
            raise Unsupported(f"comparison {ast.dump(op)} between {lt} and {rt}")
        if isinstance(e, ast.Subscript):
            d, dty = self.expr(e.value, pre)
            dh, da = split_ty(dty)
            if dh == "tuple" and isinstance(e.slice, ast.Constant) and e.slice.value in (0, 1) and not isinstance(e.slice.value, bool):
                return f"{d}.{e.slice.value + 1}", da[e.slice.value]
            k, kty = self.expr(e.slice, pre)
            if dty == "dict" and kty == "str":
                return f"(← PyDict.getItem {d} {k})", "pyval"
            if dh == "dict" and da and kty == da[0]:
                return f"(← NDict.getItem {d} {k})", da[1]
            raise Unsupported(f"subscript of {dty} by {kty}")
        if isinstance(e, ast.BinOp) and isinstance(e.op, ast.Add):
            l, lt = self.expr(e.left, pre)
            r, rt = self.expr(e.right, pre)
            if lt == rt and lt in ("items", "strlist", "natlist"):
                return f"({l} ++ {r})", lt
            raise Unsupported(f"+ between {lt} and {rt}")
        if isinstance(e, ast.Call):
            return self.call(e, pre)
        raise Unsupported(f"expression {type(e).__name__}: {ast.unparse(e)}")

    def fstring_text(self, e: ast.JoinedStr) -> str:
        """what stands for the text of an f-string: a fixed token, or (ModuleSpec.fstring_text) its constant parts with `{}` holes"""
        if not self.ms.fstring_text:
            return "<f-string>"
        out = "".join(str(p.value) if isinstance(p, ast.Constant) else "{}" for p in e.values)
        return out.replace("\\", "\\\\").replace('"', "'")

    def call(self, e: ast.Call, pre: List[str]) -> Tuple[str, str]:
        d = dotted(e.func)
        if e.keywords and not (d and (d.startswith("self.") and d[5:] in self.mod.translated or d in self.mod.translated)) and d not in self.ms.opaque:
            raise Unsupported(f"keyword arguments in {ast.unparse(e)}")
        if d in ("all", "any") and len(e.args) == 1 and isinstance(e.args[0], ast.GeneratorExp):
            g = e.args[0]
            if len(g.generators) != 1 or g.generators[0].ifs or not isinstance(g.generators[0].target, ast.Name):
                raise Unsupported("generator with several clauses / conditions")
            it, ity = self.expr(g.generators[0].iter, pre)
            if ity != "set":
                raise Unsupported(f"{d}() over {ity}")
            v = g.generators[0].target.id
            saved = self.env.get(v)
            self.env[v] = "nat"
            inner: List[str] = []
            body, bty = self.expr(g.elt, inner)
            if inner:
                raise Unsupported("effectful call inside a generator expression")
            if saved is None:
                del self.env[v]
            else:
                self.env[v] = saved
            return f"(py{d.capitalize()} {it} (fun {lname(v)} => {self.truthy(body, bty)}))", "bool"
        if d == "next" and len(e.args) == 1 and isinstance(e.args[0], ast.Call) and dotted(e.args[0].func) == "iter" and len(e.args[0].args) == 1:
            s, sty = self.expr(e.args[0].args[0], pre)
            if sty != "set":
                raise Unsupported(f"next(iter()) over {sty}")
            return f"(← PSet.nextIter {s})", "nat"
        if d == "len" and len(e.args) == 1:
            s, sty = self.expr(e.args[0], pre)
            if sty not in ("set", "natlist"):
                raise Unsupported(f"len() of {sty}")
            return f"{s}.length", "nat"
        if d == "isinstance" and len(e.args) == 2 and isinstance(e.args[1], ast.Tuple):
            parts = []
            for cl in e.args[1].elts:
                key = (dotted(e.args[0]) or "?", dotted(cl) or ast.unparse(cl))
                if key not in self.ms.isinstance_map:
                    raise Unsupported(f"isinstance{key}")
                parts.append(self.ms.isinstance_map[key])
            return "(" + " || ".join(parts) + ")", "bool"
        if d == "isinstance" and len(e.args) == 2:
            key = (dotted(e.args[0]) or "?", dotted(e.args[1]) or ast.unparse(e.args[1]))
            if key in self.ms.isinstance_map:
                return self.ms.isinstance_map[key], "bool"
            raise Unsupported(f"isinstance{key}")
        if isinstance(e.func, ast.Attribute) and e.func.attr in ("issubset", "intersection") and len(e.args) == 1:
            a, aty = self.expr(e.func.value, pre)
            b, bty = self.expr(e.args[0], pre)
            if aty != "set" or bty != "set":
                raise Unsupported(f"{e.func.attr} on {aty},{bty}")
            return (f"(PSet.issubset {a} {b})", "bool") if e.func.attr == "issubset" else (f"(PSet.intersection {a} {b})", "set")
        if d == "list" and len(e.args) == 1:
            t, ty = self.expr(e.args[0], pre)
            if ty in ("items", "strlist", "natlist"):
                return t, ty  # list(view) of an insertion-ordered dict view is the association list itself
            raise Unsupported(f"list() of {ty}")
        if isinstance(e.func, ast.Attribute) and e.func.attr in ("items", "keys", "get") and dotted(e.func) not in self.ms.getters and dotted(e.func) not in self.ms.opaque:
            recv, rty = self.expr(e.func.value, pre)
            recv, rty = self.deref_receiver(recv, rty)
            rh, ra = split_ty(rty)
            if rh == "dict" and ra:
                if e.func.attr == "items" and not e.args:
                    return recv, f"items[{ra[0]},{ra[1]}]"
                if e.func.attr == "get" and (len(e.args) == 1 or (len(e.args) == 2 and isinstance(e.args[1], ast.Constant) and e.args[1].value is None)):
                    k, kty = self.expr(e.args[0], pre)
                    if kty == ra[0]:
                        # absent key -> None; for `Any` values None is one of the values, otherwise the result is Optional
                        return (f"((NDict.get? {recv} {k}).getD none)", "any") if ra[1] == "any" else (f"(NDict.get? {recv} {k})", f"opt[{ra[1]}]")
                raise Unsupported(f"dict method call {ast.unparse(e)}")
            if rty == "dict":
                if e.func.attr == "items" and not e.args:
                    return recv, "items"
                if e.func.attr == "keys" and not e.args:
                    return f"(PyDict.keys {recv})", "strlist"
                if e.func.attr == "get" and len(e.args) == 2 and isinstance(e.args[1], ast.Constant) and e.args[1].value is None:
                    k, kty = self.expr(e.args[0], pre)
                    if kty == "str":
                        return f"((PyDict.get? {recv} {k}).getD PyVal.none)", "pyval"
                raise Unsupported(f"dict method call {ast.unparse(e)}")
        if d in self.ms.getters and not e.args:
            return self.ms.getters[d]
        if d and d.startswith("self.") and d[5:] in self.mod.translated:
            return self.call_translated(self.mod.translated[d[5:]], e, pre)
        if d and self.ms.cls is None and d in self.mod.translated:
            return self.call_translated(self.mod.translated[d], e, pre)
        if d in self.ms.opaque:
            return self.call_opaque(d, e, pre)
        raise Unsupported(f"call {ast.unparse(e)}")

    def fresh(self, base: str) -> str:
        self.tmp += 1
        return f"{base}_{self.tmp}"

    def call_translated(self, callee: "FnTranslator", e: ast.Call, pre: List[str]) -> Tuple[str, str]:
        pnames = list(callee.spec.params)
        args: Dict[str, ast.expr] = {}
        for i, a in enumerate(e.args):
            args[pnames[i]] = a
        for kw in e.keywords:
            if kw.arg not in pnames:
                raise Unsupported(f"keyword {kw.arg} of {callee.spec.py_name}")
            args[kw.arg] = kw.value
        if set(args) != set(pnames):
            raise Unsupported(f"call of {callee.spec.py_name} with defaulted arguments")
        texts = []
        for pn in pnames:
            t, ty = self.expr(args[pn], pre)
            if ty != callee.spec.params[pn]:
                raise Unsupported(f"argument {pn} of {callee.spec.py_name}: {ty} given, {callee.spec.params[pn]} expected")
            texts.append(f"({t})" if " " in t else t)
        call = callee.lean_name()
        if callee.spec.self_type:
            call += " self"
        call += "".join(" " + t for t in texts)
        for av in callee.attr_params:
            if av not in self.env:
                raise Unsupported(f"callee {callee.spec.py_name} reads attribute variable {av} unknown here")
            call += " " + lname(av)
        for n_, _ in callee.spec.extra_params:
            call += " " + lname(n_)
        if callee.needs_fuel:
            call += " fuel"
        for o in callee.oracles:
            call += " " + lname(o)
        if callee.effects:
            call += " log"
        comps = callee.ret_components()
        binders = []
        rebind: List[str] = []
        result = "()"
        for n, _ in comps:
            if n == "<ret>":
                result = self.fresh("r")
                binders.append(result)
            elif n == "self":
                b = self.fresh("self")
                binders.append(b)
                rebind.append(f"self := {b}")
            elif n == "log":
                b = self.fresh("log")
                binders.append(b)
                rebind.append(f"log := {b}")
            elif n in callee.attr_written:
                b = self.fresh(n)
                binders.append(b)
                rebind.append(f"{lname(n)} := {b}")
            else:
                # a mutated parameter of the callee: the caller's argument object is the same Python object
                src = args[n]
                tgt = dotted(src)
                if tgt is None or tgt not in self.env:
                    raise Unsupported(f"callee {callee.spec.py_name} mutates its argument {n}, which is not a plain local here: {ast.unparse(src)}")
                b = self.fresh(tgt)
                binders.append(b)
                rebind.append(f"{lname(tgt)} := {b}")
        if self.try_flag is not None:
            # inside try/except Exception: an exception of the callee is caught here (effects the callee logged before raising are lost)
            if result != "()":
                raise Unsupported(f"value of {callee.spec.py_name} used inside try/except")
            pat = "_" if not binders else binders[0] if len(binders) == 1 else "(" + ", ".join(binders) + ")"
            arms = "\n".join("  " + r for r in rebind) or "  pure ()"
            pre.append(f"match {call} with\n| .error _ =>\n  {self.try_flag} := true\n| .ok {pat} =>\n{arms}")
            return result, callee.spec.ret
        if not binders:
            pre.append(f"{call}")
        elif len(binders) == 1:
            pre.append(f"let {binders[0]} ← {call}")
        else:
            pre.append(f"let ({', '.join(binders)}) ← {call}")
        pre.extend(rebind)
        return result, callee.spec.ret

    def call_opaque(self, d: str, e: ast.Call, pre: List[str]) -> Tuple[str, str]:
        o = self.ms.opaque[d]
        ev = f'log := log ++ ["{o.event}"]'
        if o.raise_arg is not None:
            arg0 = e.func.value if o.raise_arg == -1 else e.args[o.raise_arg]  # type: ignore[attr-defined]
            t0, _ = self.expr(arg0, pre)
            ev = f'log := log ++ ["{o.event}:" ++ toString {t0}]'
        if o.may_raise and self.try_flag is None:
            # outside any try of this function: the exception leaves the function (the caller may catch it)
            if o.raise_arg is not None:
                raise Unsupported(f"{d}: per-object raise oracle outside try/except")
            pre.append(f'if {lname(o.may_raise)} then\n  throw (.exception "{o.event} raised")\nelse\n  {ev}')
        elif o.may_raise:
            if o.raise_arg is not None:
                arg = e.func.value if o.raise_arg == -1 else e.args[o.raise_arg]  # type: ignore[attr-defined]
                t, ty = self.expr(arg, pre)
                if ty != "nat":
                    raise Unsupported(f"raise oracle argument of type {ty}")
                cond = f"{lname(o.may_raise)} {t}"
            else:
                cond = lname(o.may_raise)
            pre.append(f"if {cond} then\n  {self.try_flag} := true\nelse\n  {ev}")
        else:
            pre.append(ev)
        if o.returns in ("obj", "unit"):
            return "()", o.returns
        if o.returns == "str" and not o.oracle:
            return '"<str>"', "str"
        if o.returns:
            return lname(o.oracle or "oracle"), o.returns
        return "()", "unit"

    # ---------------------------------------------------------------- statements
    def emit(self, ind: int, text: str) -> None:
        for ln in text.split("\n"):
            self.lines.append("  " * ind + ln)

    def flush(self, ind: int, pre: List[str]) -> None:
        for p in pre:
            self.emit(ind, p)
        pre.clear()

    def block(self, stmts: List[ast.stmt], ind: int) -> None:
        # a local first assigned inside a nested block is a Lean `let mut` scoped to that block: it is forgotten afterwards,
        # so a later use outside the block (legal in Python) is reported as an unknown name instead of being mistranslated
        env0, declared0 = dict(self.env), set(self.declared)
        try:
            self._block(stmts, ind)
        finally:
            if ind > 1:
                self.env = {k: v for k, v in self.env.items() if k in env0}
                self.declared = {k for k in self.declared if k in declared0}

    def _block(self, stmts: List[ast.stmt], ind: int) -> None:
        if not stmts:
            self.emit(ind, "pure ()")
        for s in stmts:
            if self.try_flag is not None and self._in_try_body:
                # statements after a raising call inside try are skipped
                self.emit(ind, f"if !{self.try_flag} then")
                self.stmt(s, ind + 1)
            else:
                self.stmt(s, ind)

    _in_try_body = False

    def set_mut(self, tgt: ast.expr, new_value: Callable[[str], str], ind: int) -> None:
        d = dotted(tgt)
        if d in self.env and self.env[d] == "set":
            self.emit(ind, f"{lname(d)} := {new_value(lname(d))}")
        elif d and d.startswith("self.") and d[5:] in self.ms.self_fields and self.ms.self_fields[d[5:]] == "set":
            f = lname(d[5:])
            self.emit(ind, f"self := {{ self with {f} := {new_value('self.' + f)} }}")
        else:
            raise Unsupported(f"mutation of {ast.unparse(tgt)}")

    def loop_var_shadows(self, loop: ast.For, names: List[str], ind: int) -> None:
        """a loop variable assigned inside the body needs a mutable shadow (the iteration itself is not affected, as in Python)"""
        assigned = set()
        for node in ast.walk(ast.Module(body=loop.body, type_ignores=[])):
            if isinstance(node, ast.Name) and isinstance(node.ctx, ast.Store):
                assigned.add(node.id)
        for n in names:
            if n in assigned:
                self.emit(ind, f"let mut {lname(n)} := {lname(n)}")

    def stmt(self, s: ast.stmt, ind: int) -> None:
        pre: List[str] = []
        if isinstance(s, ast.Expr) and isinstance(s.value, ast.Constant) and isinstance(s.value.value, str):
            return  # docstring
        if isinstance(s, ast.Pass):
            self.emit(ind, "pure ()")
            return
        if isinstance(s, ast.Expr) and isinstance(s.value, ast.Call):
            c = s.value
            d = dotted(c.func)
            if d in self.ms.ignore_calls:
                self.emit(ind, f"pure ()  -- {ast.unparse(c)[:60]}")
                return
            if isinstance(c.func, ast.Attribute) and c.func.attr in SET_MUTATORS and d not in self.ms.opaque:
                m = c.func.attr
                if m == "clear":
                    self.set_mut(c.func.value, lambda cur: "[]", ind)
                    return
                a, aty = self.expr(c.args[0], pre)
                self.flush(ind, pre)
                if m == "update" and aty == "set":
                    self.set_mut(c.func.value, lambda cur: f"PSet.update {cur} {a}", ind)
                elif m == "add" and aty == "nat":
                    self.set_mut(c.func.value, lambda cur: f"PSet.add {cur} {a}", ind)
                elif m == "difference_update" and aty == "set":
                    self.set_mut(c.func.value, lambda cur: f"PSet.differenceUpdate {cur} {a}", ind)
                elif m == "discard" and aty == "nat":
                    self.set_mut(c.func.value, lambda cur: f"PSet.differenceUpdate {cur} [{a}]", ind)
                else:
                    raise Unsupported(f"{m}({aty})")
                return
            t, ty = self.expr(c, pre)
            self.flush(ind, pre)
            if not self.lines or t != "()":
                self.emit(ind, f"let _ := {t}")
            return
        if isinstance(s, ast.AugAssign):
            a, aty = self.expr(s.value, pre)
            self.flush(ind, pre)
            if isinstance(s.op, ast.BitOr) and aty == "set":
                self.set_mut(s.target, lambda cur: f"PSet.update {cur} {a}", ind)
            elif isinstance(s.op, ast.Sub) and aty == "set":
                self.set_mut(s.target, lambda cur: f"PSet.differenceUpdate {cur} {a}", ind)
            else:
                raise Unsupported(f"augmented assignment {ast.unparse(s)}")
            return
        if isinstance(s, ast.Assign) and len(s.targets) == 1 and isinstance(s.targets[0], ast.Attribute) and dotted(s.targets[0]) in self.ms.attr_vars:
            vn, vt = self.ms.attr_vars[dotted(s.targets[0])]
            v, vty = self.expr(s.value, pre)
            self.flush(ind, pre)
            if vty != vt:
                raise Unsupported(f"{dotted(s.targets[0])} assigned a {vty}")
            self.emit(ind, f"{lname(vn)} := {v}")
            return
        if isinstance(s, ast.Assign) and len(s.targets) == 1 and isinstance(s.targets[0], ast.Attribute) and dotted(s.targets[0]) in self.ms.attr_assign_events:
            v, vty = self.expr(s.value, pre)
            self.flush(ind, pre)
            if vty != "bool":
                raise Unsupported(f"attribute assignment of a {vty}")
            self.effects_used = True
            self.emit(ind, f'log := log ++ ["{self.ms.attr_assign_events[dotted(s.targets[0])]}:=" ++ toString {v}]')
            return
        if isinstance(s, ast.Assign) and len(s.targets) == 1 and isinstance(s.targets[0], ast.Subscript):
            tg = s.targets[0]
            dd = dotted(tg.value)
            k, kty = self.expr(tg.slice, pre)
            v, vty = self.expr(s.value, pre)
            self.flush(ind, pre)
            if dd and dd.startswith("self.") and self.ms.self_fields.get(dd[5:]) == "dict" and kty == "str" and vty == "pyval":
                f = lname(dd[5:])
                self.emit(ind, f"self := {{ self with {f} := PyDict.set self.{f} {k} {v} }}")
                return
            fh, fa = split_ty(self.ms.self_fields.get(dd[5:], "")) if dd and dd.startswith("self.") else ("", [])
            if fh == "dict" and fa and kty == fa[0] and self.coerce(v, vty, fa[1]) is not None:
                f = lname(dd[5:])  # type: ignore[index]
                self.emit(ind, f"self := {{ self with {f} := NDict.set self.{f} {k} {self.coerce(v, vty, fa[1])} }}")
                return
            raise Unsupported(f"item assignment {ast.unparse(s)}")
        if isinstance(s, (ast.Assign, ast.AnnAssign)) and (isinstance(s, ast.AnnAssign) or len(s.targets) == 1) and isinstance(s.targets[0] if isinstance(s, ast.Assign) else s.target, ast.Attribute):
            # `self.<field> = value` (also with an annotation, as in __init__)
            tg = s.targets[0] if isinstance(s, ast.Assign) else s.target
            dd = dotted(tg)
            if not (dd and dd.startswith("self.") and dd[5:] in self.ms.self_fields) or s.value is None:
                raise Unsupported(f"attribute assignment {ast.unparse(s)[:80]}")
            v, vty = self.expr(s.value, pre)
            self.flush(ind, pre)
            fty = self.ms.self_fields[dd[5:]]
            cv = self.coerce(v, vty, fty)
            if cv is None:
                raise Unsupported(f"{dd} (a {fty}) assigned a {vty}")
            self.emit(ind, f"self := {{ self with {lname(dd[5:])} := {cv} }}")
            return
        if isinstance(s, ast.Assign) and len(s.targets) == 1 and isinstance(s.targets[0], ast.Tuple):
            # `a, b = t` for a pair t: the right side is evaluated once, then both names are bound
            names = [x.id if isinstance(x, ast.Name) else None for x in s.targets[0].elts]
            t, ty = self.expr(s.value, pre)
            self.flush(ind, pre)
            th, ta = split_ty(ty)
            if th != "tuple" or len(names) != 2 or None in names or names[0] == names[1]:
                raise Unsupported(f"unpacking {ast.unparse(s)[:80]}")
            if not isinstance(s.value, ast.Name):
                tmp = self.fresh("pair")
                self.emit(ind, f"let {tmp} := {t}")
                t = tmp
            for i, n in enumerate(names):
                assert n is not None
                if n in self.declared:
                    if self.env[n] != ta[i]:
                        raise Unsupported(f"{n} changes type {self.env[n]} -> {ta[i]}")
                    self.emit(ind, f"{lname(n)} := {t}.{i + 1}")
                else:
                    self.env[n] = ta[i]
                    self.declared.add(n)
                    self.emit(ind, f"let mut {lname(n)} : {LEAN_TY[ta[i]]} := {t}.{i + 1}")
            return
        if isinstance(s, ast.Assign):
            if len(s.targets) != 1 or not isinstance(s.targets[0], ast.Name):
                raise Unsupported(f"assignment target {ast.unparse(s)}")
            n = s.targets[0].id
            t, ty = self.expr(s.value, pre)
            self.flush(ind, pre)
            if n in self.declared:
                if self.env[n] != ty:
                    raise Unsupported(f"{n} changes type {self.env[n]} -> {ty}")
                self.emit(ind, f"{lname(n)} := {t}")
            else:
                self.env[n] = ty
                self.declared.add(n)
                self.emit(ind, f"let mut {lname(n)} : {LEAN_TY[ty]} := {t}")
            return
        if isinstance(s, ast.If):
            t, ty = self.expr(s.test, pre)
            self.flush(ind, pre)
            self.emit(ind, f"if {self.truthy(t, ty)} then")
            self.block(s.body, ind + 1)
            if s.orelse:
                self.emit(ind, "else")
                self.block(s.orelse, ind + 1)
            return
        if isinstance(s, ast.For) and not s.orelse and isinstance(s.target, ast.Tuple):
            # `for k, v in d.items():` over an insertion-ordered dict
            it, ity = self.expr(s.iter, pre)
            self.flush(ind, pre)
            ih, ia = split_ty(ity)
            names = [x.id if isinstance(x, ast.Name) else None for x in s.target.elts]
            if ih != "items" or len(ia) != 2 or len(names) != 2 or None in names or names[0] == names[1]:
                raise Unsupported(f"for {ast.unparse(s.target)} over {ity}")
            for n, ty in zip(names, ia):
                assert n is not None
                if n in self.declared and self.env.get(n) != ty:
                    raise Unsupported(f"loop variable {n} changes type {self.env[n]} -> {ty}")
                self.env[n] = ty
                self.declared.add(n)
            self.emit(ind, f"for ({lname(names[0])}, {lname(names[1])}) in {it} do")  # type: ignore[arg-type]
            self.loop_var_shadows(s, [n for n in names if n], ind + 1)
            self._loop_depth += 1
            self.while_flags.append(None)
            self.block(s.body, ind + 1)
            self.while_flags.pop()
            self._loop_depth -= 1
            return
        if isinstance(s, ast.For):
            if s.orelse or not isinstance(s.target, ast.Name):
                raise Unsupported("for/else or tuple target")
            it, ity = self.expr(s.iter, pre)
            self.flush(ind, pre)
            if ity not in ("set", "natlist"):
                raise Unsupported(f"for over {ity}")
            v = s.target.id
            self.env[v] = "nat"
            self.declared.add(v)
            self.emit(ind, f"for {lname(v)} in {it} do")
            self.loop_var_shadows(s, [v], ind + 1)
            self._loop_depth += 1
            self.while_flags.append(None)
            self.block(s.body, ind + 1)
            self.while_flags.pop()
            self._loop_depth -= 1
            return
        if isinstance(s, ast.While):
            # FUEL: at most `fuel` executions of the body; the test is evaluated before each of them and once more after the
            # last one; if it still holds then, the function ends with `.fuel` (the Python loop would go on)
            if s.orelse:
                raise Unsupported("while/else")
            flag = self.fresh("looping")
            self.emit(ind, f"let mut {flag} : Bool := true")
            self.emit(ind, "for _ in List.range fuel do")
            t, ty = self.expr(s.test, pre)
            self.flush(ind + 1, pre)
            self.emit(ind + 1, f"if !({self.truthy(t, ty)}) then")
            self.emit(ind + 2, f"{flag} := false")
            self.emit(ind + 2, "break")
            self._loop_depth += 1
            self.while_flags.append(flag)
            self.block(s.body, ind + 1)
            self.while_flags.pop()
            self._loop_depth -= 1
            self.emit(ind, f"if {flag} then")
            t, ty = self.expr(s.test, pre)
            self.flush(ind + 1, pre)
            self.emit(ind + 1, f"if {self.truthy(t, ty)} then")
            self.emit(ind + 2, "throw .fuel")
            return
        if isinstance(s, ast.Return):
            if s.value is None:
                self.emit(ind, f"return {self.ret_tuple('()')}")
                return
            t, ty = self.expr(s.value, pre)
            self.flush(ind, pre)
            if self.spec.ret == "boolorset":
                t = f"(.bool {t})" if ty == "bool" else f"(.set {t})" if ty == "set" else t
            elif ty != self.spec.ret:
                c = self.coerce(t, ty, self.spec.ret)
                if c is None:
                    raise Unsupported(f"return of {ty}, {self.spec.ret} declared")
                t = c
            self.emit(ind, f"return {self.ret_tuple(t)}")
            return
        if isinstance(s, ast.Continue):
            if self.spec.continue_is_return and self._loop_depth == 0:
                self.emit(ind, f"return {self.ret_tuple('()')}")
            else:
                self.emit(ind, "continue")
            return
        if isinstance(s, ast.Break):
            if self.spec.continue_is_return and self._loop_depth == 0:
                self.emit(ind, 'log := log ++ ["break"]')
                self.emit(ind, f"return {self.ret_tuple('()')}")
            else:
                if self.while_flags and self.while_flags[-1] is not None:
                    self.emit(ind, f"{self.while_flags[-1]} := false")  # the loop has ended: no fuel check after it
                self.emit(ind, "break")
            return
        if isinstance(s, ast.With):
            for it in s.items:
                if dotted(it.context_expr) not in self.ms.transparent_with or it.optional_vars is not None:
                    raise Unsupported(f"with {ast.unparse(it.context_expr)}")
            self.emit(ind, f"-- with {', '.join(ast.unparse(i.context_expr) for i in s.items)}: (the locked region is one atomic step of the model)")
            for b in s.body:
                self.stmt(b, ind)
            return
        if isinstance(s, ast.Raise):
            if isinstance(s.exc, ast.Call) and dotted(s.exc.func) in ("Exception", "ValueError") and len(s.exc.args) == 1 and isinstance(s.exc.args[0], ast.Constant):
                ctor = ".exception" if dotted(s.exc.func) == "Exception" else ".valueError"
                msg = str(s.exc.args[0].value).replace('"', "'")
                self.emit(ind, f'throw ({ctor} "{msg}")')
                return
            if isinstance(s.exc, ast.Call) and dotted(s.exc.func) in ("Exception", "ValueError") and len(s.exc.args) == 1 and isinstance(s.exc.args[0], ast.JoinedStr):
                self.expr(s.exc.args[0], pre)  # checks the interpolated expressions
                self.flush(ind, pre)
                ctor = ".exception" if dotted(s.exc.func) == "Exception" else ".valueError"
                self.emit(ind, f'throw ({ctor} "{self.fstring_text(s.exc.args[0])}")')
                return
            if isinstance(s.exc, ast.Call) and dotted(s.exc.func) == "Exception" and all(isinstance(a, ast.Name) and self.env.get(a.id) == "str" for a in s.exc.args):
                self.emit(ind, f'throw (.exception "{ast.unparse(s.exc)}")')
                return
            raise Unsupported(f"raise {ast.unparse(s)}")
        if isinstance(s, ast.Try):
            if s.finalbody or s.orelse or len(s.handlers) != 1 or dotted(s.handlers[0].type) != "Exception" or self.try_flag is not None:  # type: ignore[arg-type]
                raise Unsupported("try statement other than a single, un-nested `except Exception`")
            flag = self.fresh("raised")
            self.emit(ind, f"let mut {flag} := false")
            hname = s.handlers[0].name
            self.try_flag = flag
            self._in_try_body = True
            self.block(s.body, ind)
            self._in_try_body = False
            self.try_flag = None
            self.emit(ind, f"if {flag} then")
            if hname:
                self.env[hname] = "obj"
            self.block(s.handlers[0].body, ind + 1)
            if hname:
                self.env.pop(hname, None)
            return
        raise Unsupported(f"statement {type(s).__name__}: {ast.unparse(s)[:80]}")

    _loop_depth = 0

    # ---------------------------------------------------------------- whole function
    def lean_name(self) -> str:
        return lname(self.spec.lean_name or self.spec.py_name)

    def translate(self) -> str:
        stmts = self.spec.slicer(self.fdef) if self.spec.slicer else list(self.fdef.body)
        self.analyse(stmts)
        params = []
        if self.spec.self_type:
            params.append(f"(self : {self.spec.self_type})")
        for n, ty in list(self.spec.params.items()) + list(self.spec.live_in.items()):
            params.append(f"({lname(n)} : {LEAN_TY[ty]})")
        for av in self.attr_params:
            params.append(f"({lname(av)} : {LEAN_TY[self.env[av]]})")
        for n, ty in self.spec.extra_params:
            params.append(f"({lname(n)} : {ty})")
        if self.needs_fuel:
            params.append("(fuel : Nat)")
        for o, ty in self.oracles.items():
            params.append(f"({lname(o)} : {ty})")
        if self.effects:
            params.append("(log : List String)")
        self.lines = []
        for m in self.mutated:
            self.emit(1, f"let mut {lname(m)} := {lname(m)}")
        for lo in self.spec.live_out:
            if lo not in self.mutated and lo in self.env:
                self.emit(1, f"let mut {lname(lo)} := {lname(lo)}")
        for av in self.attr_written:
            self.emit(1, f"let mut {lname(av)} := {lname(av)}")
        for ra in self.reassigned:
            if ra not in self.mutated and ra not in self.spec.live_out:
                self.emit(1, f"let mut {lname(ra)} := {lname(ra)}")
        if self.self_mut:
            self.emit(1, "let mut self := self")
        if self.effects:
            self.emit(1, "let mut log := log")
        for s in stmts:
            self.stmt(s, 1)
        # falling off the end returns None
        def ends(ss: List[ast.stmt]) -> bool:
            if not ss:
                return False
            l = ss[-1]
            if isinstance(l, (ast.Return, ast.Raise)):
                return True
            if isinstance(l, ast.With):
                return ends(l.body)
            if isinstance(l, ast.If):
                return ends(l.body) and ends(l.orelse)
            return False

        if not ends(stmts):
            if self.spec.ret not in ("unit",):
                raise Unsupported(f"{self.spec.py_name} can fall off its end but declares a {self.spec.ret} result")
            self.emit(1, f"return {self.ret_tuple('()')}")
        doc = f"/-- `{self.spec.py_name}`" + (f": {self.spec.doc}" if self.spec.doc else "") + " -/\n"
        head = f"def {self.lean_name()} {' '.join(params)} : Except PyExc ({self.ret_type()}) := do\n"
        return doc + head + "\n".join(self.lines) + "\n"


class ModuleTranslator:
    def __init__(self, repo: Path, spec: ModuleSpec):
        self.spec = spec
        self.src = (repo / spec.path).read_text()
        self.tree = ast.parse(self.src)
        self.translated: Dict[str, FnTranslator] = {}

    def find(self, name: str) -> ast.FunctionDef:
        scope: List[ast.stmt] = self.tree.body
        if self.spec.cls:
            cl = [n for n in self.tree.body if isinstance(n, ast.ClassDef) and n.name == self.spec.cls]
            if not cl:
                raise Unsupported(f"class {self.spec.cls} not found in {self.spec.path}")
            scope = cl[0].body
        fs = [n for n in scope if isinstance(n, ast.FunctionDef) and n.name == name]
        if len(fs) != 1:
            raise Unsupported(f"function {name} not found (or not unique) in {self.spec.path}")
        return fs[0]

    def run(self, namespace: str) -> str:
        out = [f"/- translated by harness/pytrans.py from {self.spec.path} (subset translator; see its docstring) -/", *[f"import {m}" for m in self.spec.imports], f"namespace {namespace}", *[f"open {o}" for o in self.spec.opens], ""]
        if self.spec.prelude:
            out.append(self.spec.prelude)
        for fs in self.spec.functions:
            try:
                fdef = self.find(fs.py_name)
                # parameters of the Python function must be the ones the spec lists (a changed signature is a changed function)
                if not fs.slicer:
                    got = [a.arg for a in fdef.args.args if a.arg not in ("self", "cls")]
                    extra = [a for a in got if a not in fs.params]
                    if extra or [p for p in fs.params if p not in got]:
                        raise Unsupported(f"signature of {fs.py_name} is {got}, spec lists {list(fs.params)}")
                ft = FnTranslator(self, fs, fdef)
                text = ft.translate()
                self.translated[fs.lean_name or fs.py_name] = ft
                if fs.py_name not in self.translated:
                    self.translated[fs.py_name] = ft
                out.append(text)
            except Unsupported as u:
                nm = lname(fs.lean_name or fs.py_name)
                msg = str(u).replace('"', "'").replace("\n", " ")
                out.append(f"-- NOT TRANSLATED: {msg}\n#eval (throw (IO.userError \"pytrans: {nm}: {msg}\") : IO Unit)\ndef {nm} : Nat := pytrans_unsupported_construct\n")
        out.append(f"end {namespace}")
        return "\n".join(out) + "\n"


def loop_body_of(func_loop_src: str) -> Callable[[ast.FunctionDef], List[ast.stmt]]:
    """slicer: the body of the first `for` statement (anywhere inside the function) whose header unparses to `func_loop_src`"""

    def slicer(fdef: ast.FunctionDef) -> List[ast.stmt]:
        for node in ast.walk(fdef):
            if isinstance(node, ast.For) and f"for {ast.unparse(node.target)} in {ast.unparse(node.iter)}" == func_loop_src:
                return list(node.body)
        raise Unsupported(f"loop `{func_loop_src}` not found in {fdef.name}")

    return slicer


def while_test_of() -> Callable[[ast.FunctionDef], List[ast.stmt]]:
    """slicer: `return <test>` for the test of the first `while` statement of the function"""

    def slicer(fdef: ast.FunctionDef) -> List[ast.stmt]:
        for node in ast.walk(fdef):
            if isinstance(node, ast.While):
                r = ast.Return(value=node.test)
                return [ast.copy_location(r, node)]
        raise Unsupported(f"no while loop in {fdef.name}")

    return slicer


def nth_try_of(n: int) -> Callable[[ast.FunctionDef], List[ast.stmt]]:
    """slicer: the n-th (0-based, source order) `try` statement of the function, as a one-statement slice"""

    def slicer(fdef: ast.FunctionDef) -> List[ast.stmt]:
        tries = sorted((node for node in ast.walk(fdef) if isinstance(node, ast.Try)), key=lambda t: t.lineno)
        if len(tries) <= n:
            raise Unsupported(f"{fdef.name} has {len(tries)} try statements")
        return [tries[n]]

    return slicer
