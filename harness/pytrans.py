"""pytrans: a translator from a small, explicitly listed subset of Python to Lean 4 `do`-blocks.

Purpose (DESIGN section 4.1): the hand-written models of the orchestrator loop, of the drop tracker and of `join_all` are tied
to /repo not only by running both sides on inputs (correspondence) but also *statically*: on every run the current source text
of those functions is parsed (`ast`), translated statement by statement into `lean/MlodaVerif/Gen/<Name>.lean`, and theorems in
`Props/` prove the generated definitions equal to the hand-written model.  An edit of the Python function changes the generated
definition; the equality proof then fails to check (a broken obligation -> failing-input search), or, if the edit uses a construct
outside the subset, the generated file does not compile at all and names the construct.

The subset (everything else raises `Unsupported`, which makes the generated file fail to build):
  statements   Expr(call), Assign to a local name / AugAssign |= -= on sets, If/elif/else, For over a set/list, Return, Continue,
               Break, Pass, With (only the locks listed as transparent), Raise of Exception/ValueError with a constant message,
               Try/except Exception (calls that may raise are oracle-driven, see `Opaque.may_raise`)
  expressions  names, True/False/None, int/str constants, not/and/or, `in`/`not in`/==/!=/</<=/>/>= , len(), all()/any() over
               one generator, next(iter(s)), isinstance (listed pairs only), set methods issubset/intersection, attribute reads and
               zero-argument getters listed in the spec, calls of other translated functions, calls of listed opaque functions
  effects      a call of an opaque function appends its name to the effect log; an opaque function that returns a value takes
               that value from an oracle parameter of the generated function
  mutation     a set parameter mutated by the callee (update/add/difference_update/...) is returned next to the result and
               re-bound at the call site (Python aliasing of the caller's object); `self.<field>` mutation rebuilds `self`

Types come from the spec: "set" (PSet), "bool", "nat", "step" (PStep), "unit", "boolorset".

Extension for `CfwManager` (cfw_manager.py; run-time meaning in `Model/PyRtDict.lean`):
  types        "uuid", "sid" (a `str` as a Nat id; id 0 is the empty string, the only falsy one), "objid" (an object that is only
               stored and handed back) - all Lean `Nat`, but `==` is only accepted between equal types; "any" (`Any`: `Option Nat`,
               `none` = Python None); composite `opt[T]` (`Optional[T]`), `tuple[A,B]`, `dict[K,V]` with K a uuid / sid: an
               insertion-ordered dict as an association list `NDict V` (an existing key keeps its place, a new key goes to the end)
  expressions  `(a, b)`; `t[0]` / `t[1]` on a tuple; `d[k]` (KeyError), `k in d`, `d.get(k)` / `d.get(k, None)`, `{}`;
               `x is None` / `x is not None` on `opt[..]` / "any" values; truthiness of `opt[..]` (None is falsy, then the
               value's own truthiness), of a tuple (a pair is truthy) and of a "sid"; a method call on an `opt[dict]`
               receiver dereferences it (`None.get` raises AttributeError)
  statements   `d[k] = v`; `self.<field> = v` (also annotated); `a, b = t`; `for k, v in d.items():`; assignment to a loop variable
               inside the body (a mutable shadow - the iteration is not affected, as in Python); `return` inside a `for`;
               **`while cond:` gets FUEL**: the generated function (and every translated caller) takes an extra parameter
               `fuel : Nat`, the loop is `for _ in List.range fuel` around `if not cond: break; body`, and when `fuel`
               executions of the body did not make `cond` false the function ends with `throw .fuel`.  So a result other than
               `.error .fuel` at some fuel is the result of the Python call; `.error .fuel` at EVERY fuel means that the Python
               call does not return.  (`while ... else` is outside the subset; `break` inside a `while` body is supported.)
  coercions    a `T` where an `opt[T]` is expected is `some`, `None` where an `opt[..]` / "any" is expected is `none` (return
               values, attribute and item assignment).  There is no flow narrowing: a function that returns an `Optional` local
               after `if x is None: raise` is declared with an `opt[..]` result and the bridging theorem shows it is never `none`.

Extension for the data-lifecycle code and `Graph` (run-time meaning in `Model/PyRtObj.lean`; specs in extractors/pytrans_life.py,
pytrans_graph.py).  Everything here is only active for specs that ask for it (`methods`, `extern`, `obj_fields`, `narrow`,
`exc_types`, `recursive`), so the older generated files do not change:
  types        n-ary `tuple[A,B,C]` (right-nested Lean product); "queue" (a HANDLE of a `multiprocessing.Queue`, `Nat`), "qlist",
               "qmsg" (`QMsg`), "qheap" / "sched" (world variables, below), "pdata" (`ComputeFramework.data`: None / key str /
               table), "float" (opaque, `Unit`); `ModuleSpec.types` names structures of the prelude ("cfwobj" -> `CfwObj`), and
               `obj_fields` lists their attributes (`cfw.uuid`).  `yield[T]` / `list[T]` are `List T`.
  heap objects a compute-framework object is a VALUE; a local `x = d[k]` whose value is an object ALIASES the dict entry: after
               every call that mutates `x` the translation re-stores it (`d := NDict.set d k x` - the entry keeps its place).
               An object PARAMETER that is mutated is returned (as a mutated set was before).  Assumed: distinct keys hold
               distinct objects.  `self.a.b` paths are fields of `self` when the spec lists them (`field_names` maps them to the
               Lean structure; updates are nested `{ self with a := { self.a with b := … } }`).
  world        state outside the Python objects - the flight store (`store`), the heap of queue contents (`qheap`), what another
               process puts into a queue while the function runs (`sched`) - is a "world variable": a function that (or whose
               callee) touches it takes it as a parameter and returns it when written.
  calls        `ModuleSpec.methods`: a dotted call with a fixed run-time meaning (a `Method`: Lean function, receiver / argument
               types, required keyword constants such as `block=False`, mutated receiver / arguments, world variables, oracles);
               `ModuleSpec.extern`: a function translated in another module of the same generated file (called with its own
               calling convention; what it mutates is re-bound at the call site: locals, fields of self, aliases).
               Arguments are coerced (`T` to `Optional[T]`, None, a set used as a queue message and back).  A parameter omitted
               by the caller is the default of the Python signature ONLY if that default's source text is the one in the spec.
  expressions  `set()`, `{f(x) for x in xs}` (`PSet.ofList`), iteration over a dict (its keys), `d.values()`, `d.keys()`,
               `d.popitem()` (LAST inserted), `d.get(k, (None, None, None))`, truthiness of a dict / list / queue object,
               `x is True`, `x is None` on a value of a non-Optional type (False), attribute reads of objects.
  statements   `del d[k]` (KeyError), `d[k] = v` on a local / parameter dict, `_` in tuple targets;
               `yield e`: a GENERATOR is translated as "the list of everything it yields when drained, and the state afterwards";
               `try: x = q.get(block=False) … except queue.Empty: …` (`exc_types`): the FIRST statement must be the call whose
               `none` result stands for the exception and nothing else in the body may raise it (so no state change precedes the
               raise); emitted as a `match` on the Optional result, and when the handler always leaves (`continue`) the rest of
               the enclosing block moves into the `some` arm;
               flow NARROWING (`narrow=True`): `if x is None: raise/return/continue` puts the rest of the block into the `some`
               arm of a `match x`; `if x is not None:` / `if x:` (no else) narrow `x` in their body; a narrowed local is immutable;
               a `for` over a dict / `.items()` whose body may change that dict is refused (Python: RuntimeError);
               inside `try/except Exception` a monadic Method / translated call may now deliver a value (`x = f(…)`).
  recursion    a function marked `recursive` takes `fuel` = the number of Python frames still available: its body is the
               `fuel' + 1` arm of `match fuel`, a recursive call passes `fuel'`, and at fuel 0 it ends with `throw .recursion`
               (RecursionError).  As for `while`: `.error .recursion` at every fuel means the Python call never returns normally.
  exceptions   the state a RAISING call leaves behind (objects mutated before the raise) is not part of the translation's result;
               bridging theorems relate the exception to the model's error outcome and the state only for normal returns
               (unless the spec asks for `exc_state`, below).

Extension for `Options` / `OptionsValidator` / `Features.merge_options` (run-time meaning in `Model/PyRtVal.lean`; spec
extractors/pytrans_options.py).  Opt-in per spec (`exc_state`, `local_decl`, `fstring_eval`, `rt_names`, `obj_field_names`):
  exc_state    **the state AT THE RAISE is part of the result**: a function with mutable state (self, mutated parameters, written
               world variables) has the type `Except (PyExc × State) …`; every `throw e` is `throw (e, <state>)`, a run-time
               primitive (`Except PyExc α`) is lifted with `withSt <state>`, and a call of a translated function that has state is a
               `match`: in the `.error (exc, state')` arm what the callee mutated is re-bound and the exception goes on with the
               CALLER's state.  A function without mutable state stays `Except PyExc` (`dropSt` / `withSt` at the boundary).
  types        "pyset" (a Python set of arbitrary hashable values: `List PyVal`; `add` / `update` raise TypeError for an unhashable
               element / a value that cannot be iterated), "strset" (a set / frozenset of `str`), on top of "dict" (`PyDict`),
               "pyval", "str", "items", "strlist"; object types with other Lean field names (`obj_field_names`).
  expressions  `x or {}` / `x or frozenset()` on an Optional container; `set(d.keys())`; `a & b`, `a - b` on sets of str; `{a, b}` of
               str; `==` / `!=` on option values (`PyVal.pyEq`) and on dicts; `k in <set>` / `v in <dict>`; truthiness of an option
               value; dict comprehension over `.items()` with conditions (as the loop it abbreviates); **short circuit**: a later
               operand of `and` / `or` that may raise (`d[k]`) is only evaluated when the earlier one does not decide.
  statements   `d.update(e)` on a str-keyed dict, `s.add(x)` / `s.update(v)` on a "pyset" (on a PARAMETER only after it was
               re-assigned a fresh literal in the same block - otherwise the caller's object would change), `del d[k]`, `for x in
               <option value>` (`PyVal.iter`), iteration / `in` on an Optional set (None: TypeError); an interpolated item read in the
               f-string of a `raise` is evaluated before the throw (`fstring_eval`); `local_decl`: `FnSpec.local_types` declares the type
               of a local, values are coerced at assignments (`None` -> `none`, `T` -> `some`, a set of str -> a set of values).

Extension for the link-ordering code and pieces of `execution_plan.py` (run-time meaning in `Model/PyRtRef.lean`, `PyRtPlan.lean`; specs
extractors/pytrans_links.py, pytrans_plan.py).  Opt-in (`set_refs` / `ext`, `eq_types`, `iter_map`, `list_coerce`, `FnSpec.nested_in` / `closure`):
  set objects  **`set_refs`: Python `set` objects that may be SHARED between containers are references** (type "sref", a `Nat` handle)
               into the heap of set objects `sheap` (a world variable: a parameter of every function that touches a set object,
               returned when written; decided by a first translation pass).  `{x}` / `set()` / the default of a `defaultdict(set)`
               allocate, `r.add(x)`, `r.remove(x)` (KeyError), `x in r`, `len(r)`, `for x in r` (the body must not change set objects)
               go through the heap - so `d1[k] = v` with `v` taken from `d2.items()` makes both dicts hold THE SAME object and a later
               mutation through one is seen through the other.  `deepcopy(d)` of a dict of set objects is a snapshot of values.
  dicts        "kdict[K,V]" / "kddict[K,V]": insertion-ordered dicts (`dict`, `OrderedDict`; `defaultdict` - a READ of a missing key
               inserts it) with keys of any type with decidable equality (`KDict`): `d[k]`, `d[k] = v`, `del d[k]`, `k in d`, `len(d)`,
               `.items()` ("kitems"), `.keys()`, `OrderedDict()`, `OrderedDict(items)`, `list(items)`, `items.insert(pos, pair)`,
               `.move_to_end(k)`, `d[k].add(x)` / `d[k].update(s)` on defaultdicts of value sets.
  sets/lists   "eset[T]" (a set of records as a VALUE; iterating it needs `iter_map`: the order is an explicit input, except inside a
               set comprehension whose result is a set again), "list[T]" with `append`, heterogeneous lists through `list_coerce`.
  statements   `for` with any nesting of tuple targets, over `enumerate(…)`, `range(a)`, `range(a, b)`, dict items / keys, set
               objects; an inner loop that re-binds the loop variable of an enclosing loop is accepted when the enclosing body does not
               read it afterwards; `_ = e`; a chained comparison `a == b == c` with a name in the middle; `max(list)`; `len`;
               naturals: `+`, truthiness; `if x is None: A else: B` narrows `x` in B to a MUTABLE local (an assignment also
               updates the Optional variable); `x[i]` on an Optional tuple (None: TypeError); locals first assigned in every branch of
               an `if` are declared before it (`local_types`; checked: no path reads them before the assignment).
  nested def   a `def` nested in a method (`FnSpec.nested_in`) is translated as a function of its own, listed before the enclosing
               one; its free variables that are locals of the enclosing function (`closure`) are parameters, the call site passes
               the current values (Python closures read the variable at call time).  Only called, never stored / returned.
"""
from __future__ import annotations

import ast
import hashlib
import textwrap
from dataclasses import dataclass, field
from pathlib import Path
from typing import Any, Callable, Dict, List, Optional, Tuple

def split_ty(ty: str) -> Tuple[str, List[str]]:
    """"dict[uuid,tuple[sid,set]]" -> ("dict", ["uuid", "tuple[sid,set]"]); a plain type -> (ty, [])"""
    if "[" not in ty:
        return ty, []
    if not ty.endswith("]"):
        raise Unsupported(f"type {ty}")
    head, rest = ty.split("[", 1)
    rest, args, depth, cur = rest[:-1], [], 0, ""
    for ch in rest:
        if ch == "," and depth == 0:
            args.append(cur.strip())
            cur = ""
            continue
        depth += ch == "["
        depth -= ch == "]"
        cur += ch
    args.append(cur.strip())
    return head, args


class _LeanTy(dict):  # type: ignore[type-arg]
    """Lean text of a spec type; composite types opt[T], tuple[A,B], dict[K,V], items[K,V] are built on demand"""

    def __missing__(self, ty: str) -> str:
        head, args = split_ty(ty)

        def par(t: str) -> str:
            t = self[t]
            return f"({t})" if " " in t and not t.startswith("(") else t

        if head == "opt" and len(args) == 1:
            return f"Option {par(args[0])}"
        if head == "tuple" and len(args) >= 2:
            return "(" + " × ".join(self[a] for a in args) + ")"
        if head in ("dict", "items") and len(args) == 2 and args[0] in ("uuid", "sid", "nat"):
            return f"NDict {par(args[1])}"
        if head == "ddict" and len(args) == 2 and args[0] in ("uuid", "nat") and args[1] in ("natlist", "set", "nat"):
            return "NDict Nat" if args[1] == "nat" else "NDict (List Nat)"  # a defaultdict: reads insert (DDict / IDict)
        if head == "dict" and len(args) == 2 and split_ty(args[0])[0] == "tuple":
            return f"ADict {par(args[0])} {par(args[1])}"
        if head in ("yield", "list", "eset") and len(args) == 1:
            return f"List {par(args[0])}"
        if head in ("kdict", "kddict", "kitems") and len(args) == 2:
            return f"KDict {par(args[0])} {par(args[1])}"
        raise Unsupported(f"type {ty}")


NAT_LIKE = ("nat", "uuid", "sid", "objid")


def NAT_TYPES(ft: "FnTranslator") -> List[str]:
    """spec types of the module that are `Nat` ids"""
    return [t for t, lt in ft.ms.types.items() if lt == "Nat"] + list(NAT_LIKE)


def tuple_proj(n: int, i: int) -> str:
    """projection of component i (0-based) of a right-nested Lean n-tuple"""
    return ".2" * i + ".1" if i < n - 1 else ".2" * (n - 1)


LEAN_TY = _LeanTy({"sref": "Nat", "sheap": "SHeap", "queue": "Nat", "qlist": "List Nat", "qmsg": "QMsg", "qheap": "QHeap", "sched": "List (List QMsg)", "pdata": "PData", "float": "Unit", "uuid": "Nat", "sid": "Nat", "objid": "Nat", "any": "Option Nat", "obj": "Unit", "dict": "PyDict", "pyval": "PyVal", "items": "PyDict", "strlist": "List String", "set": "PSet", "bool": "Bool", "nat": "Nat", "step": "PStep", "unit": "Unit", "boolorset": "BoolOrSet", "str": "String", "natlist": "List Nat", "pyset": "List PyVal", "strset": "List String"})
SET_MUTATORS = {"update", "add", "difference_update", "discard", "remove", "clear"}
LEAN_KEYWORDS = {"from", "to", "end", "at", "in", "do", "then", "else", "if", "let", "have", "show", "fun", "open", "local", "instance", "class", "structure", "def", "theorem", "where", "with", "match", "return", "for", "mut", "unless", "break", "continue", "try", "catch", "finally", "import", "namespace", "section", "variable", "universe", "export", "prefix", "infix", "notation", "macro", "syntax", "deriving", "extends", "abbrev", "example", "axiom", "private", "protected", "partial", "unsafe", "mutual", "inductive", "Type", "Prop", "Sort", "by", "using", "calc", "nomatch", "nofun", "forall", "exists"}


class Unsupported(Exception):
    pass


@dataclass
class Opaque:
    """A callee that is not translated: calling it appends `event` to the effect log."""

    event: str
    returns: Optional[str] = None  # None: no value used; "bool": value comes from the oracle parameter `oracle`
    oracle: Optional[str] = None  # name of the generated function's extra parameter providing the returned value
    may_raise: Optional[str] = None  # name of an oracle parameter (Nat -> Bool or Bool) deciding whether the call raises
    raise_arg: Optional[int] = None  # index of the call's receiver/argument handed to a Nat -> Bool raise oracle (-1 = receiver)


@dataclass
class Method:
    """A call that is not translated but has a fixed run-time meaning: a Lean function of the run-time library (or of the spec's
    prelude).  `lean recv? args… world…` returns - inside `Except PyExc` when `monadic` - the tuple `(result?, recv'?, world'…)`
    (`result` when `ret` is not "unit", `recv'` when `mutates_recv`, one component per mutated argument, one per WRITTEN world variable)."""

    lean: str
    recv: Optional[str] = None  # spec type of the receiver; None: a plain function (`FlightServer.drop_tables`)
    args: List[str] = field(default_factory=list)  # spec types of the positional arguments
    ret: str = "unit"
    monadic: bool = False
    mutates_recv: bool = False
    mutates_args: List[int] = field(default_factory=list)  # indices of arguments whose object the call mutates: returned after `recv'`
    world: List[Tuple[str, str, bool]] = field(default_factory=list)  # (world variable, spec type, written?) passed after the arguments
    kwargs: Dict[str, Any] = field(default_factory=dict)  # keyword arguments the call must carry, with their constant values
    none_is: Optional[str] = None  # `ret` is opt[..] and `none` stands for this exception (the Python call raises it); see typed try/except
    oracles: List[Tuple[str, str]] = field(default_factory=list)  # oracle parameters (name, Lean type) appended after the world variables


@dataclass
class Extern:
    """A call of a function translated in ANOTHER module (an already-run ModuleTranslator): `recv` is the Python expression whose
    value is the callee's `self` (None: the call's own receiver `a.b` of `a.b.f(...)`)."""

    mod: Any  # ModuleTranslator
    fn: str
    recv: Optional[str] = None


@dataclass
class FnSpec:
    py_name: str
    params: Dict[str, str]  # python parameter name -> type (in order, without self)
    ret: str = "unit"
    lean_name: Optional[str] = None
    self_type: Optional[str] = None  # Lean structure name for `self`, fields listed in ModuleSpec.self_fields
    # take only a slice of the function: callable(FunctionDef) -> (statements, {extra live-in name: type})
    slicer: Optional[Callable[[ast.FunctionDef], List[ast.stmt]]] = None
    live_in: Dict[str, str] = field(default_factory=dict)  # for slices: local names that are parameters of the generated function
    live_out: List[str] = field(default_factory=list)  # for slices: locals returned at the end (and at `continue`)
    continue_is_return: bool = False  # a slice taken from a loop body: `continue` ends the slice
    extra_params: List[Tuple[str, str]] = field(default_factory=list)  # further parameters (name, Lean type), e.g. predicates used by isinstance_map
    doc: str = ""
    defaults: Dict[str, Tuple[str, str]] = field(default_factory=dict)  # parameter -> (source text of its Python default, Lean text used when a caller omits it)
    local_types: Dict[str, str] = field(default_factory=dict)  # locals created by `defaultdict(...)`: name -> type (the key type is not in the source)
    recursive: bool = False  # the function calls itself: it takes `fuel` = remaining Python frames (see the docstring)
    nested_in: Optional[str] = None  # a `def` nested in this method: translated as a function of its own (listed BEFORE the enclosing one)
    closure: Dict[str, str] = field(default_factory=dict)  # free variables of a nested `def` that are locals of the enclosing function: name -> type (extra parameters; the call site passes the current value)


@dataclass
class ModuleSpec:
    path: str  # relative to the repo root
    cls: Optional[str]
    functions: List[FnSpec]
    attrs: Dict[str, Tuple[str, str]] = field(default_factory=dict)  # "step.required_uuids" -> (lean text, type)
    getters: Dict[str, Tuple[str, str]] = field(default_factory=dict)  # "step.get_uuids" -> (lean text, type)   (zero-arg calls)
    isinstance_map: Dict[Tuple[str, str], str] = field(default_factory=dict)  # ("step","FeatureGroupStep") -> lean bool text
    opaque: Dict[str, Opaque] = field(default_factory=dict)  # "self._execute_step" -> Opaque
    transparent_with: List[str] = field(default_factory=list)  # "self._step_lock"
    self_fields: Dict[str, str] = field(default_factory=dict)  # field -> type
    ignore_calls: List[str] = field(default_factory=list)  # "logger.error", "time.sleep" ... (no semantic effect in the model)
    prelude: str = ""
    expr_map: Dict[str, Tuple[str, str]] = field(default_factory=dict)  # ast.unparse(expr) -> (lean text, type), checked first
    attr_vars: Dict[str, Tuple[str, str]] = field(default_factory=dict)  # "step.step_is_done" -> (variable name, type): an attribute treated as a mutable variable that is passed in and returned
    attr_assign_events: Dict[str, str] = field(default_factory=dict)  # "command.step_is_done" -> event name (value appended)
    imports: List[str] = field(default_factory=lambda: ["MlodaVerif.Model.PyRt"])
    opens: List[str] = field(default_factory=lambda: ["PyRt"])
    fstring_text: bool = False  # f-strings are rendered as their constant parts with `{}` holes instead of the token "<f-string>"
    methods: Dict[str, Method] = field(default_factory=dict)  # "command_queue.put" -> Method (keyed like `opaque` by the dotted call)
    extern: Dict[str, Extern] = field(default_factory=dict)  # "self.data_lifecycle_manager.drop_cfw_data" -> Extern
    types: Dict[str, str] = field(default_factory=dict)  # further spec types -> Lean type (structures of the prelude), e.g. "cfwobj" -> "CfwObj"
    obj_fields: Dict[str, Dict[str, str]] = field(default_factory=dict)  # object type -> attribute -> type (attribute reads `cfw.uuid`)
    field_names: Dict[str, str] = field(default_factory=dict)  # python path of a self field "executor.cfw_collection" -> Lean path "cfw_collection"
    narrow: bool = False  # flow narrowing of Optional locals (`if x is None: raise/return`, `if x is not None:`, `if x:`), see the docstring
    exc_types: Dict[str, str] = field(default_factory=dict)  # "queue.Empty" -> the `none_is` tag of the Method whose failure it is
    exc_state: bool = False  # a function with mutable state returns `Except (PyExc × State) …`: the state AT THE RAISE is part of the result (see the docstring)
    rt_names: Dict[str, str] = field(default_factory=dict)  # run-time primitive -> the name to emit instead ("PyDict.getItem" -> "PyDict.getItemE")
    obj_field_names: Dict[str, Dict[str, str]] = field(default_factory=dict)  # object type -> python attribute -> Lean field name (when they differ)
    fstring_eval: bool = False  # an item read `d[k]` interpolated into the f-string of a `raise` is evaluated (bound) before the throw: it may raise itself
    ext: bool = False  # the newer statement / expression forms (general `for` targets, `enumerate`, `range`, dicts with arbitrary keys, sets of records, …) without the heap of set objects
    set_refs: bool = False  # Python `set` objects that may be SHARED between containers are references ("sref") into the world variable `sheap` (see the docstring)
    eq_types: List[str] = field(default_factory=list)  # further spec types whose Python `==` is structural equality of the Lean values (ids, records of ids)
    list_coerce: Dict[Tuple[str, str], str] = field(default_factory=dict)  # ("qitems", element type) -> Lean text with `{}`: how a value of that type becomes an element of the heterogeneous list
    iter_map: Dict[str, Tuple[str, str]] = field(default_factory=dict)  # "for x in s" (loop header) -> (Lean list, element type): the iteration order of a set of non-ids is an explicit input
    local_decl: bool = False  # `FnSpec.local_types` also declares the type of ordinary locals (the value of the first assignment is coerced to it)


def paren(t: str) -> str:
    """`t` as an argument of an application"""
    if " " not in t:
        return t
    if t.startswith("("):
        depth = 0
        for i, ch in enumerate(t):
            depth += ch == "("
            depth -= ch == ")"
            if depth == 0:
                if i == len(t) - 1:
                    return t
                break
    return f"({t})"


def lname(n: str) -> str:
    return f"«{n}»" if n in LEAN_KEYWORDS else n


def dotted(e: ast.AST) -> Optional[str]:
    if isinstance(e, ast.Name):
        return e.id
    if isinstance(e, ast.Attribute):
        b = dotted(e.value)
        return None if b is None else f"{b}.{e.attr}"
    return None


class FnTranslator:
    def __init__(self, mod: "ModuleTranslator", spec: FnSpec, fdef: ast.FunctionDef):
        self.mod = mod
        self.ms = mod.spec
        self.spec = spec
        self.fdef = fdef
        self.env: Dict[str, str] = dict(spec.params)
        self.env.update(spec.live_in)
        self.env.update(spec.closure)
        self.mutated: List[str] = []  # parameters (or live-in names) mutated -> returned
        self.self_mut = False
        self.effects = False
        self.oracles: Dict[str, str] = {}  # oracle parameter -> lean type
        self.declared: set = set(self.env)
        self.tmp = 0
        self.attr_written: List[str] = []
        self.reassigned: List[str] = []  # parameters assigned a new value (need a mutable shadow, not returned)
        self.try_flag: Optional[str] = None
        self.lines: List[str] = []
        self.needs_fuel = False  # the function (or a translated callee) contains a `while`: extra parameter `fuel`
        self.while_flags: List[Optional[str]] = []  # innermost last: flag variable of a `while`, None for a `for`
        self.rename: Dict[str, str] = {}  # python local -> Lean name while it is flow-narrowed (an immutable binder of a `match` arm)
        self.alias: Dict[str, Tuple[ast.expr, ast.expr]] = {}  # local `x = d[k]` holding a heap object: (d, k); a mutation of x is written back
        self.touches: set = set()  # defaultdict fields of self that a read may grow (here or in a callee)
        self.writes: set = set()  # fields of self written otherwise (item assignment, del, append / add on an item, attribute assignment)
        self.force_heap: Optional[Tuple[bool, bool]] = None  # (read, written): the world variable `sheap` is a parameter / is returned (decided by a first pass)
        self.heap_read = False
        self.heap_written = False
        self.loop_stack: List[Tuple[ast.For, set]] = []  # enclosing `for` statements with the names they bind
        self.obj_loop_vars: set = set()  # loop variables that hold an object of the list being iterated (mutable; written back into the list)
        self.narrow_mut: set = set()  # flow-narrowed Optional locals whose narrowed value is a MUTABLE local (assignments are written back to the Optional variable)
        self.fresh_objs: set = set()  # locals / parameters that were assigned a fresh container literal in the current block (mutating them cannot be seen by the caller)
        self.is_gen = False  # the function is a generator: `yield e` appends to `yielded`, which is what is returned
        for t, lt in self.ms.types.items():
            LEAN_TY[t] = lt

    # ---------------------------------------------------------------- names, fields, assignment targets
    def ln(self, n: str) -> str:
        return self.rename.get(n) or lname(n)

    def sfield(self, d: Optional[str]) -> Optional[Tuple[str, str]]:
        """`self.a.b` -> (Lean text of the field, its type) when the spec lists the path `a.b` as a field of `self`"""
        if not d or not d.startswith("self.") or d[5:] not in self.ms.self_fields:
            return None
        lp = self.ms.field_names.get(d[5:], d[5:])
        return "self." + ".".join(lname(x) for x in lp.split(".")), self.ms.self_fields[d[5:]]

    def sfield_set(self, d: str, value: str) -> str:
        """the statement that stores `value` into the field `self.a.b` (nested structure update)"""
        lp = [lname(x) for x in self.ms.field_names.get(d[5:], d[5:]).split(".")]
        for i in range(len(lp) - 1, -1, -1):
            owner = ".".join(["self"] + lp[:i])
            value = f"{{ {owner} with {lp[i]} := {value} }}"
        return f"self := {value}"

    def is_objty(self, ty: str) -> bool:
        return ty in self.ms.obj_fields

    def writeback(self, n: str) -> List[str]:
        """`n` is a local alias of the heap object `d[k]`: after a mutation of the object the dict entry is the new value"""
        if n not in self.alias:
            return []
        d_ast, k_ast = self.alias[n]
        pre: List[str] = []
        dt, dty = self.expr(d_ast, pre)
        kt, _ = self.expr(k_ast, pre)
        if pre:
            raise Unsupported(f"write-back of the alias {n}")
        return self.assign_to(d_ast, f"NDict.set {dt} {kt} {self.ln(n)}")

    def assign_to(self, tgt: ast.expr, value: str) -> List[str]:
        """statements that make the object denoted by `tgt` (a local / parameter or a field of self) the new value `value`"""
        d = dotted(tgt)
        if isinstance(tgt, ast.Name) and d in self.env:
            if d in self.rename:
                raise Unsupported(f"mutation of the flow-narrowed local {d}")
            return [f"{lname(d)} := {value}"] + self.writeback(d)
        if self.sfield(d) is not None:
            return [self.sfield_set(d, value)]  # type: ignore[arg-type]
        if d in self.ms.attr_vars:
            return [f"{lname(self.ms.attr_vars[d][0])} := {value}"]
        if isinstance(tgt, ast.Attribute) and isinstance(tgt.value, ast.Name) and tgt.value.id in self.obj_loop_vars:
            o = tgt.value.id
            oty = self.env[o]
            if tgt.attr not in self.ms.obj_fields.get(oty, {}):
                raise Unsupported(f"attribute {d} of a {oty}")
            fld = lname(self.ms.obj_field_names.get(oty, {}).get(tgt.attr, tgt.attr))
            return [f"{lname(o)} := {{ {lname(o)} with {fld} := {value} }}"]
        raise Unsupported(f"the callee mutates {ast.unparse(tgt)}, which is neither a local nor a field of self")

    # ---------------------------------------------------------------- analysis
    def analyse(self, stmts: List[ast.stmt]) -> None:
        self.attr_params: List[str] = []
        if self.spec.recursive:
            self.needs_fuel = True
        if self.force_heap is not None and (self.force_heap[0] or self.force_heap[1]):
            self.use_world("sheap", "sheap", self.force_heap[1])
        # locals that alias a heap object stored in a dict (`x = d[k]`): a mutation of x mutates d
        aliases: Dict[str, ast.expr] = {}
        for node in ast.walk(ast.Module(body=stmts, type_ignores=[])):
            if isinstance(node, ast.Assign) and len(node.targets) == 1 and isinstance(node.targets[0], ast.Name) and isinstance(node.value, ast.Subscript):
                aliases[node.targets[0].id] = node.value.value
        for node in ast.walk(ast.Module(body=stmts, type_ignores=[])):
            if isinstance(node, (ast.Yield, ast.YieldFrom)):
                self.is_gen = True
            if isinstance(node, ast.Subscript) and isinstance(node.ctx, ast.Load) and self.extm:
                dv = dotted(node.value)
                if dv in self.ms.attr_vars and split_ty(self.ms.attr_vars[dv][1])[0] in ("ddict", "kddict"):
                    vn = self.ms.attr_vars[dv][0]
                    if vn not in self.attr_written:
                        self.attr_written.append(vn)  # a defaultdict read may insert the key
                if isinstance(node.value, ast.Name) and dv in self.spec.params and split_ty(self.spec.params[dv])[0] in ("ddict", "kddict") and dv not in self.mutated:
                    self.mutated.append(dv)  # the caller's defaultdict may grow by the read
            if isinstance(node, ast.Subscript) and isinstance(node.ctx, ast.Load):
                sf0 = self.sfield(dotted(node.value))
                if sf0 is not None and (split_ty(sf0[1])[0] == "ddict" or (self.extm and split_ty(sf0[1])[0] == "kddict")):
                    self.self_mut = True  # a defaultdict read may insert the key
                    self.touches.add(dotted(node.value))
            if isinstance(node, ast.Call) and isinstance(node.func, ast.Attribute) and node.func.attr in ("append", "add") and isinstance(node.func.value, ast.Subscript):
                self.note_mutation(node.func.value.value, aliases)
                if self.sfield(dotted(node.func.value.value)) is not None:
                    self.writes.add(dotted(node.func.value.value))
            if isinstance(node, ast.Call) and isinstance(node.func, ast.Attribute) and node.func.attr == "append" and not isinstance(node.func.value, ast.Subscript):
                self.note_mutation(node.func.value, aliases)
                if self.sfield(dotted(node.func.value)) is not None:
                    self.writes.add(dotted(node.func.value))
            if isinstance(node, ast.AugAssign) and isinstance(node.target, ast.Subscript):
                self.note_mutation(node.target.value, aliases)
                if self.sfield(dotted(node.target.value)) is not None:
                    self.writes.add(dotted(node.target.value))
            if isinstance(node, (ast.Assign, ast.AnnAssign, ast.Delete)):
                for tg in (node.targets if not isinstance(node, ast.AnnAssign) else [node.target]):
                    base = tg.value if isinstance(tg, ast.Subscript) else tg
                    if self.sfield(dotted(base)) is not None:
                        self.writes.add(dotted(base))
            if isinstance(node, ast.Delete):
                for tg in node.targets:
                    if isinstance(tg, ast.Subscript):
                        self.note_mutation(tg.value, aliases)
            if isinstance(node, ast.Attribute) and dotted(node) in self.ms.attr_vars:
                vn, vt = self.ms.attr_vars[dotted(node)]
                if vn not in self.env:
                    self.env[vn] = vt
                    self.declared.add(vn)
                    self.attr_params.append(vn)
                if isinstance(node.ctx, ast.Store) and vn not in self.attr_written:
                    self.attr_written.append(vn)
            if isinstance(node, ast.Call) and isinstance(node.func, ast.Attribute) and node.func.attr == "popitem" and not node.args:
                self.note_mutation(node.func.value, aliases)
            if isinstance(node, ast.Call) and isinstance(node.func, ast.Attribute) and node.func.attr in SET_MUTATORS:
                tgt = dotted(node.func.value)
                if tgt in self.env and self.env[tgt] == "set" and tgt not in self.mutated:
                    self.mutated.append(tgt)
                elif tgt and tgt.startswith("self.") and tgt[5:] in self.ms.self_fields:
                    self.self_mut = True
            if isinstance(node, ast.Assign) and len(node.targets) == 1 and isinstance(node.targets[0], ast.Name) and node.targets[0].id in self.env and node.targets[0].id not in self.reassigned:
                self.reassigned.append(node.targets[0].id)
            if isinstance(node, ast.Assign) and len(node.targets) == 1 and isinstance(node.targets[0], ast.Subscript):
                tgt = dotted(node.targets[0].value)
                if tgt and tgt.startswith("self.") and tgt[5:] in self.ms.self_fields:
                    self.self_mut = True
                else:
                    self.note_mutation(node.targets[0].value, aliases)
            if isinstance(node, (ast.Assign, ast.AnnAssign)):
                tg0 = node.targets[0] if isinstance(node, ast.Assign) and len(node.targets) == 1 else node.target if isinstance(node, ast.AnnAssign) else None
                tgt = dotted(tg0) if isinstance(tg0, ast.Attribute) else None
                if tgt and tgt.startswith("self.") and tgt[5:] in self.ms.self_fields and tgt not in self.ms.attr_vars and tgt not in self.ms.attr_assign_events:
                    self.self_mut = True
            if isinstance(node, ast.For) and self.extm and isinstance(node.iter, ast.Name) and isinstance(node.target, ast.Name) and self.obj_loop_mutates(node):
                self.note_mutation(node.iter, aliases)  # the objects in the caller's list change
            if isinstance(node, ast.While):
                self.needs_fuel = True
            if isinstance(node, ast.Assign) and len(node.targets) == 1 and dotted(node.targets[0]) in self.ms.attr_assign_events:
                self.effects = True
            if isinstance(node, ast.Break) and self.spec.continue_is_return:
                self.effects = True
            if isinstance(node, ast.AugAssign):
                tgt = dotted(node.target)
                if tgt in self.env and self.env[tgt] == "set" and tgt not in self.mutated:
                    self.mutated.append(tgt)
            if isinstance(node, ast.Call):
                d = dotted(node.func)
                if d in self.ms.opaque:
                    self.effects = True
                    o = self.ms.opaque[d]
                    if o.oracle:
                        self.oracles[o.oracle] = LEAN_TY[o.returns or "bool"]
                    if o.may_raise and o.raise_arg is None:
                        pass
                    if o.may_raise:
                        self.oracles[o.may_raise] = "Nat → Bool" if o.raise_arg is not None else "Bool"
                if d in self.ms.methods:
                    m = self.ms.methods[d]
                    for vn, vt, written in m.world:
                        self.use_world(vn, vt, written)
                    for on, oty in m.oracles:
                        self.oracles[on] = oty
                    if m.mutates_recv and isinstance(node.func, ast.Attribute):
                        self.note_mutation(node.func.value, aliases)
                    for i in m.mutates_args:
                        if i < len(node.args):
                            self.note_mutation(node.args[i], aliases)
                callee = self.callee_of(d)
                if callee is not None:
                    # mutations / effects of a callee propagate
                    for i, (pn, _) in enumerate(callee.spec.params.items()):
                        if pn in callee.mutated:
                            a_ast = node.args[i] if i < len(node.args) else next((k.value for k in node.keywords if k.arg == pn), None)
                            if a_ast is not None:
                                self.note_mutation(a_ast, aliases)
                    if callee.self_mut:
                        if d in self.ms.extern:
                            x = self.ms.extern[d]
                            self.note_mutation(ast.parse(x.recv, mode="eval").body if x.recv else node.func.value, aliases)  # type: ignore[attr-defined]
                        else:
                            self.self_mut = True
                    if d not in self.ms.extern:
                        self.touches |= callee.touches
                        self.writes |= callee.writes
                    self.effects = self.effects or callee.effects
                    self.needs_fuel = self.needs_fuel or callee.needs_fuel
                    self.oracles.update(callee.oracles)
                    if "sheap" in callee.attr_params:
                        self.heap_read = True
                        self.heap_written = self.heap_written or "sheap" in callee.attr_written
                    for av in callee.attr_params:
                        if av not in self.env:
                            self.env[av] = callee.env[av]
                            self.declared.add(av)
                            self.attr_params.append(av)
                    for av in callee.attr_written:
                        if av not in self.attr_written:
                            self.attr_written.append(av)
                    for xp in callee.spec.extra_params:
                        if xp not in self.spec.extra_params:
                            self.spec.extra_params.append(xp)
        # keep parameter order
        order = list(self.spec.params) + list(self.spec.live_in)
        self.mutated.sort(key=lambda n: order.index(n))

    def obj_loop_mutates(self, loop: ast.For) -> bool:
        """the body of `for x in <list>` mutates the object `x` (a method call on / an assignment to an attribute of `x`)"""
        assert isinstance(loop.target, ast.Name)
        v = loop.target.id
        for node in ast.walk(ast.Module(body=loop.body, type_ignores=[])):
            if isinstance(node, ast.Call) and isinstance(node.func, ast.Attribute) and node.func.attr in SET_MUTATORS | {"append"} and isinstance(node.func.value, ast.Attribute) and isinstance(node.func.value.value, ast.Name) and node.func.value.value.id == v:
                return True
            if isinstance(node, (ast.Assign, ast.AugAssign)):
                for tg in (node.targets if isinstance(node, ast.Assign) else [node.target]):
                    if isinstance(tg, ast.Attribute) and isinstance(tg.value, ast.Name) and tg.value.id == v:
                        return True
        return False

    def use_world(self, vn: str, vt: str, written: bool) -> None:
        """a world variable (flight store, queue heap, arrival schedule): a parameter, returned when written"""
        if vn not in self.env:
            self.env[vn] = vt
            self.declared.add(vn)
            self.attr_params.append(vn)
        if written and vn not in self.attr_written:
            self.attr_written.append(vn)

    def note_mutation(self, tgt: ast.expr, aliases: Dict[str, ast.expr]) -> None:
        """analysis: the object denoted by `tgt` is mutated (by a method, a callee, `del`): a parameter is returned, a field rebuilds self"""
        d = dotted(tgt)
        if isinstance(tgt, ast.Name) and d in aliases and d not in self.spec.params and d not in self.spec.live_in:
            self.note_mutation(aliases[d], aliases)  # type: ignore[index]
            return
        if isinstance(tgt, ast.Name) and (d in self.spec.params or d in self.spec.live_in):
            if d not in self.mutated:
                self.mutated.append(d)  # type: ignore[arg-type]
        elif d and d.startswith("self.") and d[5:] in self.ms.self_fields and d not in self.ms.attr_vars:
            self.self_mut = True

    def callee_of(self, d: Optional[str]) -> Optional["FnTranslator"]:
        """the translated function a dotted call name denotes: of this module (`self.f`, or `f` in a module without class) or an extern"""
        if not d:
            return None
        if d in self.ms.extern:
            x = self.ms.extern[d]
            if x.fn not in x.mod.translated:
                raise Unsupported(f"extern {d}: {x.fn} was not translated")
            return x.mod.translated[x.fn]  # type: ignore[no-any-return]
        if d.startswith("self.") and d[5:] in self.mod.translated:
            return self.mod.translated[d[5:]]
        if self.ms.cls is None and d in self.mod.translated:
            return self.mod.translated[d]
        if d in self.mod.translated and self.mod.translated[d].spec.nested_in == self.spec.py_name:
            return self.mod.translated[d]  # a `def` nested in this function
        if self.spec.recursive and d in (f"self.{self.spec.py_name}", self.spec.py_name):
            return None  # the function itself: handled by the recursion rule
        return None

    # ---------------------------------------------------------------- signature helpers
    def ret_components(self) -> List[Tuple[str, str]]:
        comps: List[Tuple[str, str]] = []
        if self.spec.ret != "unit":
            comps.append(("<ret>", LEAN_TY[self.spec.ret]))
        for m in self.mutated:
            comps.append((m, LEAN_TY[self.env[m]]))
        for lo in self.spec.live_out:
            if lo not in self.mutated:
                comps.append((lo, LEAN_TY[self.env[lo]]))
        for av in self.attr_written:
            comps.append((av, LEAN_TY[self.env[av]]))
        if self.self_mut:
            comps.append(("self", self.spec.self_type or "Unit"))
        if self.effects:
            comps.append(("log", "List String"))
        return comps

    def ret_type(self) -> str:
        comps = self.ret_components()
        if not comps:
            return "Unit"
        return " × ".join(t for _, t in comps)

    def ret_tuple(self, value: Optional[str]) -> str:
        parts = []
        for n, _ in self.ret_components():
            parts.append(value if n == "<ret>" else lname(n))
        if not parts:
            return "()"
        return parts[0] if len(parts) == 1 else "(" + ", ".join(parts) + ")"

    # ---------------------------------------------------------------- expressions
    def truthy(self, txt: str, ty: str) -> str:
        if ty == "bool":
            return txt
        if ty == "set":
            return f"PSet.truthy {txt}"
        if ty == "obj":
            return "true"  # an object without __bool__/__len__ is truthy
        if ty == "sid":
            return f"(strTruthy {txt})"  # the empty string (id 0) is the only falsy str
        if ty in ("queue", "float") or self.is_objty(ty):
            return "true"  # an object without __bool__/__len__ is truthy
        if ty in ("natlist", "qlist", "strset", "pyset", "strlist", "dict", "items") or split_ty(ty)[0] == "list":
            return f"!({txt}).isEmpty"
        if ty == "pyval":
            return f"(PyVal.truthy {txt})"
        if ty == "nat" and self.extm:
            return f"({txt} != 0)"
        if ty == "sref":
            return f"(SHeap.len {self.heap()} {txt} != 0)"
        if split_ty(ty)[0] in ("kdict", "kddict", "kitems", "eset"):
            return f"!({txt}).isEmpty"
        head, args = split_ty(ty)
        if head == "dict" and args:
            return f"(NDict.truthy {txt})"
        if head == "tuple":
            return "true"  # a pair is never empty
        if head == "opt":
            inner = self.truthy("v", args[0])
            return f"({txt}).isSome" if inner == "true" else f"(Option.any (fun v => {inner}) {txt})"
        raise Unsupported(f"truthiness of a value of type {ty}: {txt}")

    def coerce(self, txt: str, ty: str, want: str) -> Optional[str]:
        """`txt : ty` used where a `want` is expected (return value, attribute / item assignment); None if not possible"""
        if ty == want:
            return txt
        wh, wa = split_ty(want)
        if ty == "unit" and txt == "()" and (wh == "opt" or want == "any"):
            return "none"
        if wh == "opt" and wa[0] == ty:
            return f"(some {txt})"
        if ty == "emptydict" and wh == "dict":
            return "[]"
        if ty == "strset" and want == "pyset":
            return f"(List.map PyVal.str {txt})"  # a set of str used where a set of arbitrary hashable values is expected
        if ty == "strset" and want == "opt[pyset]":
            return f"(some (List.map PyVal.str {txt}))"
        if ty == "emptydict" and wh == "opt" and split_ty(wa[0])[0] == "dict":
            return "(some [])"
        if ty in ("nat", "uuid") and want in ("nat", "uuid"):
            return txt  # the elements of a "set" are untyped ids
        if ty == "unit" and txt == "()" and want == "pdata":
            return "PData.none"
        if ty == "set" and want == "qmsg":
            return f"(QMsg.set {txt})"
        if ty == "tuple[" + ",".join(["unit"] * len(wa)) + "]" and wh == "tuple" and all(split_ty(a)[0] == "opt" or a == "any" for a in wa):
            return "(" + ", ".join(["none"] * len(wa)) + ")"  # `(None, None, None)`
        return None

    def coerce_arg(self, txt: str, ty: str, want: str) -> Optional[str]:
        """an argument of a call: `coerce`, plus the dynamic checks a callee would run into"""
        c = self.coerce(txt, ty, want)
        if c is None and ty == "qmsg" and want == "set":
            return self.M(f"QMsg.asSet {txt}")  # a queue message used as a set (after `isinstance(m, set)`)
        return c

    def deref_receiver(self, recv: str, rty: str) -> Tuple[str, str]:
        """receiver of a method call that has type `opt[T]`: `None.<attr>` raises AttributeError (`Opt.deref`)"""
        head, args = split_ty(rty)
        if head == "opt":
            return self.M(f"Opt.deref {recv}"), args[0]
        return recv, rty

    def expr(self, e: ast.expr, pre: List[str]) -> Tuple[str, str]:
        """returns (lean term, type); statements that must run before (monadic binds of calls) are appended to `pre`"""
        key = ast.unparse(e)
        if key in self.ms.expr_map:
            return self.ms.expr_map[key]
        if isinstance(e, ast.JoinedStr):
            # the text of a message is not modelled, but what is interpolated must be harmless to evaluate: a known local,
            # or a call the spec lists; anything else (attribute access, method call) could raise and is refused
            for part in e.values:
                if isinstance(part, ast.FormattedValue):
                    if isinstance(part.value, ast.Name) and part.value.id in self.env:
                        continue
                    ft, _ = self.expr(part.value, pre)
                    if self.ms.fstring_eval and "←" in ft:
                        pre.append(f"let _ := {ft}")  # the interpolated read is made (it may raise), its text is not kept
            return '"' + self.fstring_text(e) + '"', "str"
        if isinstance(e, ast.Constant):
            if e.value is True:
                return "true", "bool"
            if e.value is False:
                return "false", "bool"
            if e.value is None:
                return "()", "unit"
            if isinstance(e.value, int):
                return str(e.value), "nat"
            if isinstance(e.value, str):
                return '"' + e.value.replace("\\", "\\\\").replace('"', '\\"') + '"', "str"
            raise Unsupported(f"constant {e.value!r}")
        if isinstance(e, ast.Name):
            if e.id not in self.env:
                raise Unsupported(f"unknown name {e.id}")
            return self.ln(e.id), self.env[e.id]
        if isinstance(e, ast.Tuple) and isinstance(e.ctx, ast.Load) and len(e.elts) >= 2:
            parts = [self.expr(x, pre) for x in e.elts]
            return "(" + ", ".join(t for t, _ in parts) + ")", "tuple[" + ",".join(ty for _, ty in parts) + "]"
        if isinstance(e, ast.SetComp):
            return self.set_comp(e, pre)
        if isinstance(e, ast.ListComp):
            return self.list_comp(e, pre)
        if isinstance(e, ast.Dict) and not e.keys:
            return "[]", "emptydict"
        if isinstance(e, ast.Set) and e.elts:
            parts = [self.expr(x, pre) for x in e.elts]
            if all(ty == "str" for _, ty in parts):
                lit = "[" + ", ".join(t for t, _ in parts) + "]"
                return (lit if len(parts) == 1 else f"(List.eraseDups {lit})"), "strset"
            if len(parts) == 1 and parts[0][1] in NAT_LIKE and self.ms.set_refs:
                return self.new_set(f"[{parts[0][0]}]", pre), "sref"
            if all(ty in NAT_LIKE for _, ty in parts) and self.ms.ext:
                return "(PSet.ofList [" + ", ".join(t for t, _ in parts) + "])", "set"  # a new set (a value): the elements in first-occurrence order
            raise Unsupported(f"set display {ast.unparse(e)}")
        if isinstance(e, ast.DictComp):
            return self.dict_comp(e, pre)
        if isinstance(e, ast.BinOp) and isinstance(e.op, (ast.BitAnd, ast.Sub)):
            l, lt = self.expr(e.left, pre)
            r, rt = self.expr(e.right, pre)
            if lt == rt == "strset":
                return f"({'StrSet.inter' if isinstance(e.op, ast.BitAnd) else 'StrSet.diff'} {l} {r})", "strset"
            if lt == rt == "nat" and isinstance(e.op, ast.Sub):
                raise Unsupported("subtraction of naturals (could be negative)")
            raise Unsupported(f"{type(e.op).__name__} between {lt} and {rt}")
        if isinstance(e, ast.Attribute) and dotted(e) in self.ms.attr_vars:
            vn, vt = self.ms.attr_vars[dotted(e)]
            return lname(vn), vt
        if isinstance(e, ast.Attribute):
            d = dotted(e)
            if d in self.ms.attrs:
                return self.ms.attrs[d]
            sf = self.sfield(d)
            if sf is not None:
                return sf
            if self.ms.obj_fields:
                v, vty = self.expr(e.value, pre)
                if e.attr in self.ms.obj_fields.get(vty, {}):
                    return f"{paren(v)}.{lname(self.ms.obj_field_names.get(vty, {}).get(e.attr, e.attr))}", self.ms.obj_fields[vty][e.attr]
            raise Unsupported(f"attribute {d}")
        if isinstance(e, ast.UnaryOp) and isinstance(e.op, ast.Not):
            t, ty = self.expr(e.operand, pre)
            return f"!({self.truthy(t, ty)})", "bool"
        if isinstance(e, ast.BoolOp) and isinstance(e.op, ast.Or) and len(e.values) == 2 and isinstance(e.values[1], ast.Constant) and e.values[1].value is None:
            t0, ty0 = self.expr(e.values[0], pre)
            if ty0 == "obj":
                return t0, "obj"  # `obj or None`
            raise Unsupported(f"`{ty0} or None`")
        if isinstance(e, ast.BoolOp) and isinstance(e.op, ast.Or) and len(e.values) == 2 and self.empty_literal(e.values[1]):
            # `x or {}` / `x or frozenset()` for an Optional container: None and the empty container both give the empty container
            t0, ty0 = self.expr(e.values[0], pre)
            h0, a0 = split_ty(ty0)
            if h0 == "opt" and a0[0] in ("dict", "strset", "pyset") and a0[0] in self.empty_literal(e.values[1]):
                return f"(Option.getD {t0} [])", a0[0]
            raise Unsupported(f"`{ty0} or {ast.unparse(e.values[1])}`")
        if isinstance(e, ast.BoolOp):
            first = self.expr(e.values[0], pre)
            n0 = len(pre)
            later_pre: List[str] = []
            parts = [first] + [self.expr(v, later_pre) for v in e.values[1:]]
            if later_pre or any("←" in t for t, _ in parts[1:]):
                # a later operand may raise / has effects: it is only evaluated when the earlier ones do not decide (short circuit)
                if len(e.values) != 2:
                    raise Unsupported("and/or with more than two operands, one of which may raise")
                acc = self.fresh("and" if isinstance(e.op, ast.And) else "or")
                pre.append(f"let mut {acc} : Bool := {self.truthy(*first)}")
                inner = list(later_pre) + [f"{acc} := {self.truthy(*parts[1])}"]
                pre.append(f"if {acc if isinstance(e.op, ast.And) else '!' + acc} then\n" + "\n".join("  " + x for ln_ in inner for x in ln_.split("\n")))
                return acc, "bool"
            op = " && " if isinstance(e.op, ast.And) else " || "
            return "(" + op.join(self.truthy(t, ty) for t, ty in parts) + ")", "bool"
        if isinstance(e, ast.Compare) and len(e.ops) == 2 and self.extm and all(isinstance(o, ast.Eq) for o in e.ops) and isinstance(e.comparators[0], ast.Name):
            # `a == b == c` is `a == b and b == c` (b is a name: evaluating it twice is the same)
            l1, _ = self.expr(ast.Compare(left=e.left, ops=[e.ops[0]], comparators=[e.comparators[0]]), pre)
            l2, _ = self.expr(ast.Compare(left=e.comparators[0], ops=[e.ops[1]], comparators=[e.comparators[1]]), pre)
            return f"({l1} && {l2})", "bool"
        if isinstance(e, ast.Compare):
            if len(e.ops) != 1:
                raise Unsupported("chained comparison")
            op = e.ops[0]
            if isinstance(op, (ast.Is, ast.IsNot)):
                if isinstance(e.comparators[0], ast.Constant) and e.comparators[0].value is True and isinstance(op, ast.Is):
                    l, lt = self.expr(e.left, pre)
                    if lt != "boolorset":
                        raise Unsupported(f"`is True` on a value of type {lt}")
                    return f"(BoolOrSet.isTrue {l})", "bool"
                if not (isinstance(e.comparators[0], ast.Constant) and e.comparators[0].value is None):
                    raise Unsupported(f"`is` other than against None: {key}")
                l, lt = self.expr(e.left, pre)
                if lt == "pdata":
                    return (f"(PData.isNone {l})" if isinstance(op, ast.Is) else f"!(PData.isNone {l})"), "bool"
                if self.ms.narrow and lt in ("sid", "uuid", "nat", "set", "queue", "qmsg", "bool"):
                    return ("false" if isinstance(op, ast.Is) else "true"), "bool"  # a value of a non-Optional type is not None
                if lt != "any" and split_ty(lt)[0] != "opt":
                    raise Unsupported(f"`is None` on a value of type {lt}")
                return (f"({l}).isNone" if isinstance(op, ast.Is) else f"({l}).isSome"), "bool"
            l, lt = self.expr(e.left, pre)
            r, rt = self.expr(e.comparators[0], pre)
            if isinstance(op, (ast.In, ast.NotIn)):
                if rt == "dict" and lt == "str":
                    t = f"PyDict.has {r} {l}"
                elif split_ty(rt)[0] == "dict" and (split_ty(rt)[1][:1] == [lt] or (lt in ("nat", "uuid") and split_ty(rt)[1][:1] in (["nat"], ["uuid"]))):
                    t = f"NDict.has {r} {l}"
                elif (rt == "set" and (lt in NAT_LIKE or lt in self.ms.eq_types or not self.extm)) or (rt == "natlist" and lt in NAT_LIKE):
                    t = f"PSet.has {r} {l}"
                elif lt == "str" and rt in ("strset", "strlist"):
                    t = f"List.contains {r} {l}"
                elif lt == "str" and rt == "pyset":
                    t = f"PySet.hasStr {r} {l}"
                elif lt == "str" and rt == "opt[pyset]":
                    t = f"PySet.hasStr {self.M(f'Opt.derefIn {r}')} {l}"  # `x in None` is a TypeError
                elif lt == "pyval" and rt == "dict":
                    t = f"PyDict.hasVal {r} {l}"
                elif self.key_dict(rt) is not None and self.elem_eq(lt, self.key_dict(rt)[0]):
                    t = f"KDict.has {r} {l}"
                elif split_ty(rt)[0] == "ddict" and self.extm and self.elem_eq(lt, split_ty(rt)[1][0]):
                    t = f"NDict.has {r} {l}"
                elif rt == "sref" and lt in NAT_LIKE:
                    t = f"SHeap.has {self.heap()} {r} {l}"
                elif split_ty(rt)[0] in ("eset", "list") and split_ty(rt)[1] == [lt] and self.eq_type(lt, lt):
                    t = f"decide ({l} ∈ {r})"
                else:
                    raise Unsupported(f"`in` on {rt}")
                return (f"!({t})" if isinstance(op, ast.NotIn) else f"({t})"), "bool"
            if isinstance(op, (ast.Eq, ast.NotEq)):
                if lt == "set" and rt == "set":
                    t = f"PSet.eq {l} {r}"
                elif (lt == rt and lt in ("nat", "bool", "str", "uuid", "sid")) or ({lt, rt} == {"nat", "uuid"}):
                    t = f"{l} == {r}"
                elif lt == rt == "pyval":
                    t = f"PyVal.pyEq {l} {r}"
                elif lt == rt == "dict":
                    t = f"PyVal.pyEq (.dict {l}) (.dict {r})"
                elif self.eq_type(lt, rt):
                    t = f"{l} == {r}"
                else:
                    raise Unsupported(f"== between {lt} and {rt}")
                return (f"!({t})" if isinstance(op, ast.NotEq) else f"({t})"), "bool"
            sym = {ast.Lt: "<", ast.LtE: "≤", ast.Gt: ">", ast.GtE: "≥"}.get(type(op))
            if sym and lt == "nat" and rt == "nat":
                return f"decide ({l} {sym} {r})", "bool"
            raise Unsupported(f"comparison {ast.dump(op)} between {lt} and {rt}")
        if isinstance(e, ast.Subscript):
            d, dty = self.expr(e.value, pre)
            dh, da = split_ty(dty)
            if dh == "tuple" and isinstance(e.slice, ast.Constant) and isinstance(e.slice.value, int) and not isinstance(e.slice.value, bool) and 0 <= e.slice.value < len(da):
                return f"{d}{tuple_proj(len(da), e.slice.value)}", da[e.slice.value]
            if dh == "opt" and split_ty(da[0])[0] == "tuple" and isinstance(e.slice, ast.Constant) and isinstance(e.slice.value, int) and self.extm:
                ia = split_ty(da[0])[1]
                if 0 <= e.slice.value < len(ia):
                    return f"{self.M(f'Opt.derefSub {d}')}{tuple_proj(len(ia), e.slice.value)}", ia[e.slice.value]  # `None[i]` is a TypeError
            k, kty = self.expr(e.slice, pre)
            if dh == "kdict" and self.elem_eq(kty, da[0]):
                return self.M(f"KDict.getItem {d} {k}"), da[1]
            if dh == "kddict" and self.elem_eq(kty, da[0]) and da[1] == "sref":
                # the READ of a `defaultdict(set)`: a missing key is inserted with a new empty set object
                v, rest, hp = self.fresh("ref"), self.fresh("d"), self.fresh("sheap")
                pre.append(f"let ({v}, {rest}, {hp}) := KDict.read {d} {k} {self.heap(True)}")
                pre.extend(self.assign_to(e.value, rest))
                pre.append(f"sheap := {hp}")
                return v, "sref"
            if dh == "kddict" and self.elem_eq(kty, da[0]) and (da[1] == "set" or split_ty(da[1])[0] == "eset"):
                # the READ of a `defaultdict(set)` whose sets are values: a missing key is inserted with the empty set
                v, rest = self.fresh("v"), self.fresh("d")
                pre.append(f"let ({v}, {rest}) := KDict.readD {d} {k} []")
                pre.extend(self.assign_to(e.value, rest))
                return v, da[1]
            if dh == "ddict" and (kty == da[0] or {kty, da[0]} == {"nat", "uuid"}):
                # a defaultdict READ: the value, and the key is inserted (with the default) when it is missing
                v, rest = self.fresh("v"), self.fresh("d")
                pre.append(f"let ({v}, {rest}) := {'IDict' if da[1] == 'nat' else 'DDict'}.read {d} {k}")
                pre.extend(self.assign_to(e.value, rest))
                return v, da[1]
            if dty == "dict" and kty == "str":
                return self.M(f"{self.rt('PyDict.getItem')} {d} {k}"), "pyval"
            if dh == "dict" and da and (kty == da[0] or {kty, da[0]} == {"nat", "uuid"}):
                return self.M(f"NDict.getItem {d} {k}"), da[1]
            raise Unsupported(f"subscript of {dty} by {kty}")
        if isinstance(e, ast.BinOp) and isinstance(e.op, ast.Add):
            l, lt = self.expr(e.left, pre)
            r, rt = self.expr(e.right, pre)
            if lt == rt and lt in ("items", "strlist", "natlist"):
                return f"({l} ++ {r})", lt
            if lt == rt == "nat":
                return f"({l} + {r})", "nat"
            raise Unsupported(f"+ between {lt} and {rt}")
        if isinstance(e, ast.Call):
            return self.call(e, pre)
        raise Unsupported(f"expression {type(e).__name__}: {ast.unparse(e)}")

    def has_refs(self, ty: str) -> bool:
        return "sref" in ty

    def key_dict(self, ty: str) -> Optional[Tuple[str, str]]:
        """`kdict[K,V]` / `kddict[K,V]`: an insertion-ordered dict with keys of any type with decidable equality -> (K, V)"""
        h, a = split_ty(ty)
        return (a[0], a[1]) if h in ("kdict", "kddict") and len(a) == 2 else None

    def eq_type(self, lt: str, rt: str) -> bool:
        """Python `==` between these two types is structural equality of the Lean values"""
        if lt != rt:
            return {lt, rt} <= {"nat", "uuid"}
        h, a = split_ty(lt)
        if h == "tuple":
            return all(self.eq_type(x, x) for x in a)
        return lt in NAT_LIKE or lt in self.ms.eq_types

    def empty_literal(self, e: ast.expr) -> Tuple[str, ...]:
        """`{}` / `frozenset()` / `set()`: the container types the literal can stand for (empty tuple: not such a literal)"""
        if isinstance(e, ast.Dict) and not e.keys:
            return ("dict",)
        if isinstance(e, ast.Call) and dotted(e.func) in ("frozenset", "set") and not e.args and not e.keywords:
            return ("strset", "pyset")
        return ()

    def expr_for(self, e: ast.expr, pre: List[str], want: Optional[str]) -> Tuple[str, str]:
        """`expr`, for a value that is stored into a slot of the declared type `want`: an empty container literal gets that type"""
        if want is not None:
            w = split_ty(want)[1][0] if split_ty(want)[0] == "opt" else want
            lits = self.empty_literal(e)
            if isinstance(e, ast.Call) and dotted(e.func) == "OrderedDict" and not e.args and not e.keywords:
                lits = ("kdict",)
            if isinstance(e, ast.List) and not e.elts:
                lits = ("list", "natlist", "qitems")
            if lits and (w in lits or split_ty(w)[0] in lits or ((w == "set" or split_ty(w)[0] == "eset") and "strset" in lits) or (split_ty(w)[0] in ("kdict", "kddict") and "dict" in lits)):
                return "[]", w
        return self.expr(e, pre)

    def fstring_text(self, e: ast.JoinedStr) -> str:
        """what stands for the text of an f-string: a fixed token, or (ModuleSpec.fstring_text) its constant parts with `{}` holes"""
        if not self.ms.fstring_text:
            return "<f-string>"
        out = "".join(str(p.value) if isinstance(p, ast.Constant) else "{}" for p in e.values)
        return out.replace("\\", "\\\\").replace('"', "'")

    def call(self, e: ast.Call, pre: List[str]) -> Tuple[str, str]:
        d = dotted(e.func)
        if e.keywords and not (d and (d.startswith("self.") and d[5:] in self.mod.translated or d in self.mod.translated)) and d not in self.ms.opaque and d not in self.ms.methods and d not in self.ms.extern:
            raise Unsupported(f"keyword arguments in {ast.unparse(e)}")
        if d in self.ms.methods:
            return self.call_method(d, e, pre)
        if d in self.ms.extern:
            x = self.ms.extern[d]
            recv_ast = ast.parse(x.recv, mode="eval").body if x.recv else e.func.value  # type: ignore[attr-defined]
            return self.call_translated(self.callee_of(d), e, pre, recv_ast=recv_ast, qual=x.mod.namespace + ".")  # type: ignore[arg-type]
        if self.spec.recursive and d in (f"self.{self.spec.py_name}", self.spec.py_name) and self.callee_of(d) is None:
            return self.call_translated(self, e, pre, rec=True)
        if d == "set" and not e.args:
            if self.ms.set_refs:
                return self.new_set("[]", pre), "sref"
            return "[]", "set"
        if d == "set" and len(e.args) == 1 and not e.keywords:
            t, ty = self.expr(e.args[0], pre)
            if ty == "strlist":
                return f"(List.eraseDups {t})", "strset"  # `set(d.keys())`
            raise Unsupported(f"set() of {ty}")
        if d == "copy" and len(e.args) == 1:
            t, ty = self.expr(e.args[0], pre)
            if ty in ("natlist", "set"):
                return t, ty  # a shallow copy of a list / set of ids is the same value
            raise Unsupported(f"copy() of {ty}")
        if isinstance(e.func, ast.Attribute) and e.func.attr == "union" and len(e.args) == 1 and d not in self.ms.methods:
            a, aty = self.expr(e.func.value, pre)
            b, bty = self.expr(e.args[0], pre)
            if aty == "set" and bty == "set":
                return f"(PSet.union {a} {b})", "set"
            raise Unsupported(f"union on {aty},{bty}")
        if isinstance(e.func, ast.Attribute) and e.func.attr == "copy" and not e.args and d not in self.ms.methods:
            a, aty = self.expr(e.func.value, pre)
            if split_ty(aty)[0] in ("dict", "ddict") or aty in ("set", "natlist"):
                if self.has_refs(aty):
                    raise Unsupported(f"copy() of {aty}: its values are references")
                return a, aty  # dicts / sets / lists of ids are values: a shallow copy is the same value
            raise Unsupported(f"copy() of {aty}")

        if d in ("all", "any") and len(e.args) == 1 and isinstance(e.args[0], ast.GeneratorExp):
            g = e.args[0]
            if len(g.generators) != 1 or g.generators[0].ifs or not isinstance(g.generators[0].target, ast.Name):
                raise Unsupported("generator with several clauses / conditions")
            it, ity = self.expr(g.generators[0].iter, pre)
            if ity != "set":
                raise Unsupported(f"{d}() over {ity}")
            v = g.generators[0].target.id
            saved = self.env.get(v)
            self.env[v] = "nat"
            inner: List[str] = []
            body, bty = self.expr(g.elt, inner)
            if inner:
                raise Unsupported("effectful call inside a generator expression")
            if saved is None:
                del self.env[v]
            else:
                self.env[v] = saved
            return f"(py{d.capitalize()} {it} (fun {lname(v)} => {self.truthy(body, bty)}))", "bool"
        if d == "next" and len(e.args) == 1 and isinstance(e.args[0], ast.Call) and dotted(e.args[0].func) == "iter" and len(e.args[0].args) == 1:
            s, sty = self.expr(e.args[0].args[0], pre)
            if sty != "set":
                raise Unsupported(f"next(iter()) over {sty}")
            return self.M(f"PSet.nextIter {s}"), "nat"
        if d == "len" and len(e.args) == 1:
            s, sty = self.expr(e.args[0], pre)
            if sty == "sref":
                return f"(SHeap.len {self.heap()} {s})", "nat"
            if split_ty(sty)[0] in ("kdict", "kddict", "kitems", "list", "eset"):
                return f"({s}).length", "nat"
            if sty not in ("set", "natlist"):
                raise Unsupported(f"len() of {sty}")
            return f"{s}.length", "nat"
        if d == "max" and len(e.args) == 1 and not e.keywords:
            s, sty = self.expr(e.args[0], pre)
            if sty == "natlist" or sty == "list[nat]":
                return self.M(f"PyList.max {s}"), "nat"  # ValueError on an empty sequence
            raise Unsupported(f"max() of {sty}")
        if d == "deepcopy" and len(e.args) == 1 and not e.keywords:
            s, sty = self.expr(e.args[0], pre)
            kd = self.key_dict(sty)
            if kd is not None and kd[1] == "sref":
                return f"(KDict.snapshot {s} {self.heap()})", f"kdict[{kd[0]},set]"  # the contents at this moment, as values
            if sty in ("set", "natlist"):
                return s, sty
            raise Unsupported(f"deepcopy() of {sty}")
        if d == "OrderedDict" and len(e.args) == 1 and not e.keywords:
            s, sty = self.expr(e.args[0], pre)
            if split_ty(sty)[0] == "kitems":
                return f"(KDict.ofItems {s})", "kdict[" + ",".join(split_ty(sty)[1]) + "]"
            raise Unsupported(f"OrderedDict() of {sty}")
        if d == "isinstance" and len(e.args) == 2 and isinstance(e.args[1], ast.Tuple):
            parts = []
            for cl in e.args[1].elts:
                key = (dotted(e.args[0]) or "?", dotted(cl) or ast.unparse(cl))
                if key not in self.ms.isinstance_map:
                    raise Unsupported(f"isinstance{key}")
                parts.append(self.ms.isinstance_map[key])
            return "(" + " || ".join(parts) + ")", "bool"
        if d == "isinstance" and len(e.args) == 2:
            key = (dotted(e.args[0]) or ast.unparse(e.args[0]), dotted(e.args[1]) or ast.unparse(e.args[1]))
            if key in self.ms.isinstance_map:
                return self.ms.isinstance_map[key], "bool"
            raise Unsupported(f"isinstance{key}")
        if isinstance(e.func, ast.Attribute) and e.func.attr in ("issubset", "intersection") and len(e.args) == 1:
            a, aty = self.expr(e.func.value, pre)
            b, bty = self.expr(e.args[0], pre)
            if aty != "set" or bty != "set":
                raise Unsupported(f"{e.func.attr} on {aty},{bty}")
            return (f"(PSet.issubset {a} {b})", "bool") if e.func.attr == "issubset" else (f"(PSet.intersection {a} {b})", "set")
        if d == "list" and len(e.args) == 1:
            t, ty = self.expr(e.args[0], pre)
            if split_ty(ty)[0] == "kitems":
                return t, ty  # list(view): the items in order
            if ty in ("items", "strlist", "natlist"):
                return t, ty  # list(view) of an insertion-ordered dict view is the association list itself
            raise Unsupported(f"list() of {ty}")
        if isinstance(e.func, ast.Attribute) and e.func.attr in ("items", "keys", "get", "values", "popitem") and dotted(e.func) not in self.ms.getters and dotted(e.func) not in self.ms.opaque and not (d and d.startswith("self.") and d[5:] in self.mod.translated):
            recv, rty = self.expr(e.func.value, pre)
            recv, rty = self.deref_receiver(recv, rty)
            rh, ra = split_ty(rty)
            if rh in ("kdict", "kddict") and not e.args and e.func.attr in ("items", "keys"):
                if e.func.attr == "items":
                    return recv, f"kitems[{ra[0]},{ra[1]}]"
                return f"(KDict.keys {recv})", ("natlist" if ra[0] in ("nat", "uuid") else f"list[{ra[0]}]")
            if rh == "ddict" and e.func.attr == "items" and not e.args:
                return recv, f"items[{ra[0]},{ra[1]}]"
            if rh == "ddict" and e.func.attr == "get" and len(e.args) == 1 and self.extm:
                k, kty = self.expr(e.args[0], pre)
                if self.elem_eq(kty, ra[0]):
                    return f"(NDict.get? {recv} {k})", f"opt[{ra[1]}]"  # `.get` does not insert
            if rh == "dict" and ra:
                if e.func.attr == "items" and not e.args:
                    return recv, f"items[{ra[0]},{ra[1]}]"
                if e.func.attr == "values" and not e.args and ra[1] in NAT_LIKE:
                    return f"(NDict.values {recv})", "natlist"
                if e.func.attr == "keys" and not e.args:
                    return f"(NDict.keys {recv})", "natlist"
                if e.func.attr == "popitem" and not e.args:
                    item, rest = self.fresh("item"), self.fresh("rest")
                    pre.append(f"let ({item}, {rest}) ← {self.lift(f'NDict.popitem {recv}')}")
                    pre.extend(self.assign_to(e.func.value, rest))
                    return item, f"tuple[{ra[0]},{ra[1]}]"
                if e.func.attr == "get" and len(e.args) == 2 and isinstance(e.args[1], ast.Tuple) and all(isinstance(x, ast.Constant) and x.value is None for x in e.args[1].elts):
                    # `d.get(k, (None, None, None))`: every component of the result is Optional
                    vh, va = split_ty(ra[1])
                    k, kty = self.expr(e.args[0], pre)
                    if vh == "tuple" and len(va) == len(e.args[1].elts) and (kty == ra[0] or {kty, ra[0]} == {"nat", "uuid"}):
                        somes = ", ".join(f"some v{tuple_proj(len(va), i)}" for i in range(len(va)))
                        nones = ", ".join(["none"] * len(va))
                        return f"(match NDict.get? {recv} {k} with | some v => ({somes}) | none => ({nones}))", "tuple[" + ",".join(f"opt[{a}]" for a in va) + "]"
                if e.func.attr == "get" and (len(e.args) == 1 or (len(e.args) == 2 and isinstance(e.args[1], ast.Constant) and e.args[1].value is None)):
                    k, kty = self.expr(e.args[0], pre)
                    if kty == ra[0]:
                        # absent key -> None; for `Any` values None is one of the values, otherwise the result is Optional
                        return (f"((NDict.get? {recv} {k}).getD none)", "any") if ra[1] == "any" else (f"(NDict.get? {recv} {k})", f"opt[{ra[1]}]")
                raise Unsupported(f"dict method call {ast.unparse(e)}")
            if rty == "dict":
                if e.func.attr == "items" and not e.args:
                    return recv, "items"
                if e.func.attr == "keys" and not e.args:
                    return f"(PyDict.keys {recv})", "strlist"
                if e.func.attr == "get" and len(e.args) == 2 and isinstance(e.args[1], ast.Constant) and e.args[1].value is None:
                    k, kty = self.expr(e.args[0], pre)
                    if kty == "str":
                        return f"((PyDict.get? {recv} {k}).getD PyVal.none)", "pyval"
                raise Unsupported(f"dict method call {ast.unparse(e)}")
        if d in self.ms.getters and not e.args:
            return self.ms.getters[d]
        if d and d.startswith("self.") and d[5:] in self.mod.translated:
            return self.call_translated(self.mod.translated[d[5:]], e, pre)
        if d and self.ms.cls is None and d in self.mod.translated:
            return self.call_translated(self.mod.translated[d], e, pre)
        if d and d in self.mod.translated and self.mod.translated[d].spec.nested_in == self.spec.py_name:
            return self.call_translated(self.mod.translated[d], e, pre)
        if d in self.ms.opaque:
            return self.call_opaque(d, e, pre)
        raise Unsupported(f"call {ast.unparse(e)}")

    # ---------------------------------------------------------------- exceptions that carry the state at the raise (`exc_state`)
    @property
    def extm(self) -> bool:
        return self.ms.set_refs or self.ms.ext

    @property
    def st_mode(self) -> bool:
        return self.ms.exc_state and bool(self.state_components())

    def state_components(self) -> List[Tuple[str, str]]:
        return [c for c in self.ret_components() if c[0] != "<ret>"]

    def ST(self) -> str:
        """the tuple of the function's mutable state (the names are fixed: mutated parameters are shadowed by `let mut`)"""
        parts = [lname(n) for n, _ in self.state_components()]
        return parts[0] if len(parts) == 1 else "(" + ", ".join(parts) + ")"

    def st_type(self) -> str:
        return " × ".join(t for _, t in self.state_components())

    def lift(self, txt: str) -> str:
        """a run-time primitive / a callee without state, of type `Except PyExc α`, inside a function whose exceptions carry the state"""
        return f"withSt {self.ST()} ({txt})" if self.st_mode else txt

    def M(self, txt: str) -> str:
        return f"(← {self.lift(txt)})"

    def throw(self, exc: str) -> str:
        return f"throw ({exc}, {self.ST()})" if self.st_mode else f"throw {exc}"

    def rt(self, name: str) -> str:
        return self.ms.rt_names.get(name, name)

    def fresh(self, base: str) -> str:
        self.tmp += 1
        return f"{base}_{self.tmp}"

    def call_translated(self, callee: "FnTranslator", e: ast.Call, pre: List[str], recv_ast: Optional[ast.expr] = None, qual: str = "", rec: bool = False) -> Tuple[str, str]:
        pnames = list(callee.spec.params)
        args: Dict[str, ast.expr] = {}
        for i, a in enumerate(e.args):
            if i >= len(pnames):
                raise Unsupported(f"too many arguments for {callee.spec.py_name}")
            args[pnames[i]] = a
        for kw in e.keywords:
            if kw.arg not in pnames:
                raise Unsupported(f"keyword {kw.arg} of {callee.spec.py_name}")
            args[kw.arg] = kw.value
        defaulted: Dict[str, str] = {}
        for pn in pnames:
            if pn not in args and pn in callee.spec.defaults:
                # an omitted argument: the default written in the Python signature must be the one the spec was written for
                want_src, lean_txt = callee.spec.defaults[pn]
                pos = [a.arg for a in callee.fdef.args.args]
                dflts = callee.fdef.args.defaults
                i = pos.index(pn) - (len(pos) - len(dflts))
                if i < 0 or ast.unparse(dflts[i]) != want_src:
                    raise Unsupported(f"default of {pn} in {callee.spec.py_name} is not `{want_src}`")
                defaulted[pn] = lean_txt
        if set(args) | set(defaulted) != set(pnames):
            raise Unsupported(f"call of {callee.spec.py_name} with defaulted arguments")
        texts = []
        for pn in pnames:
            if pn in defaulted:
                texts.append(defaulted[pn])
                continue
            t, ty = self.expr(args[pn], pre)
            if ty != callee.spec.params[pn]:
                c = self.coerce_arg(t, ty, callee.spec.params[pn]) if (recv_ast is not None or rec or self.ms.obj_fields) else None
                if c is None:
                    raise Unsupported(f"argument {pn} of {callee.spec.py_name}: {ty} given, {callee.spec.params[pn]} expected")
                t = c
            texts.append(f"({t})" if " " in t else t)
        call = qual + callee.lean_name()
        if callee.spec.self_type:
            if recv_ast is not None:
                rt, rty = self.expr(recv_ast, pre)
                rt, rty = self.deref_receiver(rt, rty)
                if LEAN_TY[rty].split(".")[-1] != callee.spec.self_type.split(".")[-1]:
                    raise Unsupported(f"receiver of {callee.spec.py_name}: a {rty}, {callee.spec.self_type} expected")
                call += " " + paren(rt)
            else:
                call += " self"
        call += "".join(" " + t for t in texts)
        for cv, cty in callee.spec.closure.items():
            if self.env.get(cv) != cty or cv in self.rename:
                raise Unsupported(f"closure variable {cv} of {callee.spec.py_name} is not a local of type {cty} here")
            call += " " + lname(cv)
        for av in callee.attr_params:
            if av not in self.env:
                raise Unsupported(f"callee {callee.spec.py_name} reads attribute variable {av} unknown here")
            call += " " + lname(av)
        for n_, _ in callee.spec.extra_params:
            call += " " + lname(n_)
        if rec:
            call += " fuel'"
        elif callee.needs_fuel:
            call += " fuel"
        for o in callee.oracles:
            call += " " + lname(o)
        if callee.effects:
            call += " log"
        comps = callee.ret_components()
        binders = []
        rebind: List[str] = []
        result = "()"
        for n, _ in comps:
            if n == "<ret>":
                result = self.fresh("r")
                binders.append(result)
            elif n == "self":
                b = self.fresh("self")
                binders.append(b)
                if recv_ast is not None:
                    rebind.extend(self.assign_to(recv_ast, b))
                else:
                    rebind.append(f"self := {b}")
            elif n == "log":
                b = self.fresh("log")
                binders.append(b)
                rebind.append(f"log := {b}")
            elif n in callee.attr_written:
                b = self.fresh(n)
                binders.append(b)
                rebind.append(f"{lname(n)} := {b}")
            else:
                # a mutated parameter of the callee: the caller's argument object is the same Python object
                src = args[n]
                tgt = dotted(src)
                if recv_ast is None and not rec and not self.ms.obj_fields:
                    if tgt is None or tgt not in self.env:
                        raise Unsupported(f"callee {callee.spec.py_name} mutates its argument {n}, which is not a plain local here: {ast.unparse(src)}")
                    b = self.fresh(tgt)
                    binders.append(b)
                    rebind.append(f"{lname(tgt)} := {b}")
                else:
                    b = self.fresh((tgt or n).replace(".", "_"))
                    binders.append(b)
                    rebind.extend(self.assign_to(src, b))
        callee_st = callee.st_mode
        if callee_st or self.st_mode:
            if self.try_flag is not None:
                raise Unsupported(f"call of {callee.spec.py_name} inside try/except in a module whose exceptions carry the state")
            if not callee_st:
                call = self.lift(call)  # the callee has no mutable state: the state at its raise is the caller's
            elif not self.st_mode:
                call = f"dropSt ({call})"  # nothing of what the callee mutates belongs to the caller's state
            else:
                # the callee's exception carries ITS state at the raise: what it mutated is re-bound before the exception goes on
                exc = self.fresh("exc")
                sbind = [b for b in binders if b != result]
                vb = self.fresh("v")
                pat = binders[0] if len(binders) == 1 else "(" + ", ".join(binders) + ")"
                lines = [f"let {pat} ← match {call} with", f"  | .error ({', '.join([exc] + sbind)}) =>"]
                lines += ["    " + ln_ for r in rebind for ln_ in r.split("\n")]
                lines += [f"    throw ({exc}, {self.ST()})", f"  | .ok {vb} => pure {vb}"]
                pre.append("\n".join(lines))
                pre.extend(rebind)
                return result, callee.spec.ret
        if self.try_flag is not None:
            # inside try/except Exception: an exception of the callee is caught here (effects the callee logged before raising are lost)
            if result != "()" and self.try_assign is None:
                raise Unsupported(f"value of {callee.spec.py_name} used inside try/except")
            pat = "_" if not binders else binders[0] if len(binders) == 1 else "(" + ", ".join(binders) + ")"
            if result != "()":
                rebind.append(f"{self.try_assign} := {result}")
                self.try_assign = None
                result = "<assigned>"
            arms = "\n".join("  " + r for r in rebind) or "  pure ()"
            pre.append(f"match {call} with\n| .error _ =>\n  {self.try_flag} := true\n| .ok {pat} =>\n{arms}")
            return result, callee.spec.ret
        if not binders:
            pre.append(f"{call}")
        elif len(binders) == 1:
            pre.append(f"let {binders[0]} ← {call}")
        else:
            pre.append(f"let ({', '.join(binders)}) ← {call}")
        pre.extend(rebind)
        return result, callee.spec.ret

    try_assign: Optional[str] = None  # inside try/except Exception: the local that receives the value of the call being translated

    def call_method(self, d: str, e: ast.Call, pre: List[str]) -> Tuple[str, str]:
        """a call with a fixed run-time meaning (`ModuleSpec.methods`)"""
        m = self.ms.methods[d]
        kws = {k.arg: k.value for k in e.keywords}
        if set(kws) != set(m.kwargs) or any(not (isinstance(v, ast.Constant) and v.value == m.kwargs[k] and type(v.value) is type(m.kwargs[k])) for k, v in kws.items()):
            raise Unsupported(f"keyword arguments of {ast.unparse(e)[:80]}: {m.kwargs} expected")
        call = m.lean
        recv_ast: Optional[ast.expr] = None
        if m.recv is not None:
            if not isinstance(e.func, ast.Attribute):
                raise Unsupported(f"method {d} without receiver")
            recv_ast = e.func.value
            rt, rty = self.expr(recv_ast, pre)
            rt, rty = self.deref_receiver(rt, rty)
            if rty != m.recv:
                raise Unsupported(f"receiver of {d}: a {rty}, {m.recv} expected")
            recv_txt = paren(rt)
        if len(e.args) != len(m.args):
            raise Unsupported(f"{d}: {len(e.args)} arguments, {len(m.args)} expected")
        arg_txts = []
        for a, want in zip(e.args, m.args):
            t, ty = self.expr(a, pre)
            c = self.coerce_arg(t, ty, want)
            if c is None:
                raise Unsupported(f"argument of {d}: {ty} given, {want} expected")
            arg_txts.append(paren(c))
        # world variables lead (the heap the receiver is a handle into), then receiver, arguments, oracles
        for vn, _, _ in m.world:
            call += " " + lname(vn)
        if m.recv is not None:
            call += " " + recv_txt
        call += "".join(" " + t for t in arg_txts)
        for on, _ in m.oracles:
            call += " " + lname(on)
        binders: List[str] = []
        rebind: List[str] = []
        result = "()"
        if m.ret != "unit":
            result = self.fresh("r")
            binders.append(result)
        if m.mutates_recv:
            b = self.fresh((dotted(recv_ast) or "recv").replace(".", "_"))
            binders.append(b)
            rebind.extend(self.assign_to(recv_ast, b))  # type: ignore[arg-type]
        for i in m.mutates_args:
            b = self.fresh((dotted(e.args[i]) or "arg").replace(".", "_"))
            binders.append(b)
            rebind.extend(self.assign_to(e.args[i], b))
        for vn, _, written in m.world:
            if written:
                b = self.fresh(vn)
                binders.append(b)
                rebind.append(f"{lname(vn)} := {b}")
        pat = "_" if not binders else binders[0] if len(binders) == 1 else "(" + ", ".join(binders) + ")"
        if self.try_flag is not None and m.monadic:
            if result != "()" and self.try_assign is None:
                raise Unsupported(f"value of {d} used inside try/except")
            if result != "()":
                rebind.append(f"{self.try_assign} := {result}")
                self.try_assign = None
                result = "<assigned>"
            arms = "\n".join("  " + r for r in rebind) or "  pure ()"
            pre.append(f"match {call} with\n| .error _ =>\n  {self.try_flag} := true\n| .ok {pat} =>\n{arms}")
            return result, m.ret
        if not binders:
            if m.monadic:
                pre.append(f"let _ ← {self.lift(call)}")
        else:
            pre.append(f"let {pat} {'←' if m.monadic else ':='} {self.lift(call) if m.monadic else call}")
        pre.extend(rebind)
        return result, m.ret

    def iter_of(self, it: str, ity: str) -> Tuple[str, str]:
        """what a `for` / a comprehension iterates over: (Lean list, type of the elements)"""
        if ity in ("set", "natlist"):
            return it, "nat"
        if ity == "qlist":
            return it, "queue"
        if ity == "pyval":
            return self.M(f"PyVal.iter {it}"), "pyval"  # TypeError for a value that is not iterable
        if ity == "pyset":
            return it, "pyval"
        if ity == "opt[pyset]":
            return self.M(f"Opt.derefIn {it}"), "pyval"  # `for x in None` is a TypeError
        if ity in ("strset", "strlist"):
            return it, "str"
        h, a = split_ty(ity)
        if h == "dict" and a:
            return f"(NDict.keys {it})", a[0]  # iterating a dict yields its keys in insertion order
        if h == "list" and a:
            return it, a[0]
        raise Unsupported(f"iteration over {ity}")

    def list_comp(self, e: ast.ListComp, pre: List[str]) -> Tuple[str, str]:
        """`[f(x) for x in xs if c(x)]` as the loop it abbreviates (so the condition may read a defaultdict)"""
        if len(e.generators) != 1 or not isinstance(e.generators[0].target, ast.Name) or e.generators[0].is_async or len(e.generators[0].ifs) > 1:
            raise Unsupported("list comprehension with several clauses")
        it, ity = self.expr(e.generators[0].iter, pre)
        it, ety = self.iter_of(it, ity)
        v = e.generators[0].target.id
        if v in self.env:
            raise Unsupported(f"comprehension variable {v} shadows a local")
        acc = self.fresh("comp")
        self.env[v] = ety
        lines = [f"let mut {acc} : List Nat := []", f"for {lname(v)} in {it} do"]
        inner: List[str] = []
        cond = "true"
        if e.generators[0].ifs:
            c, cty = self.expr(e.generators[0].ifs[0], inner)
            cond = self.truthy(c, cty)
        body, bty = self.expr(e.elt, inner)
        del self.env[v]
        if bty not in NAT_LIKE:
            raise Unsupported(f"list of {bty}")
        for ln_ in inner:
            lines.extend("  " + x for x in ln_.split("\n"))
        lines.append(f"  if {cond} then")
        lines.append(f"    {acc} := {acc} ++ [{body}]")
        pre.append("\n".join(lines))
        return acc, "natlist"

    def dict_comp(self, e: ast.DictComp, pre: List[str]) -> Tuple[str, str]:
        """`{k: v for k, v in d.items() if c}` over the items of a `str`-keyed dict, as the loop it abbreviates"""
        if len(e.generators) != 1 or e.generators[0].is_async or not isinstance(e.generators[0].target, ast.Tuple):
            raise Unsupported("dict comprehension with several clauses")
        g = e.generators[0]
        names = [x.id if isinstance(x, ast.Name) else None for x in g.target.elts]  # type: ignore[attr-defined]
        it, ity = self.expr(g.iter, pre)
        if ity != "items" or len(names) != 2 or None in names or names[0] == names[1] or any(n in self.env for n in names):
            raise Unsupported(f"dict comprehension over {ity}")
        acc = self.fresh("comp")
        self.env[names[0]], self.env[names[1]] = "str", "pyval"  # type: ignore[index]
        lines = [f"let mut {acc} : PyDict := []", f"for ({lname(names[0])}, {lname(names[1])}) in {it} do"]  # type: ignore[arg-type]
        inner: List[str] = []
        conds = []
        for c in g.ifs:
            ct, cty = self.expr(c, inner)
            conds.append(self.truthy(ct, cty))
        k, kty = self.expr(e.key, inner)
        v, vty = self.expr(e.value, inner)
        del self.env[names[0]], self.env[names[1]]  # type: ignore[arg-type]
        if kty != "str" or vty != "pyval":
            raise Unsupported(f"dict comprehension building {kty}: {vty}")
        for ln_ in inner:
            lines.extend("  " + x for x in ln_.split("\n"))
        lines.append(f"  if {' && '.join(conds) or 'true'} then")
        lines.append(f"    {acc} := PyDict.set {acc} {k} {v}")
        pre.append("\n".join(lines))
        return acc, "dict"

    def set_comp(self, e: ast.SetComp, pre: List[str]) -> Tuple[str, str]:
        """`{f(x) for x in xs}`: the elements in first-occurrence order"""
        if len(e.generators) != 1 or e.generators[0].ifs or not isinstance(e.generators[0].target, ast.Name) or e.generators[0].is_async:
            raise Unsupported("set comprehension with several clauses / conditions")
        it, ity = self.expr(e.generators[0].iter, pre)
        if split_ty(ity)[0] == "eset" and self.extm:
            ety = split_ty(ity)[1][0]  # the result is a SET: the order in which the records are visited only shows in the list that represents it
        else:
            it, ety = self.iter_of(it, ity)
        v = e.generators[0].target.id
        saved = self.env.get(v)
        self.env[v] = ety
        inner: List[str] = []
        body, bty = self.expr(e.elt, inner)
        if saved is None:
            del self.env[v]
        else:
            self.env[v] = saved
        if inner or "←" in body:
            raise Unsupported("effectful call inside a comprehension")
        if bty not in NAT_LIKE:
            raise Unsupported(f"set of {bty}")
        return f"(PSet.ofList (List.map (fun {lname(v)} => {body}) {it}))", "set"

    def call_opaque(self, d: str, e: ast.Call, pre: List[str]) -> Tuple[str, str]:
        o = self.ms.opaque[d]
        ev = f'log := log ++ ["{o.event}"]'
        if o.raise_arg is not None:
            arg0 = e.func.value if o.raise_arg == -1 else e.args[o.raise_arg]  # type: ignore[attr-defined]
            t0, _ = self.expr(arg0, pre)
            ev = f'log := log ++ ["{o.event}:" ++ toString {t0}]'
        if o.may_raise and self.try_flag is None:
            # outside any try of this function: the exception leaves the function (the caller may catch it)
            if o.raise_arg is not None:
                raise Unsupported(f"{d}: per-object raise oracle outside try/except")
            pre.append(f'if {lname(o.may_raise)} then\n  {self.throw(f"(.exception {chr(34)}{o.event} raised{chr(34)})")}\nelse\n  {ev}')
        elif o.may_raise:
            if o.raise_arg is not None:
                arg = e.func.value if o.raise_arg == -1 else e.args[o.raise_arg]  # type: ignore[attr-defined]
                t, ty = self.expr(arg, pre)
                if ty != "nat":
                    raise Unsupported(f"raise oracle argument of type {ty}")
                cond = f"{lname(o.may_raise)} {t}"
            else:
                cond = lname(o.may_raise)
            pre.append(f"if {cond} then\n  {self.try_flag} := true\nelse\n  {ev}")
        else:
            pre.append(ev)
        if o.returns in ("obj", "unit"):
            return "()", o.returns
        if o.returns == "str" and not o.oracle:
            return '"<str>"', "str"
        if o.returns:
            return lname(o.oracle or "oracle"), o.returns
        return "()", "unit"

    # ---------------------------------------------------------------- statements
    def emit(self, ind: int, text: str) -> None:
        for ln in text.split("\n"):
            self.lines.append("  " * ind + ln)

    def flush(self, ind: int, pre: List[str]) -> None:
        for p in pre:
            self.emit(ind, p)
        pre.clear()

    def block(self, stmts: List[ast.stmt], ind: int) -> None:
        # a local first assigned inside a nested block is a Lean `let mut` scoped to that block: it is forgotten afterwards,
        # so a later use outside the block (legal in Python) is reported as an unknown name instead of being mistranslated
        env0, declared0, fresh0 = dict(self.env), set(self.declared), set(self.fresh_objs)
        try:
            self._block(stmts, ind)
        finally:
            self.fresh_objs = fresh0
            if ind > 1:
                self.env = {k: v for k, v in self.env.items() if k in env0}
                self.declared = {k for k in self.declared if k in declared0}

    def exits(self, ss: List[ast.stmt]) -> bool:
        """the statements never fall through to what follows them"""
        if not ss:
            return False
        l = ss[-1]
        if isinstance(l, (ast.Return, ast.Raise, ast.Continue, ast.Break)):
            return True
        if isinstance(l, ast.If):
            return self.exits(l.body) and self.exits(l.orelse)
        return False

    def narrow_test(self, test: ast.expr) -> Optional[Tuple[str, str, str]]:
        """`x is None` / `x is not None` / `x` for a local `x` of an Optional type: (x, "none" | "some" | "truthy", inner type)"""
        if not self.ms.narrow:
            return None
        kind = "truthy"
        e = test
        if isinstance(e, ast.Compare) and len(e.ops) == 1 and isinstance(e.ops[0], (ast.Is, ast.IsNot)) and isinstance(e.comparators[0], ast.Constant) and e.comparators[0].value is None:
            kind = "none" if isinstance(e.ops[0], ast.Is) else "some"
            e = e.left
        if not isinstance(e, ast.Name) or e.id not in self.env or e.id in self.rename or e.id in self.spec.params and e.id in self.mutated:
            return None
        h, a = split_ty(self.env[e.id])
        if h != "opt":
            return None
        return e.id, kind, a[0]

    def narrowed(self, n: str, inner: str, body: Callable[[], None]) -> None:
        """run `body` with the local `n : opt[inner]` known to be `some`: inside, `n` is the (immutable) content"""
        saved_ty = self.env[n]
        self.env[n] = inner
        try:
            body()
        finally:
            self.env[n] = saved_ty
            del self.rename[n]

    def typed_try(self, s: ast.stmt) -> Optional[Tuple[str, ast.Assign, Method]]:
        """`try: x = q.get(block=False); … except queue.Empty: …` - the handler's exception is the `none` of the FIRST statement's Method"""
        if not isinstance(s, ast.Try) or len(s.handlers) != 1 or s.handlers[0].type is None or dotted(s.handlers[0].type) not in self.ms.exc_types:
            return None
        tag = self.ms.exc_types[dotted(s.handlers[0].type)]  # type: ignore[index]
        if s.finalbody or s.orelse or s.handlers[0].name or not s.body:
            raise Unsupported("try/except <type> with finally / else / `as`")
        first = s.body[0]
        if not (isinstance(first, ast.Assign) and len(first.targets) == 1 and isinstance(first.targets[0], ast.Name) and isinstance(first.value, ast.Call) and dotted(first.value.func) in self.ms.methods):
            raise Unsupported(f"try/except {tag}: the first statement must be `x = <call that can raise it>`")
        m = self.ms.methods[dotted(first.value.func)]  # type: ignore[index]
        if m.none_is != tag:
            raise Unsupported(f"try/except {tag}: {dotted(first.value.func)} does not raise it")
        # nothing else in the body may raise the caught exception (state changed before such a raise would be lost)
        for node in ast.walk(ast.Module(body=s.body[1:], type_ignores=[])):
            if isinstance(node, ast.Call):
                dn = dotted(node.func)
                if (dn in self.ms.methods and self.ms.methods[dn].none_is == tag) or self.callee_of(dn) is not None or (dn in self.ms.opaque and self.ms.opaque[dn].may_raise):
                    raise Unsupported(f"try/except {tag}: a later statement of the body may raise too: {dn}")
            if isinstance(node, (ast.Try, ast.Raise)):
                raise Unsupported(f"try/except {tag}: nested try / raise")
        return tag, first, m

    def _block(self, stmts: List[ast.stmt], ind: int) -> None:
        if not stmts:
            self.emit(ind, "pure ()")
        for i, s in enumerate(stmts):
            tt = self.typed_try(s) if isinstance(s, ast.Try) else None
            if tt is not None:
                # the rest of the block goes into the `some` arm when the handler always leaves (continue / return / raise)
                assert isinstance(s, ast.Try)
                rest = stmts[i + 1 :] if self.exits(s.handlers[0].body) else []
                self.stmt_typed_try(s, tt, rest, ind)
                if rest or self.exits(s.handlers[0].body):
                    return
                continue
            nt = self.narrow_test(s.test) if isinstance(s, ast.If) and not s.orelse else None
            if nt is not None and nt[1] == "none" and self.exits(s.body) and not (self.try_flag is not None and self._in_try_body):
                # `if x is None: raise …` - everything after it sees `x` narrowed
                assert isinstance(s, ast.If)
                n, _, inner = nt
                b = self.fresh(n)
                self.emit(ind, f"match {self.ln(n)} with")
                self.emit(ind, "| none =>")
                self.block(s.body, ind + 1)
                self.emit(ind, f"| some {b} =>")
                self.rename[n] = b
                self.narrowed(n, inner, lambda: self.block(stmts[i + 1 :], ind + 1))
                return
            if self.try_flag is not None and self._in_try_body:
                # statements after a raising call inside try are skipped
                self.emit(ind, f"if !{self.try_flag} then")
                self.stmt(s, ind + 1)
            else:
                self.stmt(s, ind)

    _in_try_body = False

    def set_mut(self, tgt: ast.expr, new_value: Callable[[str], str], ind: int) -> None:
        d = dotted(tgt)
        if d in self.env and self.env[d] == "set":
            self.emit(ind, f"{lname(d)} := {new_value(lname(d))}")
        elif self.sfield(d) is not None and self.sfield(d)[1] == "set":  # type: ignore[index]
            self.emit(ind, self.sfield_set(d, new_value(self.sfield(d)[0])))  # type: ignore[index,arg-type]
        else:
            raise Unsupported(f"mutation of {ast.unparse(tgt)}")

    def static_type(self, e: ast.expr) -> Optional[str]:
        """type of a name / a field of self / an attribute of an object, without translating it"""
        d = dotted(e)
        if isinstance(e, ast.Name):
            return self.env.get(e.id)
        sf = self.sfield(d)
        if sf is not None:
            return sf[1]
        if isinstance(e, ast.Attribute):
            vt = self.static_type(e.value)
            return self.ms.obj_fields.get(vt or "", {}).get(e.attr)
        return None

    def value_method(self, c: ast.Call, ind: int) -> bool:
        """a statement `x.m(args)` on a container that is a VALUE of the newer types (a set of arbitrary hashable values, a `str`-keyed
        dict, a set / list of records): the container is replaced by the new value.  False: not such a call"""
        assert isinstance(c.func, ast.Attribute)
        m, recv = c.func.attr, c.func.value
        rty = self.static_type(recv)
        if rty is None or c.keywords:
            return False
        pre: List[str] = []
        inner = split_ty(rty)[1][0] if split_ty(rty)[0] == "opt" else rty
        if inner == "pyset" and m in ("add", "update") and len(c.args) == 1:
            if isinstance(recv, ast.Name) and recv.id in self.spec.params and recv.id not in self.fresh_objs:
                raise Unsupported(f"{ast.unparse(c)[:60]}: mutation of the caller's set object (the parameter was not re-assigned a fresh set in this block)")
            cur, _ = self.expr(recv, pre)
            if inner != rty:
                cur = self.M(f"Opt.deref {cur}")  # `None.add` is an AttributeError
            a, aty = self.expr(c.args[0], pre)
            if m == "add" and aty == "str":
                a, aty = f"(PyVal.str {a})", "pyval"
            if aty != "pyval":
                raise Unsupported(f"{m}({aty}) on a set of values")
            new = self.M(f"{'PySet.add' if m == 'add' else 'PySet.update'} {cur} {a}")  # TypeError: unhashable element / not iterable
            self.flush(ind, pre)
            for ln_ in self.assign_to(recv, new if inner == rty else f"some {new}"):
                self.emit(ind, ln_)
            return True
        if rty == "dict" and m == "update" and len(c.args) == 1:
            cur, _ = self.expr(recv, pre)
            a, aty = self.expr(c.args[0], pre)
            if aty != "dict":
                raise Unsupported(f"dict.update({aty})")
            self.flush(ind, pre)
            for ln_ in self.assign_to(recv, f"PyDict.update {cur} {a}"):
                self.emit(ind, ln_)
            return True
        return self.value_method2(c, ind, rty)


    # ---------------------------------------------------------------- shared set objects, dicts with arbitrary keys (`set_refs`)
    def heap(self, write: bool = False) -> str:
        """the world variable `sheap` is used here"""
        if not self.ms.set_refs:
            raise Unsupported("a set object used as a reference in a module without `set_refs`")
        self.heap_read = True
        self.heap_written = self.heap_written or write
        if "sheap" not in self.env:
            raise Unsupported("internal: the heap of set objects is not a parameter here (first pass missing)")
        return "sheap"

    def new_set(self, content: str, pre: List[str]) -> str:
        """`set()` / `{x}`: a new set object; the handle"""
        r, h = self.fresh("ref"), self.fresh("sheap")
        pre.append(f"let ({r}, {h}) := SHeap.alloc {self.heap(True)} {content}")
        pre.append(f"sheap := {h}")
        return r

    def elem_eq(self, kty: str, want: str) -> bool:
        return kty == want or {kty, want} <= {"nat", "uuid"}

    def iter_elems(self, it_ast: ast.expr, pre: List[str]) -> Tuple[str, str]:
        """what a `for` iterates over: (Lean list, type of the elements)"""
        if isinstance(it_ast, ast.Call) and dotted(it_ast.func) == "enumerate" and len(it_ast.args) == 1 and not it_ast.keywords:
            inner, ety = self.iter_elems(it_ast.args[0], pre)
            return f"(PyList.enumerate {inner})", f"tuple[nat,{ety}]"
        if isinstance(it_ast, ast.Call) and dotted(it_ast.func) == "range" and len(it_ast.args) in (1, 2) and not it_ast.keywords:
            ts = [self.expr(a, pre) for a in it_ast.args]
            if any(ty != "nat" for _, ty in ts):
                raise Unsupported(f"range over {[ty for _, ty in ts]}")
            return (f"(List.range {paren(ts[0][0])})" if len(ts) == 1 else f"(PyList.range {paren(ts[0][0])} {paren(ts[1][0])})"), "nat"
        it, ity = self.expr(it_ast, pre)
        if ity == "sref":
            return f"(SHeap.get {self.heap()} {it})", "uuid"
        h, a = split_ty(ity)
        if h in ("items", "kitems") and len(a) == 2:
            return it, f"tuple[{a[0]},{a[1]}]"
        if h in ("kdict", "kddict"):
            return f"(KDict.keys {it})", a[0]
        if h == "list" and a:
            return it, a[0]
        if h == "eset":
            raise Unsupported(f"iteration over a set of {a[0]}: its order is observable and must be an explicit input (`iter_map`)")
        return self.iter_of(it, ity)

    def bind_target(self, tgt: ast.expr, ty: str, names: List[str]) -> str:
        """the Lean pattern of a `for` target; the names it binds get their types"""
        if isinstance(tgt, ast.Name):
            if tgt.id == "_":
                return "_"
            if tgt.id in self.rename:
                raise Unsupported(f"loop variable {tgt.id} is flow-narrowed here")
            if tgt.id in names:
                raise Unsupported(f"loop variable {tgt.id} bound twice")
            if tgt.id in self.declared and self.env.get(tgt.id) != ty and tgt.id not in [n for _, ns in self.loop_stack for n in ns]:
                raise Unsupported(f"loop variable {tgt.id} changes type {self.env[tgt.id]} -> {ty}")
            self.env[tgt.id] = ty
            self.declared.add(tgt.id)
            names.append(tgt.id)
            return lname(tgt.id)
        if isinstance(tgt, ast.Tuple):
            h, a = split_ty(ty)
            if h != "tuple" or len(a) != len(tgt.elts):
                raise Unsupported(f"for target {ast.unparse(tgt)} over elements of type {ty}")
            return "(" + ", ".join(self.bind_target(x, t, names) for x, t in zip(tgt.elts, a)) + ")"
        raise Unsupported(f"for target {ast.unparse(tgt)}")

    def stmt_for_general(self, s: ast.For, ind: int) -> None:
        pre: List[str] = []
        if s.orelse:
            raise Unsupported("for/else")
        header = f"for {ast.unparse(s.target)} in {ast.unparse(s.iter)}"
        if header in self.ms.iter_map:
            it, ety = self.ms.iter_map[header]
        else:
            it, ety = self.iter_elems(s.iter, pre)
        self.flush(ind, pre)
        self.check_loop_mutation(s)
        w0 = self.heap_written
        self.heap_written = False
        names: List[str] = []
        # a name bound by an enclosing loop and re-bound here: Python overwrites the variable, Lean shadows it - the enclosing
        # body must not read it after this loop
        pat = self.bind_target(s.target, ety, names)
        for outer, onames in self.loop_stack:
            for n in names:
                if n in onames:
                    for node in ast.walk(outer):
                        if isinstance(node, ast.Name) and node.id == n and isinstance(node.ctx, ast.Load) and node.lineno > (s.end_lineno or s.lineno):
                            raise Unsupported(f"the loop variable {n} of an enclosing loop is re-bound by an inner loop and read afterwards")
        objloop = isinstance(s.iter, ast.Name) and isinstance(s.target, ast.Name) and self.is_objty(ety) and self.obj_loop_mutates(s)
        if objloop:
            # the objects of the list are VALUES here: the loop rebuilds the list from the (possibly changed) objects.
            # ASSUMED: the objects are reachable only through this list.
            for node in ast.walk(ast.Module(body=s.body, type_ignores=[])):
                if isinstance(node, (ast.Continue, ast.Break, ast.Return)):
                    raise Unsupported(f"{header}: continue / break / return in a loop that changes the objects of the list it iterates")
            acc = self.fresh("objs")
            self.emit(ind, f"let mut {acc} : List {paren(LEAN_TY[ety])} := []")
        self.emit(ind, f"for {pat} in {it} do")
        if objloop:
            self.emit(ind + 1, f"let mut {pat} := {pat}")
            self.obj_loop_vars.add(names[0])
        else:
            self.loop_var_shadows(s, names, ind + 1)
        self._loop_depth += 1
        self.while_flags.append(None)
        self.loop_stack.append((s, set(names)))
        self.block(s.body, ind + 1)
        self.loop_stack.pop()
        self.while_flags.pop()
        self._loop_depth -= 1
        if objloop:
            self.obj_loop_vars.discard(names[0])
            self.emit(ind + 1, f"{acc} := {acc} ++ [{pat}]")
            for ln_ in self.assign_to(s.iter, acc):
                self.emit(ind, ln_)
        if self.heap_written and "SHeap.get" in it:
            raise Unsupported(f"{header}: the body changes set objects while a set object is iterated")
        self.heap_written = self.heap_written or w0

    def definite(self, ss: List[ast.stmt]) -> Optional[set]:
        """names certainly assigned (plain `n = …`) when control falls through the statements; None: it never falls through"""
        out: set = set()
        for st in ss:
            if isinstance(st, (ast.Return, ast.Raise, ast.Continue, ast.Break)):
                return None
            if isinstance(st, ast.Assign) and len(st.targets) == 1 and isinstance(st.targets[0], ast.Name):
                out.add(st.targets[0].id)
            if isinstance(st, ast.If):
                b, o = self.definite(st.body), self.definite(st.orelse)
                if b is None and o is None:
                    return None
                out |= o if b is None else b if o is None else (b & o)  # type: ignore[operator]
        return out

    def hoist_branch_locals(self, s: ast.If, ind: int) -> None:
        """locals first assigned in EVERY branch of an `if` that falls through, and used afterwards: Lean scopes a `let mut` to its
        block, so they are declared before the `if` (the initial value is never read: every path assigns first)"""
        if not self.ms.local_decl or not s.orelse:
            return
        d = self.definite([s])
        for n in sorted(d or ()):
            if n in self.declared or n not in self.spec.local_types:
                continue
            ty = self.spec.local_types[n]
            for br in (s.body, s.orelse):
                # inside a branch nothing may read the name before the assignment
                for st in br:
                    if isinstance(st, ast.Assign) and len(st.targets) == 1 and isinstance(st.targets[0], ast.Name) and st.targets[0].id == n:
                        break
                    if any(isinstance(x, ast.Name) and x.id == n for x in ast.walk(st)) and not isinstance(st, ast.If):
                        raise Unsupported(f"{n} may be read before it is assigned")
            self.env[n] = ty
            self.declared.add(n)
            init = "0" if ty in NAT_LIKE else "none" if split_ty(ty)[0] == "opt" else "[]" if split_ty(ty)[0] in ("list", "eset", "kdict", "kddict") or ty in ("set", "natlist") else "default"
            self.emit(ind, f"let mut {lname(n)} : {LEAN_TY[ty]} := {init}  -- assigned on every path below before it is read")

    def narrowed_mut(self, n: str, inner: str, b: str, ind: int, body: Callable[[], None]) -> None:
        """run `body` with the Optional local `n` known to be `some b`: inside, `n` is the MUTABLE local `b'` (an assignment to `n`
        also updates the Optional variable, so the value is right after the arm)"""
        bm = b + "'"
        self.emit(ind, f"let mut {bm} : {LEAN_TY[inner]} := {b}")
        saved_ty = self.env[n]
        self.env[n] = inner
        self.rename[n] = bm
        self.narrow_mut.add(n)
        try:
            body()
        finally:
            self.env[n] = saved_ty
            del self.rename[n]
            self.narrow_mut.discard(n)

    def value_method2(self, c: ast.Call, ind: int, rty: str) -> bool:
        assert isinstance(c.func, ast.Attribute)
        m, recv = c.func.attr, c.func.value
        pre: List[str] = []
        h, a = split_ty(rty)
        if rty == "sref" and m in ("add", "remove") and len(c.args) == 1:
            r, _ = self.expr(recv, pre)
            x, xty = self.expr(c.args[0], pre)
            if xty not in NAT_LIKE:
                raise Unsupported(f"{m}({xty}) on a set object")
            self.flush(ind, pre)
            self.emit(ind, f"sheap := SHeap.add {self.heap(True)} {r} {x}" if m == "add" else f"sheap := {self.M(f'SHeap.remove {self.heap(True)} {r} {x}')}")
            return True
        if rty == "set" and m == "update" and len(c.args) == 1 and isinstance(recv, ast.Attribute) and isinstance(recv.value, ast.Name) and recv.value.id in self.obj_loop_vars:
            cur, _ = self.expr(recv, pre)
            x, xty = self.expr(c.args[0], pre)
            if xty != "set":
                raise Unsupported(f"update({xty}) on a set")
            self.flush(ind, pre)
            for ln_ in self.assign_to(recv, f"PSet.update {cur} {x}"):
                self.emit(ind, ln_)
            return True
        if (h in ("list", "eset") or rty == "qitems") and m in ("append", "add") and len(c.args) == 1 and (m == "append") == (h == "list" or rty == "qitems"):
            cur, _ = self.expr(recv, pre)
            x, xty = self.expr(c.args[0], pre)
            want = a[0] if a else rty
            cx = self.coerce(x, xty, want)
            if rty == "qitems":
                cx = self.ms.list_coerce.get(("qitems", xty), "{}").format(x) if ("qitems", xty) in self.ms.list_coerce else None
            if cx is None:
                raise Unsupported(f"{m}({xty}) on {rty}")
            self.flush(ind, pre)
            new = f"{cur} ++ [{cx}]" if m == "append" else f"PyList.addE {cur} {paren(cx)}"
            for ln_ in self.assign_to(recv, new):
                self.emit(ind, ln_)
            return True
        if h == "kitems" and m == "insert" and len(c.args) == 2:
            cur, _ = self.expr(recv, pre)
            pos, pty = self.expr(c.args[0], pre)
            x, xty = self.expr(c.args[1], pre)
            if pty != "nat" or xty != f"tuple[{a[0]},{a[1]}]":
                raise Unsupported(f"insert({pty}, {xty}) on {rty}")
            self.flush(ind, pre)
            for ln_ in self.assign_to(recv, f"PyList.insert {cur} {paren(pos)} {x}"):
                self.emit(ind, ln_)
            return True
        if h == "kdict" and m == "move_to_end" and len(c.args) == 1:
            cur, _ = self.expr(recv, pre)
            k, kty = self.expr(c.args[0], pre)
            if not self.elem_eq(kty, a[0]):
                raise Unsupported(f"move_to_end({kty}) on {rty}")
            self.flush(ind, pre)
            for ln_ in self.assign_to(recv, self.M(f"KDict.moveToEnd {cur} {k}")):
                self.emit(ind, ln_)
            return True
        return False

    def check_loop_mutation(self, loop: ast.For) -> Optional[str]:
        """Python raises RuntimeError when a dict / set changes size while it is iterated; the translation evaluates the
        iterable once - so a body that may change the iterated container is refused"""
        it = loop.iter
        if isinstance(it, ast.Call) and isinstance(it.func, ast.Attribute) and it.func.attr in ("items", "keys", "values") and not it.args:
            it = it.func.value
        d = dotted(it)
        if d is None:
            return None
        if self.sfield(d) is None and not (d in self.env and split_ty(self.env[d])[0] in ("dict", "ddict")):
            return None
        grows = False  # the body may insert keys by READING the iterated defaultdict: Python raises at the next step of the `for`
        for node in ast.walk(ast.Module(body=loop.body, type_ignores=[])):
            if isinstance(node, ast.Subscript) and isinstance(node.ctx, ast.Load) and dotted(node.value) == d:
                ty_d = self.sfield(d)[1] if self.sfield(d) else self.env[d]  # type: ignore[index]
                if split_ty(ty_d)[0] == "ddict":
                    grows = True
            tgts: List[ast.expr] = []
            if isinstance(node, ast.Assign):
                tgts = [t.value for t in node.targets if isinstance(t, ast.Subscript)]
            if isinstance(node, ast.Delete):
                tgts = [t.value for t in node.targets if isinstance(t, ast.Subscript)]
            if isinstance(node, ast.Call) and isinstance(node.func, ast.Attribute) and node.func.attr in SET_MUTATORS | {"popitem", "pop", "setdefault"}:
                tgts = [node.func.value]
            if any(dotted(t) == d for t in tgts):
                raise Unsupported(f"the loop body changes {d}, the container it iterates over")
            if isinstance(node, ast.Call) and d.startswith("self."):
                dn = dotted(node.func)
                cal = self.callee_of(dn)
                if cal is None and self.spec.recursive and dn in (f"self.{self.spec.py_name}", self.spec.py_name):
                    cal = self
                if cal is not None and dn not in self.ms.extern:
                    if d in cal.writes:
                        raise Unsupported(f"the loop body calls {dn}, which may change {d}, the container it iterates over")
                    if d in cal.touches:
                        grows = True
        if not grows:
            return None
        for node in ast.walk(ast.Module(body=loop.body, type_ignores=[])):
            if isinstance(node, (ast.Break, ast.Continue, ast.Return)):
                raise Unsupported(f"break / continue / return in a loop over the defaultdict {d} that its body may grow")
        return d

    def stmt_typed_try(self, s: ast.Try, tt: Tuple[str, ast.Assign, Method], rest: List[ast.stmt], ind: int) -> None:
        tag, first, m = tt
        pre: List[str] = []
        assert isinstance(first.value, ast.Call) and isinstance(first.targets[0], ast.Name)
        got, gty = self.call_method(dotted(first.value.func), first.value, pre)  # type: ignore[arg-type]
        self.flush(ind, pre)
        gh, ga = split_ty(gty)
        if gh != "opt":
            raise Unsupported(f"try/except {tag}: the call returns a {gty}")
        n = first.targets[0].id
        if n in self.rename:
            raise Unsupported(f"assignment to the narrowed local {n}")
        b = self.fresh(n)
        self.emit(ind, f"match {got} with")
        self.emit(ind, "| none =>")
        self.block(s.handlers[0].body, ind + 1)
        self.emit(ind, f"| some {b} =>")
        env0, declared0 = dict(self.env), set(self.declared)
        if n in self.declared:
            if self.env[n] != ga[0]:
                raise Unsupported(f"{n} changes type {self.env[n]} -> {ga[0]}")
            self.emit(ind + 1, f"{lname(n)} := {b}")
        else:
            self.env[n] = ga[0]
            self.declared.add(n)
            self.emit(ind + 1, f"let mut {lname(n)} : {LEAN_TY[ga[0]]} := {b}")
        self._block(s.body[1:] + rest, ind + 1)
        self.env = {k: v for k, v in self.env.items() if k in env0}
        self.declared = {k for k in self.declared if k in declared0}

    def loop_var_shadows(self, loop: ast.For, names: List[str], ind: int) -> None:
        """a loop variable assigned inside the body needs a mutable shadow (the iteration itself is not affected, as in Python)"""
        assigned = set()
        rebound = set()  # names that an inner `for` binds again (Lean shadows them inside that loop)
        for node in ast.walk(ast.Module(body=loop.body, type_ignores=[])):
            if isinstance(node, ast.For):
                rebound |= {x.id for x in ast.walk(node.target) if isinstance(x, ast.Name)}
        for node in ast.walk(ast.Module(body=loop.body, type_ignores=[])):
            if isinstance(node, ast.Name) and isinstance(node.ctx, ast.Store):
                assigned.add(node.id)
        plain = set()
        for node in ast.walk(ast.Module(body=loop.body, type_ignores=[])):
            if isinstance(node, (ast.Assign, ast.AugAssign, ast.AnnAssign)):
                for tg in (node.targets if isinstance(node, ast.Assign) else [node.target]):
                    plain |= {x.id for x in ast.walk(tg) if isinstance(x, ast.Name) and isinstance(x.ctx, ast.Store)}
        for n in names:
            if n in rebound and n not in plain:
                continue
            if n in rebound and n in plain:
                raise Unsupported(f"loop variable {n} is both assigned and re-bound by an inner loop")
            if n in assigned:
                self.emit(ind, f"let mut {lname(n)} := {lname(n)}")

    def stmt(self, s: ast.stmt, ind: int) -> None:
        pre: List[str] = []
        if isinstance(s, ast.Expr) and isinstance(s.value, ast.Constant) and isinstance(s.value.value, str):
            return  # docstring
        if isinstance(s, ast.Pass):
            self.emit(ind, "pure ()")
            return
        if isinstance(s, ast.FunctionDef):
            ft = self.mod.translated.get(s.name)
            if ft is None or ft.spec.nested_in != self.spec.py_name:
                raise Unsupported(f"nested def {s.name} (not translated as a nested function of {self.spec.py_name})")
            self.emit(ind, f"-- def {s.name}: translated as `{ft.lean_name()}` (closure variables {list(ft.spec.closure)} are parameters)")
            return
        if isinstance(s, ast.Assign) and len(s.targets) == 1 and isinstance(s.targets[0], ast.Name) and s.targets[0].id == "_" and self.extm:
            t, _ = self.expr(s.value, pre)
            self.flush(ind, pre)
            self.emit(ind, f"let _ := {t}")
            return
        if self.extm and isinstance(s, ast.Expr) and isinstance(s.value, ast.Call) and isinstance(s.value.func, ast.Attribute) and s.value.func.attr in ("add", "remove", "update") and isinstance(s.value.func.value, ast.Subscript) and len(s.value.args) == 1 and not s.value.keywords:
            # `d[k].add(x)` / `d[k].remove(x)`: the item is read first (a defaultdict inserts a missing key), then the set object changes
            c, tgt = s.value, s.value.func.value
            dty = self.static_type(tgt.value)
            kd = self.key_dict(dty or "")
            if c.func.attr == "update" and dty is not None and split_ty(dty)[0] == "ddict" and split_ty(dty)[1][1] == "set":  # type: ignore[attr-defined]
                dt, _ = self.expr(tgt.value, pre)
                k, kty = self.expr(tgt.slice, pre)
                x, xty = self.expr(c.args[0], pre)
                if not self.elem_eq(kty, split_ty(dty)[1][0]) or xty != "set":
                    raise Unsupported(f"{ast.unparse(s)[:80]} on {dty}")
                self.flush(ind, pre)
                for ln_ in self.assign_to(tgt.value, f"DDict.updateAt {dt} {k} {x}"):
                    self.emit(ind, ln_)
                return
            if kd is not None and split_ty(kd[1])[0] == "eset" and split_ty(dty or "")[0] == "kddict" and c.func.attr == "add":  # type: ignore[attr-defined]
                dt, _ = self.expr(tgt.value, pre)
                k, kty = self.expr(tgt.slice, pre)
                x, xty = self.expr(c.args[0], pre)
                if not self.elem_eq(kty, kd[0]) or [xty] != split_ty(kd[1])[1]:
                    raise Unsupported(f"{ast.unparse(s)[:80]} on {dty}")
                self.flush(ind, pre)
                for ln_ in self.assign_to(tgt.value, f"KDict.addAt {dt} {k} {x}"):
                    self.emit(ind, ln_)
                return
            if kd is not None and kd[1] == "sref" and c.func.attr in ("add", "remove"):  # type: ignore[attr-defined]
                r, _ = self.expr(tgt, pre)
                x, xty = self.expr(c.args[0], pre)
                if xty not in NAT_LIKE:
                    raise Unsupported(f"{ast.unparse(s)[:80]}: element of type {xty}")
                self.flush(ind, pre)
                self.emit(ind, f"sheap := SHeap.add {self.heap(True)} {r} {x}" if c.func.attr == "add" else f"sheap := {self.M(f'SHeap.remove {self.heap(True)} {r} {x}')}")  # type: ignore[attr-defined]
                return
        if isinstance(s, ast.Expr) and isinstance(s.value, ast.Yield):
            # a generator is translated as "the list of everything it yields" (and the state after it is exhausted)
            if s.value.value is None:
                raise Unsupported("bare yield")
            t, ty = self.expr(s.value.value, pre)
            self.flush(ind, pre)
            if f"yield[{ty}]" != self.spec.ret:
                raise Unsupported(f"yield of {ty}, {self.spec.ret} declared")
            self.emit(ind, f"yielded := yielded ++ [{t}]")
            return
        if isinstance(s, ast.Delete):
            for tg in s.targets:
                if not isinstance(tg, ast.Subscript):
                    raise Unsupported(f"del {ast.unparse(tg)}")
                dt, dty = self.expr(tg.value, pre)
                k, kty = self.expr(tg.slice, pre)
                dh, da = split_ty(dty)
                if dty == "dict" and kty in ("str", "pyval"):
                    self.flush(ind, pre)
                    for ln_ in self.assign_to(tg.value, self.M(f"{'PyDict.delItem' if kty == 'str' else 'PyDict.delVal'} {dt} {k}")):
                        self.emit(ind, ln_)
                    continue
                kd = self.key_dict(dty)
                if kd is not None and self.eq_type(kty, kd[0]):
                    self.flush(ind, pre)
                    for ln_ in self.assign_to(tg.value, self.M(f"KDict.delItem {dt} {k}")):
                        self.emit(ind, ln_)
                    continue
                if dh != "dict" or not da or not (kty == da[0] or {kty, da[0]} == {"nat", "uuid"}):
                    raise Unsupported(f"del on {dty} by {kty}")
                self.flush(ind, pre)
                for ln_ in self.assign_to(tg.value, self.M(f"NDict.delItem {dt} {k}")):
                    self.emit(ind, ln_)
            return
        if self.extm and isinstance(s, ast.Expr) and isinstance(s.value, ast.Call) and isinstance(s.value.func, ast.Attribute) and dotted(s.value.func) not in self.ms.methods and dotted(s.value.func) not in self.ms.opaque and dotted(s.value.func) not in self.ms.extern and self.value_method(s.value, ind):
            return
        if isinstance(s, ast.Expr) and isinstance(s.value, ast.Call) and isinstance(s.value.func, ast.Attribute) and s.value.func.attr in ("append", "add") and len(s.value.args) == 1 and not s.value.keywords and dotted(s.value.func) not in self.ms.methods and dotted(s.value.func) not in self.ms.opaque:
            c = s.value
            tgt = c.func.value  # type: ignore[attr-defined]
            if isinstance(tgt, ast.Subscript):
                # `d[k].append(x)` / `d[k].add(x)` on a defaultdict: the (possibly new) entry gets the grown value
                dt, dty = self.expr(tgt.value, pre)
                dh, da = split_ty(dty)
                k, kty = self.expr(tgt.slice, pre)
                x, xty = self.expr(c.args[0], pre)
                want = {"append": "natlist", "add": "set"}[c.func.attr]  # type: ignore[attr-defined]
                if dh == "ddict" and da[1] == want and (kty == da[0] or {kty, da[0]} == {"nat", "uuid"}) and xty in NAT_LIKE:
                    self.flush(ind, pre)
                    fn = "DDict.appendAt" if want == "natlist" else "DDict.addAt"
                    for ln_ in self.assign_to(tgt.value, f"{fn} {dt} {k} {x}"):
                        self.emit(ind, ln_)
                    return
                raise Unsupported(f"{ast.unparse(s)[:80]} on {dty}")
            if c.func.attr == "append":  # type: ignore[attr-defined]
                lt_, lty = self.expr(tgt, pre)
                x, xty = self.expr(c.args[0], pre)
                if lty == "natlist" and xty in NAT_LIKE:
                    self.flush(ind, pre)
                    for ln_ in self.assign_to(tgt, f"{lt_} ++ [{x}]"):
                        self.emit(ind, ln_)
                    return
                raise Unsupported(f"append on {lty}")
        if isinstance(s, ast.AugAssign) and isinstance(s.target, ast.Subscript) and isinstance(s.op, ast.Add):
            dt, dty = self.expr(s.target.value, pre)
            dh, da = split_ty(dty)
            k, kty = self.expr(s.target.slice, pre)
            n_, nty = self.expr(s.value, pre)
            if dh == "ddict" and da[1] == "nat" and nty == "nat" and (kty == da[0] or {kty, da[0]} == {"nat", "uuid"}):
                self.flush(ind, pre)
                for ln_ in self.assign_to(s.target.value, f"IDict.incr {dt} {k} {n_}"):
                    self.emit(ind, ln_)
                return
            raise Unsupported(f"augmented assignment {ast.unparse(s)}")
        if isinstance(s, ast.AnnAssign) and isinstance(s.target, ast.Name) and s.value is not None:
            # an annotated local: the annotation is not used, the type is the one of the value (or `local_types` for a defaultdict)
            s = ast.copy_location(ast.Assign(targets=[s.target], value=s.value), s)
        if isinstance(s, ast.Assign) and len(s.targets) == 1 and isinstance(s.targets[0], ast.Name) and isinstance(s.value, ast.Call) and dotted(s.value.func) == "defaultdict":
            n = s.targets[0].id
            ty = self.spec.local_types.get(n)
            arg = ast.unparse(s.value.args[0]) if len(s.value.args) == 1 else "?"
            if ty is not None and split_ty(ty)[0] == "kddict" and arg == "set" and split_ty(split_ty(ty)[1][1])[0] == "eset" and n not in self.declared:
                self.env[n] = ty
                self.declared.add(n)
                self.emit(ind, f"let mut {lname(n)} : {LEAN_TY[ty]} := []")
                return
            if ty is None or split_ty(ty)[0] != "ddict" or {"int": "nat", "list": "natlist", "set": "set"}.get(arg) != split_ty(ty)[1][1] or n in self.declared:
                raise Unsupported(f"{ast.unparse(s)[:80]} (no matching local_types entry)")
            self.env[n] = ty
            self.declared.add(n)
            self.emit(ind, f"let mut {lname(n)} : {LEAN_TY[ty]} := []")
            return
        if isinstance(s, ast.Expr) and isinstance(s.value, ast.Call):
            c = s.value
            d = dotted(c.func)
            if d in self.ms.ignore_calls:
                self.emit(ind, f"pure ()  -- {ast.unparse(c)[:60]}")
                return
            if isinstance(c.func, ast.Attribute) and d not in self.ms.opaque and d not in self.ms.methods and d not in self.ms.extern and self.value_method(c, ind):
                return
            if isinstance(c.func, ast.Attribute) and c.func.attr in SET_MUTATORS and d not in self.ms.opaque:
                m = c.func.attr
                if m == "clear":
                    self.set_mut(c.func.value, lambda cur: "[]", ind)
                    return
                a, aty = self.expr(c.args[0], pre)
                self.flush(ind, pre)
                if m == "update" and aty == "set":
                    self.set_mut(c.func.value, lambda cur: f"PSet.update {cur} {a}", ind)
                elif m == "add" and (aty in ("nat", "uuid") or aty in self.ms.eq_types and aty in NAT_TYPES(self)):
                    self.set_mut(c.func.value, lambda cur: f"PSet.add {cur} {a}", ind)
                elif m == "difference_update" and aty == "set":
                    self.set_mut(c.func.value, lambda cur: f"PSet.differenceUpdate {cur} {a}", ind)
                elif m == "discard" and aty == "nat":
                    self.set_mut(c.func.value, lambda cur: f"PSet.differenceUpdate {cur} [{a}]", ind)
                else:
                    raise Unsupported(f"{m}({aty})")
                return
            t, ty = self.expr(c, pre)
            self.flush(ind, pre)
            if not self.lines or t != "()":
                self.emit(ind, f"let _ := {t}")
            return
        if isinstance(s, ast.AugAssign):
            a, aty = self.expr(s.value, pre)
            self.flush(ind, pre)
            if isinstance(s.op, ast.BitOr) and aty == "set":
                self.set_mut(s.target, lambda cur: f"PSet.update {cur} {a}", ind)
            elif isinstance(s.op, ast.Sub) and aty == "set":
                self.set_mut(s.target, lambda cur: f"PSet.differenceUpdate {cur} {a}", ind)
            else:
                raise Unsupported(f"augmented assignment {ast.unparse(s)}")
            return
        if isinstance(s, ast.Assign) and len(s.targets) == 1 and isinstance(s.targets[0], ast.Attribute) and dotted(s.targets[0]) in self.ms.attr_vars:
            vn, vt = self.ms.attr_vars[dotted(s.targets[0])]
            v, vty = self.expr(s.value, pre)
            self.flush(ind, pre)
            if vty != vt:
                raise Unsupported(f"{dotted(s.targets[0])} assigned a {vty}")
            self.emit(ind, f"{lname(vn)} := {v}")
            return
        if isinstance(s, ast.Assign) and len(s.targets) == 1 and isinstance(s.targets[0], ast.Attribute) and dotted(s.targets[0]) in self.ms.attr_assign_events:
            v, vty = self.expr(s.value, pre)
            self.flush(ind, pre)
            if vty != "bool":
                raise Unsupported(f"attribute assignment of a {vty}")
            self.effects_used = True
            self.emit(ind, f'log := log ++ ["{self.ms.attr_assign_events[dotted(s.targets[0])]}:=" ++ toString {v}]')
            return
        if isinstance(s, ast.Assign) and len(s.targets) == 1 and isinstance(s.targets[0], ast.Subscript):
            tg = s.targets[0]
            dd = dotted(tg.value)
            k, kty = self.expr(tg.slice, pre)
            v, vty = self.expr(s.value, pre)
            self.flush(ind, pre)
            if dd and dd.startswith("self.") and self.ms.self_fields.get(dd[5:]) == "dict" and kty == "str" and vty == "pyval":
                f = lname(dd[5:])
                self.emit(ind, f"self := {{ self with {f} := PyDict.set self.{f} {k} {v} }}")
                return
            sf = self.sfield(dd)
            fh, fa = split_ty(sf[1]) if sf else ("", [])
            kty0 = self.static_type(tg.value)
            if kty0 is not None and self.key_dict(kty0) is not None:
                kk, kv = self.key_dict(kty0)  # type: ignore[misc]
                cv = self.coerce(v, vty, kv)
                if not self.elem_eq(kty, kk) or cv is None:
                    raise Unsupported(f"item assignment {ast.unparse(s)[:80]}: {kty} -> {vty} into {kty0}")
                cur, _ = self.expr(tg.value, pre)
                for ln_ in self.assign_to(tg.value, f"KDict.set {cur} {k} {cv}"):
                    self.emit(ind, ln_)
                return
            if sf and fh in ("dict", "ddict") and fa and (kty == fa[0] or {kty, fa[0]} == {"nat", "uuid"}) and self.coerce(v, vty, fa[1]) is not None:
                setter = "ADict.set" if split_ty(fa[0])[0] == "tuple" else "NDict.set"
                self.emit(ind, self.sfield_set(dd, f"{setter} {sf[0]} {k} {self.coerce(v, vty, fa[1])}"))  # type: ignore[arg-type]
                return
            if sf is None and not isinstance(tg.value, ast.Attribute) or (sf is None and dd in self.ms.attr_vars):
                # a dict that is a local / parameter (returned to the caller when it is a parameter) or a world variable
                dt, dty = self.expr(tg.value, pre)
                fh, fa = split_ty(dty)
                if fh == "dict" and fa and (kty == fa[0] or {kty, fa[0]} == {"nat", "uuid"}) and self.coerce(v, vty, fa[1]) is not None:
                    for ln_ in self.assign_to(tg.value, f"NDict.set {dt} {k} {self.coerce(v, vty, fa[1])}"):
                        self.emit(ind, ln_)
                    return
            raise Unsupported(f"item assignment {ast.unparse(s)}")
        if isinstance(s, (ast.Assign, ast.AnnAssign)) and (isinstance(s, ast.AnnAssign) or len(s.targets) == 1) and isinstance(s.targets[0] if isinstance(s, ast.Assign) else s.target, ast.Attribute):
            # `self.<field> = value` (also with an annotation, as in __init__)
            tg = s.targets[0] if isinstance(s, ast.Assign) else s.target
            dd = dotted(tg)
            if not (dd and dd.startswith("self.") and dd[5:] in self.ms.self_fields) or s.value is None:
                raise Unsupported(f"attribute assignment {ast.unparse(s)[:80]}")
            fty = self.ms.self_fields[dd[5:]]
            if self.extm and isinstance(s.value, ast.Call) and dotted(s.value.func) == "defaultdict" and [ast.unparse(a) for a in s.value.args] == ["set"] and split_ty(fty)[0] == "kddict" and (split_ty(fty)[1][1] == "sref" or (self.ms.ext and split_ty(fty)[1][1] == "set")):
                v, vty = "[]", fty  # `defaultdict(set)`: no keys yet
            else:
                v, vty = self.expr_for(s.value, pre, fty if self.ms.local_decl else None)
            self.flush(ind, pre)
            cv = self.coerce(v, vty, fty)
            if cv is None:
                raise Unsupported(f"{dd} (a {fty}) assigned a {vty}")
            self.emit(ind, self.sfield_set(dd, cv))
            return
        if isinstance(s, ast.Assign) and len(s.targets) == 1 and isinstance(s.targets[0], ast.Tuple):
            # `a, b = t` for a pair t: the right side is evaluated once, then both names are bound
            names = [x.id if isinstance(x, ast.Name) else None for x in s.targets[0].elts]
            t, ty = self.expr(s.value, pre)
            self.flush(ind, pre)
            th, ta = split_ty(ty)
            real = [n for n in names if n != "_"]
            if th != "tuple" or len(names) != len(ta) or None in names or len(set(real)) != len(real):
                raise Unsupported(f"unpacking {ast.unparse(s)[:80]}")
            if not isinstance(s.value, ast.Name):
                tmp = self.fresh("pair")
                self.emit(ind, f"let {tmp} := {t}")
                t = tmp
            for i, n in enumerate(names):
                assert n is not None
                if n == "_":
                    continue  # `_`: the component is not kept
                if n in self.rename or any(n in (dotted(a), dotted(b)) for a, b in self.alias.values()):
                    raise Unsupported(f"assignment to {n} while it is narrowed / used by a live alias")
                if n in self.declared:
                    if self.env[n] != ta[i]:
                        raise Unsupported(f"{n} changes type {self.env[n]} -> {ta[i]}")
                    self.emit(ind, f"{lname(n)} := {t}{tuple_proj(len(ta), i)}")
                else:
                    self.env[n] = ta[i]
                    self.declared.add(n)
                    self.emit(ind, f"let mut {lname(n)} : {LEAN_TY[ta[i]]} := {t}{tuple_proj(len(ta), i)}")
            return
        if isinstance(s, ast.Assign):
            if len(s.targets) != 1 or not isinstance(s.targets[0], ast.Name):
                raise Unsupported(f"assignment target {ast.unparse(s)}")
            n = s.targets[0].id
            if (n in self.rename and n not in self.narrow_mut) or any(n in (dotted(a), dotted(b)) for a, b in self.alias.values()):
                raise Unsupported(f"assignment to {n} while it is narrowed / used by a live alias")
            if self.try_flag is not None and n in self.declared and isinstance(s.value, ast.Call) and (dotted(s.value.func) in self.ms.methods or self.callee_of(dotted(s.value.func)) is not None):
                # inside try/except Exception: the value exists only when the call did not raise
                self.try_assign = lname(n)
                t, ty = self.expr(s.value, pre)
                if t != "<assigned>" or ty != self.env[n]:
                    raise Unsupported(f"{n} = {ast.unparse(s.value)[:60]} inside try/except")
                self.flush(ind, pre)
                return
            t, ty = self.expr_for(s.value, pre, self.env.get(n) if n in self.declared else self.spec.local_types.get(n) if self.ms.local_decl else None)
            self.flush(ind, pre)
            self.alias.pop(n, None)
            self.fresh_objs.discard(n)
            if isinstance(s.value, (ast.Set, ast.Dict, ast.List)) or (isinstance(s.value, ast.Call) and dotted(s.value.func) in ("set", "dict", "list", "OrderedDict") and not s.value.args):
                self.fresh_objs.add(n)  # a fresh container: mutating it cannot be seen by anybody else
            if isinstance(s.value, ast.Subscript) and self.is_objty(ty) and isinstance(s.value.slice, ast.Name):
                self.alias[n] = (s.value.value, s.value.slice)  # `n` IS the object stored in the dict
            if n in self.declared:
                if self.env[n] != ty:
                    c = self.coerce(t, ty, self.env[n]) if self.ms.local_decl else None
                    if c is None:
                        raise Unsupported(f"{n} changes type {self.env[n]} -> {ty}")
                    t = c
                self.emit(ind, f"{self.ln(n) if n in self.narrow_mut else lname(n)} := {t}")
                if n in self.narrow_mut:
                    self.emit(ind, f"{lname(n)} := some {self.ln(n)}")  # the Optional variable behind the narrowed one
            else:
                want = self.spec.local_types.get(n) if self.ms.local_decl else None
                if want is not None and want != ty:
                    c = self.coerce(t, ty, want)
                    if c is None:
                        raise Unsupported(f"{n} is declared {want} and assigned a {ty}")
                    t, ty = c, want
                self.env[n] = ty
                self.declared.add(n)
                self.emit(ind, f"let mut {lname(n)} : {LEAN_TY[ty]} := {t}")
            return
        nt = self.narrow_test(s.test) if isinstance(s, ast.If) and not s.orelse else None
        if nt is not None and nt[1] in ("some", "truthy"):
            # `if x is not None:` / `if x:` - the body sees `x` narrowed
            assert isinstance(s, ast.If)
            n, kind, inner = nt
            b = self.fresh(n)
            self.emit(ind, f"match {self.ln(n)} with")
            self.emit(ind, "| none =>")
            self.emit(ind + 1, "pure ()")
            self.emit(ind, f"| some {b} =>")
            self.rename[n] = b
            cond = self.truthy(b, inner) if kind == "truthy" else "true"

            def body() -> None:
                if cond == "true":
                    self.block(s.body, ind + 1)
                else:
                    self.emit(ind + 1, f"if {cond} then")
                    self.block(s.body, ind + 2)

            self.narrowed(n, inner, body)
            return
        nt2 = self.narrow_test(s.test) if isinstance(s, ast.If) and s.orelse and self.ms.local_decl else None
        if nt2 is not None and nt2[1] in ("none", "some"):
            # `if x is None: A else: B` - B sees `x` narrowed (as a mutable local; see `narrowed_mut`)
            assert isinstance(s, ast.If)
            n, kind, inner = nt2
            self.hoist_branch_locals(s, ind)
            b = self.fresh(n)
            none_arm, some_arm = (s.body, s.orelse) if kind == "none" else (s.orelse, s.body)
            self.emit(ind, f"match {self.ln(n)} with")
            self.emit(ind, "| none =>")
            self.block(none_arm, ind + 1)
            self.emit(ind, f"| some {b} =>")
            self.narrowed_mut(n, inner, b, ind + 1, lambda: self.block(some_arm, ind + 1))
            return
        if isinstance(s, ast.If):
            self.hoist_branch_locals(s, ind)
            t, ty = self.expr(s.test, pre)
            self.flush(ind, pre)
            self.emit(ind, f"if {self.truthy(t, ty)} then")
            self.block(s.body, ind + 1)
            if s.orelse:
                self.emit(ind, "else")
                self.block(s.orelse, ind + 1)
            return
        if isinstance(s, ast.For) and self.extm:
            self.stmt_for_general(s, ind)
            return
        if isinstance(s, ast.For) and not s.orelse and isinstance(s.target, ast.Tuple):
            # `for k, v in d.items():` over an insertion-ordered dict
            it, ity = self.expr(s.iter, pre)
            self.flush(ind, pre)
            ih, ia = split_ty(ity)
            names = [x.id if isinstance(x, ast.Name) else None for x in s.target.elts]
            if ity == "items":
                ih, ia = "items", ["str", "pyval"]  # the items of an `Options` dict
            if ih != "items" or len(ia) != 2 or len(names) != 2 or None in names or names[0] == names[1]:
                raise Unsupported(f"for {ast.unparse(s.target)} over {ity}")
            for n, ty in zip(names, ia):
                assert n is not None
                if n in self.declared and self.env.get(n) != ty:
                    raise Unsupported(f"loop variable {n} changes type {self.env[n]} -> {ty}")
                self.env[n] = ty
                self.declared.add(n)
            grown = self.check_loop_mutation(s)
            if grown is not None:
                n0 = self.fresh("size")
                self.emit(ind, f"let {n0} := ({it}).length")
            self.emit(ind, f"for ({lname(names[0])}, {lname(names[1])}) in {it} do")  # type: ignore[arg-type]
            self.loop_var_shadows(s, [n for n in names if n], ind + 1)
            self._loop_depth += 1
            self.while_flags.append(None)
            self.block(s.body, ind + 1)
            self.while_flags.pop()
            self._loop_depth -= 1
            if grown is not None:
                # the `for` statement's next step notices that the dict it iterates has grown
                cur, _ = self.expr(s.iter.func.value if isinstance(s.iter, ast.Call) else s.iter, pre)  # type: ignore[attr-defined]
                self.emit(ind + 1, f"if ({cur}).length != {n0} then")
                self.emit(ind + 2, self.throw('(.runtimeError "dictionary changed size during iteration")'))
            return
        if isinstance(s, ast.For):
            if s.orelse or not isinstance(s.target, ast.Name):
                raise Unsupported("for/else or tuple target")
            it, ity = self.expr(s.iter, pre)
            self.flush(ind, pre)
            if ity not in ("set", "natlist"):
                if not self.ms.obj_fields and not self.ms.methods and not self.ms.exc_state and not self.extm:
                    raise Unsupported(f"for over {ity}")
                it, ety = self.iter_of(it, ity)
            else:
                ety = "nat"
            self.check_loop_mutation(s)
            v = s.target.id
            if v in self.rename:
                raise Unsupported(f"loop variable {v} is flow-narrowed here")
            self.env[v] = ety
            self.declared.add(v)
            self.emit(ind, f"for {lname(v)} in {it} do")
            self.loop_var_shadows(s, [v], ind + 1)
            self._loop_depth += 1
            self.while_flags.append(None)
            self.block(s.body, ind + 1)
            self.while_flags.pop()
            self._loop_depth -= 1
            return
        if isinstance(s, ast.While):
            # FUEL: at most `fuel` executions of the body; the test is evaluated before each of them and once more after the
            # last one; if it still holds then, the function ends with `.fuel` (the Python loop would go on)
            if s.orelse:
                raise Unsupported("while/else")
            flag = self.fresh("looping")
            self.emit(ind, f"let mut {flag} : Bool := true")
            self.emit(ind, "for _ in List.range fuel do")
            t, ty = self.expr(s.test, pre)
            self.flush(ind + 1, pre)
            self.emit(ind + 1, f"if !({self.truthy(t, ty)}) then")
            self.emit(ind + 2, f"{flag} := false")
            self.emit(ind + 2, "break")
            self._loop_depth += 1
            self.while_flags.append(flag)
            self.block(s.body, ind + 1)
            self.while_flags.pop()
            self._loop_depth -= 1
            self.emit(ind, f"if {flag} then")
            t, ty = self.expr(s.test, pre)
            self.flush(ind + 1, pre)
            self.emit(ind + 1, f"if {self.truthy(t, ty)} then")
            self.emit(ind + 2, self.throw(".fuel"))
            return
        if isinstance(s, ast.Return):
            if self.is_gen:
                if s.value is not None:
                    raise Unsupported("return with a value inside a generator")
                self.emit(ind, f"return {self.ret_tuple('yielded')}")
                return
            if s.value is None:
                self.emit(ind, f"return {self.ret_tuple('()')}")
                return
            t, ty = self.expr(s.value, pre)
            self.flush(ind, pre)
            if self.spec.ret == "boolorset":
                t = f"(.bool {t})" if ty == "bool" else f"(.set {t})" if ty == "set" else t
            elif ty != self.spec.ret:
                c = self.coerce(t, ty, self.spec.ret)
                if c is None:
                    raise Unsupported(f"return of {ty}, {self.spec.ret} declared")
                t = c
            self.emit(ind, f"return {self.ret_tuple(t)}")
            return
        if isinstance(s, ast.Continue):
            if self.spec.continue_is_return and self._loop_depth == 0:
                self.emit(ind, f"return {self.ret_tuple('()')}")
            else:
                self.emit(ind, "continue")
            return
        if isinstance(s, ast.Break):
            if self.spec.continue_is_return and self._loop_depth == 0:
                self.emit(ind, 'log := log ++ ["break"]')
                self.emit(ind, f"return {self.ret_tuple('()')}")
            else:
                if self.while_flags and self.while_flags[-1] is not None:
                    self.emit(ind, f"{self.while_flags[-1]} := false")  # the loop has ended: no fuel check after it
                self.emit(ind, "break")
            return
        if isinstance(s, ast.With):
            for it in s.items:
                if dotted(it.context_expr) not in self.ms.transparent_with or it.optional_vars is not None:
                    raise Unsupported(f"with {ast.unparse(it.context_expr)}")
            self.emit(ind, f"-- with {', '.join(ast.unparse(i.context_expr) for i in s.items)}: (the locked region is one atomic step of the model)")
            for b in s.body:
                self.stmt(b, ind)
            return
        if isinstance(s, ast.Raise):
            if isinstance(s.exc, ast.Call) and dotted(s.exc.func) in ("Exception", "ValueError") and len(s.exc.args) == 1 and isinstance(s.exc.args[0], ast.Constant):
                ctor = ".exception" if dotted(s.exc.func) == "Exception" else ".valueError"
                msg = str(s.exc.args[0].value).replace('"', "'")
                self.emit(ind, self.throw(f'({ctor} "{msg}")'))
                return
            if isinstance(s.exc, ast.Call) and dotted(s.exc.func) in ("Exception", "ValueError") and len(s.exc.args) == 1 and isinstance(s.exc.args[0], ast.JoinedStr):
                self.expr(s.exc.args[0], pre)  # checks the interpolated expressions
                self.flush(ind, pre)
                ctor = ".exception" if dotted(s.exc.func) == "Exception" else ".valueError"
                self.emit(ind, self.throw(f'({ctor} "{self.fstring_text(s.exc.args[0])}")'))
                return
            if isinstance(s.exc, ast.Call) and dotted(s.exc.func) == "Exception" and all(isinstance(a, ast.Name) and self.env.get(a.id) == "str" for a in s.exc.args):
                self.emit(ind, self.throw(f'(.exception "{ast.unparse(s.exc)}")'))
                return
            raise Unsupported(f"raise {ast.unparse(s)}")
        if isinstance(s, ast.Try) and self.typed_try(s) is not None:
            self.stmt_typed_try(s, self.typed_try(s), [], ind)  # type: ignore[arg-type]
            return
        if isinstance(s, ast.Try):
            if s.finalbody or s.orelse or len(s.handlers) != 1 or dotted(s.handlers[0].type) != "Exception" or self.try_flag is not None:  # type: ignore[arg-type]
                raise Unsupported("try statement other than a single, un-nested `except Exception`")
            flag = self.fresh("raised")
            self.emit(ind, f"let mut {flag} := false")
            hname = s.handlers[0].name
            self.try_flag = flag
            self._in_try_body = True
            self.block(s.body, ind)
            self._in_try_body = False
            self.try_flag = None
            self.emit(ind, f"if {flag} then")
            if hname:
                self.env[hname] = "obj"
            self.block(s.handlers[0].body, ind + 1)
            if hname:
                self.env.pop(hname, None)
            return
        raise Unsupported(f"statement {type(s).__name__}: {ast.unparse(s)[:80]}")

    _loop_depth = 0

    # ---------------------------------------------------------------- whole function
    def lean_name(self) -> str:
        return lname(self.spec.lean_name or self.spec.py_name)

    def translate(self) -> str:
        stmts = self.spec.slicer(self.fdef) if self.spec.slicer else list(self.fdef.body)
        self.analyse(stmts)
        params = []
        if self.spec.self_type:
            params.append(f"(self : {self.spec.self_type})")
        for n, ty in list(self.spec.params.items()) + list(self.spec.live_in.items()) + list(self.spec.closure.items()):
            params.append(f"({lname(n)} : {LEAN_TY[ty]})")
        for av in self.attr_params:
            params.append(f"({lname(av)} : {LEAN_TY[self.env[av]]})")
        for n, ty in self.spec.extra_params:
            params.append(f"({lname(n)} : {ty})")
        if self.needs_fuel:
            params.append("(fuel : Nat)")
        for o, ty in self.oracles.items():
            params.append(f"({lname(o)} : {ty})")
        if self.effects:
            params.append("(log : List String)")
        self.lines = []
        for m in self.mutated:
            self.emit(1, f"let mut {lname(m)} := {lname(m)}")
        for lo in self.spec.live_out:
            if lo not in self.mutated and lo in self.env:
                self.emit(1, f"let mut {lname(lo)} := {lname(lo)}")
        for av in self.attr_written:
            self.emit(1, f"let mut {lname(av)} := {lname(av)}")
        for ra in self.reassigned:
            if ra not in self.mutated and ra not in self.spec.live_out:
                self.emit(1, f"let mut {lname(ra)} := {lname(ra)}")
        if self.self_mut:
            self.emit(1, "let mut self := self")
        if self.effects:
            self.emit(1, "let mut log := log")
        if self.is_gen:
            if split_ty(self.spec.ret)[0] != "yield":
                raise Unsupported(f"{self.spec.py_name} is a generator; its result must be declared yield[T]")
            self.emit(1, f"let mut yielded : {LEAN_TY[self.spec.ret]} := []")
            self.env["yielded"] = self.spec.ret
            self.declared.add("yielded")
        if self.spec.recursive:
            # RECURSION: `fuel` is the number of Python frames still available; a call at fuel 0 is a RecursionError
            self.emit(1, "match fuel with")
            self.emit(1, "| 0 => " + self.throw(".recursion"))
            self.emit(1, "| fuel' + 1 =>")
        bi = 2 if self.spec.recursive else 1
        if self.ms.narrow or self.ms.exc_types:
            self._block(stmts, bi)  # narrowing / typed try put the rest of a block into a match arm
        else:
            for s in stmts:
                self.stmt(s, bi)
        # falling off the end returns None
        def ends(ss: List[ast.stmt]) -> bool:
            if not ss:
                return False
            l = ss[-1]
            if isinstance(l, (ast.Return, ast.Raise)):
                return True
            if isinstance(l, ast.With):
                return ends(l.body)
            if isinstance(l, ast.If):
                return ends(l.body) and ends(l.orelse)
            return False

        if not ends(stmts):
            if self.spec.ret not in ("unit",) and not self.is_gen:
                raise Unsupported(f"{self.spec.py_name} can fall off its end but declares a {self.spec.ret} result")
            self.emit(bi, f"return {self.ret_tuple('yielded' if self.is_gen else '()')}")
        doc = f"/-- `{self.spec.py_name}`" + (f": {self.spec.doc}" if self.spec.doc else "") + " -/\n"
        exc_ty = f"(PyExc × {self.st_type()})" if self.st_mode else "PyExc"
        head = f"def {self.lean_name()} {' '.join(params)} : Except {exc_ty} ({self.ret_type()}) := do\n"
        return doc + head + "\n".join(self.lines) + "\n"


class ModuleTranslator:
    def __init__(self, repo: Path, spec: ModuleSpec):
        self.spec = spec
        self.src = (repo / spec.path).read_text()
        self.tree = ast.parse(self.src)
        self.translated: Dict[str, FnTranslator] = {}

    def find(self, name: str, nested_in: Optional[str] = None) -> ast.FunctionDef:
        if nested_in is not None:
            outer = self.find(nested_in)
            inner = [n for n in ast.walk(outer) if isinstance(n, ast.FunctionDef) and n.name == name and n is not outer]
            if len(inner) != 1:
                raise Unsupported(f"nested function {name} not found (or not unique) in {nested_in}")
            return inner[0]
        scope: List[ast.stmt] = self.tree.body
        if self.spec.cls:
            cl = [n for n in self.tree.body if isinstance(n, ast.ClassDef) and n.name == self.spec.cls]
            if not cl:
                raise Unsupported(f"class {self.spec.cls} not found in {self.spec.path}")
            scope = cl[0].body
        fs = [n for n in scope if isinstance(n, ast.FunctionDef) and n.name == name]
        if len(fs) != 1:
            raise Unsupported(f"function {name} not found (or not unique) in {self.spec.path}")
        return fs[0]

    def run(self, namespace: str) -> str:
        self.namespace = namespace
        out = [f"/- translated by harness/pytrans.py from {self.spec.path} (subset translator; see its docstring) -/", *[f"import {m}" for m in self.spec.imports], f"namespace {namespace}", *[f"open {o}" for o in self.spec.opens], ""]
        if self.spec.prelude:
            out.append(self.spec.prelude)
        for fs in self.spec.functions:
            try:
                fdef = self.find(fs.py_name, fs.nested_in)
                # parameters of the Python function must be the ones the spec lists (a changed signature is a changed function)
                if not fs.slicer:
                    got = [a.arg for a in fdef.args.args if a.arg not in ("self", "cls")]
                    extra = [a for a in got if a not in fs.params]
                    if extra or [p for p in fs.params if p not in got]:
                        raise Unsupported(f"signature of {fs.py_name} is {got}, spec lists {list(fs.params)}")
                ft = FnTranslator(self, fs, fdef)
                if self.spec.set_refs:
                    # first pass: does the function (or a callee) read / write the heap of set objects?
                    ft0 = FnTranslator(self, fs, fdef)
                    ft0.force_heap = (True, True)
                    ft0.translate()
                    ft.force_heap = (ft0.heap_read, ft0.heap_written)
                text = ft.translate()
                self.translated[fs.lean_name or fs.py_name] = ft
                if fs.py_name not in self.translated:
                    self.translated[fs.py_name] = ft
                out.append(text)
            except Unsupported as u:
                nm = lname(fs.lean_name or fs.py_name)
                msg = str(u).replace('"', "'").replace("\n", " ")
                out.append(f"-- NOT TRANSLATED: {msg}\n#eval (throw (IO.userError \"pytrans: {nm}: {msg}\") : IO Unit)\ndef {nm} : Nat := pytrans_unsupported_construct\n")
        out.append(f"end {namespace}")
        return "\n".join(out) + "\n"


def loop_body_of(func_loop_src: str) -> Callable[[ast.FunctionDef], List[ast.stmt]]:
    """slicer: the body of the first `for` statement (anywhere inside the function) whose header unparses to `func_loop_src`"""

    def slicer(fdef: ast.FunctionDef) -> List[ast.stmt]:
        for node in ast.walk(fdef):
            if isinstance(node, ast.For) and f"for {ast.unparse(node.target)} in {ast.unparse(node.iter)}" == func_loop_src:
                return list(node.body)
        raise Unsupported(f"loop `{func_loop_src}` not found in {fdef.name}")

    return slicer


def while_test_of() -> Callable[[ast.FunctionDef], List[ast.stmt]]:
    """slicer: `return <test>` for the test of the first `while` statement of the function"""

    def slicer(fdef: ast.FunctionDef) -> List[ast.stmt]:
        for node in ast.walk(fdef):
            if isinstance(node, ast.While):
                r = ast.Return(value=node.test)
                return [ast.copy_location(r, node)]
        raise Unsupported(f"no while loop in {fdef.name}")

    return slicer


def nth_try_of(n: int) -> Callable[[ast.FunctionDef], List[ast.stmt]]:
    """slicer: the n-th (0-based, source order) `try` statement of the function, as a one-statement slice"""

    def slicer(fdef: ast.FunctionDef) -> List[ast.stmt]:
        tries = sorted((node for node in ast.walk(fdef) if isinstance(node, ast.Try)), key=lambda t: t.lineno)
        if len(tries) <= n:
            raise Unsupported(f"{fdef.name} has {len(tries)} try statements")
        return [tries[n]]

    return slicer
