"""C15 constants: DefaultOptionKeys members and the default protected keys of Options.update_with_protected_keys."""
from __future__ import annotations

from harness.extract import lbool, llist, lstr


def gen_option_consts() -> str:
    from mloda.core.abstract_plugins.components.options import Options
    from mloda_plugins.feature_group.experimental.default_options_key import DefaultOptionKeys

    members = [(m.name, m.value) for m in DefaultOptionKeys]
    # a DefaultOptionKeys member used as dict key is the same key as its string value (str-mixin enum)
    str_enum = all(isinstance(m, str) and m == m.value and hash(m) == hash(m.value) and not (m < m.value) and not (m.value < m) for m in DefaultOptionKeys)
    # default protected keys, by probing the real method on every member value and on a key outside the enum:
    # a key is protected iff the parent's value survives an update from a child that carries another value
    probes = [v for _, v in members] + ["zz_not_a_default_key"]
    protected = []
    for k in probes:
        parent = Options({k: "P"})
        child = Options({k: "C"})
        parent.update_with_protected_keys(child)
        if parent.group[k] == "P":
            protected.append(k)
    out = ["namespace Gen.OptionConsts", ""]
    out.append("/-- `(member name, value)` of `DefaultOptionKeys` -/")
    out.append("def optionKeys : List (String × String) := " + llist([f"({lstr(n)}, {lstr(v)})" for n, v in members]))
    out.append("/-- every member is `==` to, hashes like and sorts like its string value -/")
    out.append("def keysAreStrEnum : Bool := " + lbool(str_enum))
    out.append("def inFeaturesKey : String := " + lstr(DefaultOptionKeys.in_features.value))
    out.append("def chainerKey : String := " + lstr(DefaultOptionKeys.feature_chainer_parser_key.value))
    out.append("/-- keys of the probe set (all member values + one foreign key) that `update_with_protected_keys(other)` protects by default -/")
    out.append("def defaultProtected : List String := " + llist([lstr(k) for k in protected]))
    out.append("def protectedProbeSet : List String := " + llist([lstr(k) for k in probes]))
    out += ["", "end Gen.OptionConsts"]
    return "\n".join(out) + "\n"


GENERATORS = {"OptionConsts": gen_option_consts}
