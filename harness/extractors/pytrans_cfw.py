"""Translator target (harness/pytrans.py): `CfwManager` (mloda/core/core/cfw_manager.py), the register of compute-framework
objects.  The generated `Gen/CfwManagerGen.lean` is proved equal to the hand-written `Model/CfwReg.lean` in `Props/C02_gen.lean`.

Choice of types (what makes the bridge to `CfwReg` direct): uuids, class names, artifact names, api_data keys and column names
are `Nat` ids exactly as in `CfwReg` ("uuid" / "sid"; string id 0 is the empty string, which matters for `set_location` only);
`Any` values that the code compares with None (`msg`, `exc_info`, the values of `api_data`) are "any" = `Option Nat`; the artifact
object, which is only stored, is an "objid"."""
from __future__ import annotations

from harness.extract import REPO
from harness.pytrans import LEAN_TY, FnSpec, ModuleSpec, ModuleTranslator, lname

CFWS = "dict[uuid,tuple[sid,set]]"  # compute_frameworks: cfw uuid -> (cfw class name, children_if_root)
REL = "dict[uuid,tuple[uuid,sid]]"  # cfw_merge_relation: right -> (left, cls_name)
API = "opt[dict[sid,any]]"

SELF_FIELDS = {
    "compute_frameworks": CFWS,
    "cfw_merge_relation": REL,
    "location": "opt[sid]",
    "error": "bool",
    "msg": "any",
    "exc_info": "any",
    "uuid_column_names": "dict[uuid,set]",
    "uuid_flyway_datasets": "dict[uuid,set]",
    "artifact_to_save": "dict[sid,objid]",
    "api_data": API,
}


def init_slicer(fdef):  # type: ignore[no-untyped-def]
    """`__init__` without the two assignments of constructor arguments the model does not carry"""
    import ast

    skip = {"self.parallelization_modes = parallelization_modes", "self.function_extender = function_extender"}
    return [st for st in fdef.body if ast.unparse(st) not in skip]


def cfw_manager_spec() -> ModuleSpec:
    S = "CfwMgr"
    prelude = "/-- the fields of a `CfwManager` (all of them but `parallelization_modes` and `function_extender`) -/\nstructure CfwMgr where\n"
    prelude += "".join(f"  {lname(f)} : {LEAN_TY[t]}\n" for f, t in SELF_FIELDS.items()) + "  deriving Repr\n"
    return ModuleSpec(
        path="mloda/core/core/cfw_manager.py",
        cls="CfwManager",
        functions=[
            FnSpec("__init__", {}, lean_name="init", self_type=S, slicer=init_slicer, doc="the initial values of the modelled fields (whatever `self` was before)"),
            FnSpec("add_uuid_flyway_datasets", {"cf_uuid": "uuid", "object_ids": "set"}, self_type=S),
            FnSpec("get_uuid_flyway_datasets", {"cf_uuid": "uuid"}, ret="opt[set]", self_type=S),
            FnSpec("add_column_names_to_cf_uuid", {"cf_uuid": "uuid", "column_names": "set"}, self_type=S),
            FnSpec("get_column_names", {"cf_uuid": "uuid"}, ret="set", self_type=S),
            # find_leftmost is defined after get_cfw_uuid in the class, but a callee has to be translated first
            FnSpec("find_leftmost", {"uuid": "uuid", "cls_name": "sid"}, ret="uuid", self_type=S),
            FnSpec("get_cfw_uuid", {"cf_class_name": "sid", "feature_uuid": "uuid"}, ret="opt[uuid]", self_type=S),
            FnSpec("add_to_merge_relation", {"left_uuid": "uuid", "right_uuid": "uuid", "cls_name": "sid"}, self_type=S),
            FnSpec("add_cfw_to_compute_frameworks", {"uuid": "uuid", "cls_name": "sid", "children_if_root": "set"}, self_type=S),
            FnSpec(
                "get_initialized_compute_framework_uuid",
                {"cf_class": "obj", "feature_uuid": "uuid"},
                ret="opt[uuid]",
                self_type=S,
                extra_params=[("cf_class_name", "Nat")],
                doc="`cf_class_name` is `cf_class.get_class_name()`; the Python annotation of the result is `UUID`, nothing narrows the `Optional` local, so the declared result is `opt[uuid]` (never `none`: C02.gen_get_initialized)",
            ),
            FnSpec("set_location", {"location": "sid"}, self_type=S),
            FnSpec("get_location", {}, ret="opt[sid]", self_type=S),
            FnSpec("set_error", {"msg": "any", "exc_info": "any"}, self_type=S),
            FnSpec("get_error", {}, ret="bool", self_type=S),
            FnSpec("get_error_msg", {}, ret="any", self_type=S),
            FnSpec("get_error_exc_info", {}, ret="any", self_type=S),
            FnSpec("get_compute_frameworks", {}, ret=CFWS, self_type=S),
            FnSpec("set_artifact_to_save", {"artifact_name": "sid", "artifact": "objid"}, self_type=S),
            FnSpec("get_artifacts", {}, ret="dict[sid,objid]", self_type=S),
            FnSpec("set_api_data", {"api_data": API}, self_type=S, doc="the annotation says `Dict`; nothing stops a caller from passing None"),
            FnSpec("get_api_data_by_name", {"key": "sid"}, ret="any", self_type=S),
        ],
        getters={"cf_class.get_class_name": ("cf_class_name", "sid")},
        self_fields=dict(SELF_FIELDS),
        prelude=prelude,
        imports=["MlodaVerif.Model.PyRtDict"],
        opens=["PyRt"],
        fstring_text=True,
    )


def gen_cfw_manager() -> str:
    return ModuleTranslator(REPO, cfw_manager_spec()).run("Gen.CfwManagerGen")


GENERATORS = {"CfwManagerGen": gen_cfw_manager}
