"""C17 tables: DataType enum, strict / lenient compatibility, Arrow type mapping."""
from __future__ import annotations

from typing import Any, Callable

from harness.extract import lbool, llist, lstr

def gen_type_tables() -> str:
    import pyarrow as pa
    from mloda.core.abstract_plugins.components.data_types import DataType
    from mloda.core.abstract_plugins.components.validators.datatype_validator import DataTypeValidator

    members = [m.name for m in DataType]
    out = ["namespace Gen", "", "inductive DType where"]
    out += [f"  | {m}" for m in members]
    out += ["  deriving DecidableEq, Repr, Inhabited", ""]
    out.append("def DType.all : List DType := " + llist([f".{m}" for m in members]))
    out.append("def DType.name : DType → String")
    out += [f"  | .{m} => {lstr(m)}" for m in members]
    out.append("def DType.ofName? (s : String) : Option DType := DType.all.find? (fun d => d.name == s)")
    out.append("")

    def pairs(fn: Callable[[Any, Any], bool]) -> str:
        ps = [f"(.{d.name}, .{a.name})" for d in DataType for a in DataType if fn(d, a)]
        return llist(ps)

    out.append("/-- all (declared, actual) on which `DataTypeValidator._types_compatible` returns True -/")
    out.append("def strictPairs : List (DType × DType) := " + pairs(DataTypeValidator._types_compatible))
    out.append("/-- all (declared, actual) on which `DataTypeValidator._types_loosely_compatible` returns True -/")
    out.append("def loosePairs : List (DType × DType) := " + pairs(DataTypeValidator._types_loosely_compatible))
    out.append("def strictCompat (d a : DType) : Bool := strictPairs.contains (d, a)")
    out.append("def looseCompat (d a : DType) : Bool := loosePairs.contains (d, a)")
    out.append("")
    # to_arrow_type on every member, from_arrow_type on canonical + probe arrow types
    out.append("/-- `str(DataType.to_arrow_type(d))` -/")
    out.append("def toArrow : DType → String")
    for d in DataType:
        out.append(f"  | .{d.name} => {lstr(str(DataType.to_arrow_type(d)))}")
    probes = [
        pa.int8(), pa.int16(), pa.int32(), pa.int64(), pa.uint8(), pa.uint16(), pa.uint32(), pa.uint64(),
        pa.float16(), pa.float32(), pa.float64(), pa.bool_(), pa.string(), pa.large_string(), pa.binary(), pa.large_binary(),
        pa.date32(), pa.date64(), pa.timestamp("s"), pa.timestamp("ms"), pa.timestamp("us"), pa.timestamp("ns"),
        pa.timestamp("us", tz="UTC"), pa.decimal128(38, 18), pa.decimal128(10, 2), pa.list_(pa.int64()), pa.null(),
        pa.time32("s"), pa.duration("us"),
    ]  # fmt: skip
    rows = []
    for t in probes:
        try:
            r = f"some .{DataType.from_arrow_type(t).name}"
        except ValueError:
            r = "none"
        rows.append(f"({lstr(str(t))}, {r})")
    out.append("/-- `DataType.from_arrow_type` on probe Arrow types (`none` = raises ValueError: unsupported) -/")
    out.append("def fromArrowTable : List (String × Option DType) := " + llist(rows))
    out.append("def fromArrow (s : String) : Option DType := (fromArrowTable.find? (fun p => p.1 == s)).bind (·.2)")
    out.append("")
    out.append("end Gen")
    return "\n".join(out) + "\n"


GENERATORS = {"TypeTables": gen_type_tables}
