"""Translator targets (harness/pytrans.py): the link-ordering code - all of `LinkTrekker` and `ResolveLinks.add_links_to_queue`
(mloda/core/prepare/resolve_links.py), `ResolveLinkValidator.validate_data_consistency`, and `order_queue_by_trekker_order`,
`access_link_by_child_uuid`, `resolve_trekked_links`, `trekker_right_left_adjuster` of `ResolveComputeFrameworks`
(mloda/core/prepare/resolve_compute_frameworks.py).  The generated `Gen/LinkOrderGen.lean` is proved equal to the hand-written
`Model/LinkOrder.lean` in `Props/C04_gen2.lean`.

Representation:
  * a `Link` is a record `PLink` (uuid, jointype id, left / right feature-group class id); compute-framework classes are ids ("fw");
    a trekker key is the tuple `(Link, framework, framework)`.  `==` on links / keys is structural equality of the records.
    ASSUMED (as in the hand-written model, which identifies a link with one number): the links in play are the elements of one Python
    `set`, so two of them are `==` exactly when they are the same object, and different objects have different uuids.
  * the `set` objects stored in `LinkTrekker.data` / `data_ordered` / `order` are REFERENCES ("sref") into the heap of set objects
    (world variable `sheap`, `Model/PyRtRef.lean`): `create_data_ordered` stores the object of `data[k]` under `data_ordered[k]`, so the
    two entries hold the same handle and a later `add` / `remove` through either is seen through both - the aliasing that
    `Model/LinkOrder.lean` records in its `alias` flag is here a consequence of the heap semantics.
  * `data` is a `defaultdict(set)` ("kddict": a READ of a missing key inserts a new empty set object), `data_ordered` / `order` /
    `new_order` are `OrderedDict`s, `pos_marker` a dict with `int` keys ("kdict").
  * sets that stay local and hold records (`already_joined`, the sets of `issue_collector`) are values ("eset"); the one place where
    the iteration order of such a set is observable (`for dep_link in dependent_links`) takes it from the explicit input `ords`
    through `iterSet` - the same definition as `LinkOrder.iterSet` - exactly as the hand-written model does.
  * a planned-queue element is a `PEl` (feature-group entry | link entry), as in the model: every element is a tuple
    (`isinstance(p, tuple)` is `true`), `isinstance(p[0], Link)` is `PEl.isLink`, `p[0].uuid` is `PEl.linkUuid` (AttributeError for a
    feature-group entry).  `link.jointype == JoinType.RIGHT` / `link.jointype in JoinType`: jointype ids are the positions of the
    members in the enum `JoinType` as it is in /repo now (`jtRight`, `jtCount` below are read from it).
  * the nested function `adjust_order` of `drop_dependency_in_case_of_circular_dependencies` is translated as a function of its own;
    its closure variables `self` and `k_in` (the loop variable of the ENCLOSING function that the body reads instead of its parameter
    `k_int`) are parameters, the call site passes the current values."""
from __future__ import annotations

import ast

from harness.extract import REPO
from harness.pytrans import Extern, FnSpec, ModuleSpec, ModuleTranslator

NS = "Gen.LinkOrderGen"
KEY = "tuple[link,fw,fw]"
DATA = f"kddict[{KEY},sref]"
DORD = f"kdict[{KEY},sref]"
ORDER = "kdict[uuid,sref]"
TRK_FIELDS = {"data": DATA, "data_ordered": DORD, "order": ORDER}
TYPES = {"link": "PLink", "fw": "Nat", "trekker": "Trk.TrekkerSelf", "pel": "PEl", "qitems": "List QItem"}
OBJ_FIELDS = {"link": {"uuid": "uuid", "jointype": "nat"}, "trekker": dict(TRK_FIELDS)}


def src(text: str) -> str:
    return ast.unparse(ast.parse(text, mode="eval").body)


def join_types() -> tuple:
    import sys

    sys.path.insert(0, str(REPO))
    from mloda.core.abstract_plugins.components.link import JoinType

    members = [m.name for m in JoinType]
    return members.index("RIGHT"), len(members), members


COMMON = dict(
    types=dict(TYPES),
    obj_fields=dict(OBJ_FIELDS),
    eq_types=["link", "fw"],
    opens=["PyRt"],
    set_refs=True,
    local_decl=True,
    narrow=True,
    fstring_text=True,
)


def prelude() -> str:
    right, count, members = join_types()
    return f"""/-- a `Link` as far as the ordering code looks at it -/
structure PLink where
  uuid : Nat
  jointype : Nat
  left_fg : Nat
  right_fg : Nat
  deriving DecidableEq, Repr

/-- `LinkFrameworkTrekker = (Link, left framework, right framework)` -/
abbrev PKey := PLink × Nat × Nat

/-- the members of `JoinType` in /repo, in definition order: {members}; a jointype id is the position of the member -/
def jtCount : Nat := {count}
/-- `JoinType.RIGHT` -/
def jtRight : Nat := {right}

/-- an element of the planned queue: a feature-group entry `(class, features)` or a link entry `(Link, left, right)` -/
inductive PEl where
  | fg (id : Nat)
  | link (k : PKey)
  deriving DecidableEq, Repr

/-- `isinstance(p[0], Link)` -/
def PEl.isLink : PEl → Bool
  | .fg _ => false
  | .link _ => true

/-- `p[0].uuid` (a feature-group class has no `uuid`) -/
def PEl.linkUuid : PEl → Except PyExc Nat
  | .fg _ => .error .attributeError
  | .link k => .ok k.1.uuid

/-- an element of `queue_with_link`: a feature uuid or a trekker key -/
inductive QItem where
  | uuid (u : Nat)
  | link (k : PKey)
  deriving DecidableEq, Repr

/-- iteration order of a set of records: `ord` (what the real set yields) when it enumerates the set without repetition, the
insertion order otherwise (the definition of `LinkOrder.iterSet`) -/
def iterSet {{α : Type}} [DecidableEq α] (ord s : List α) : List α :=
  if ord.Nodup ∧ (∀ x ∈ ord, x ∈ s) ∧ (∀ x ∈ s, x ∈ ord) then ord else s
"""


def validator_spec() -> ModuleSpec:
    return ModuleSpec(
        path="mloda/core/prepare/validators/resolve_link_validator.py",
        cls="ResolveLinkValidator",
        functions=[FnSpec("validate_data_consistency", {"data": DATA, "data_ordered": DORD})],
        imports=["MlodaVerif.Model.PyRtRef"],
        prelude=prelude(),
        **COMMON,  # type: ignore[arg-type]
    )


def trekker_spec(val_mt: ModuleTranslator) -> ModuleSpec:
    S = "TrekkerSelf"
    k3 = {"link": "link", "left_cfw": "fw", "right_cfw": "fw"}
    return ModuleSpec(
        path="mloda/core/prepare/resolve_links.py",
        cls="LinkTrekker",
        functions=[
            FnSpec("__init__", {}, lean_name="init", self_type=S, doc="the three empty containers (whatever `self` was before)"),
            FnSpec("update", {"key": KEY, "value": "uuid"}, self_type=S),
            FnSpec("get_position", dict(k3), ret="nat", self_type=S),
            FnSpec("insert_at_position", {"key": KEY, "value": "sref", "position": "nat"}, self_type=S),
            FnSpec("invert_link", {**k3, "uuid": "uuid"}, self_type=S),
            FnSpec(
                "adjust_order",
                {"data": DATA, "k_out": "uuid", "k_int": "uuid"},
                self_type=S,
                nested_in="drop_dependency_in_case_of_circular_dependencies",
                closure={"k_in": "uuid"},
                local_types={"found_out": "opt[tuple[uuid,sref]]", "found_in": "opt[tuple[uuid,sref]]", "k_to_drop": "uuid", "k_not_to_drop": "uuid"},
                doc="nested in `drop_dependency_in_case_of_circular_dependencies`; `k_in` is the loop variable of the enclosing function that the body reads (not its parameter `k_int`)",
            ),
            FnSpec("drop_dependency_in_case_of_circular_dependencies", {}, self_type=S),
            FnSpec(
                "order_ordered_ids_by_relation",
                {},
                self_type=S,
                local_types={"new_order": ORDER, "pos_marker": "kdict[nat,tuple[uuid,sref]]", "latest_position": "opt[nat]"},
            ),
            FnSpec("order_links_by_frameworks", {}, self_type=S),
            FnSpec("create_data_ordered", {}, self_type=S),
            FnSpec("get_ordered_data", {}, ret=DORD, self_type=S),
        ],
        self_fields=dict(TRK_FIELDS),
        extern={"ResolveLinkValidator.validate_data_consistency": Extern(val_mt, "validate_data_consistency")},
        imports=[],
        prelude=(
            "/-- the fields of a `LinkTrekker`; the values are HANDLES of set objects in the heap `sheap` -/\n"
            "structure TrekkerSelf where\n  data : KDict PKey Nat\n  data_ordered : KDict PKey Nat\n  order : KDict Nat Nat\n  deriving DecidableEq, Repr\n"
        ),
        **COMMON,  # type: ignore[arg-type]
    )


def resolve_links_spec(trk_mt: ModuleTranslator) -> ModuleSpec:
    return ModuleSpec(
        path="mloda/core/prepare/resolve_links.py",
        cls="ResolveLinks",
        functions=[
            FnSpec(
                "add_links_to_queue",
                {},
                ret="qitems",
                self_type="RLSelf",
                local_types={"queue_with_link": "qitems", "already_joined": f"eset[{KEY}]"},
            ),
        ],
        self_fields={"graph.queue": "natlist", "link_trekker": "trekker"},
        field_names={"graph.queue": "queue"},
        extern={"self.link_trekker.get_ordered_data": Extern(trk_mt, "get_ordered_data")},
        list_coerce={("qitems", KEY): "(QItem.link {})", ("qitems", "nat"): "(QItem.uuid {})", ("qitems", "uuid"): "(QItem.uuid {})"},
        imports=[],
        prelude="/-- what `add_links_to_queue` reads from a `ResolveLinks`: `graph.queue` and the trekker -/\nstructure RLSelf where\n  queue : List Nat\n  link_trekker : Trk.TrekkerSelf\n  deriving DecidableEq, Repr\n",
        **COMMON,  # type: ignore[arg-type]
    )


def rcf_spec(trk_mt: ModuleTranslator) -> ModuleSpec:
    S = "RcfSelf"
    return ModuleSpec(
        path="mloda/core/prepare/resolve_compute_frameworks.py",
        cls="ResolveComputeFrameworks",
        functions=[
            FnSpec(
                "order_queue_by_trekker_order",
                {"planned_queue": "list[pel]", "link_trekker": "trekker"},
                ret="list[pel]",
                extra_params=[("ords", "Nat → List PEl")],
                local_types={"new_planned_queue": "list[pel]", "link_already_added": "set", "issue_collector": "kddict[uuid,eset[pel]]"},
                doc="`ords k`: the iteration order of the set `issue_collector[k]` (used when it enumerates that set, see `iterSet`); `self` is not used",
            ),
            FnSpec("access_link_by_child_uuid", {"child_uuid": "uuid", "link_trekker": "trekker"}, ret=f"list[{KEY}]", local_types={"link_framework_trekker": f"list[{KEY}]"}, doc="a classmethod"),
            FnSpec("resolve_trekked_links", {"trekked_links": f"list[{KEY}]", "compute_frameworks": "set"}, ret="set", self_type=S, local_types={"new_cfws": "set"}),
            FnSpec("trekker_right_left_adjuster", {"link_trekker": "trekker", "feature_uuids": "set"}, self_type=S),
        ],
        self_fields={"to_invert_trekker_collection": f"list[{KEY}]"},
        extern={"link_trekker.invert_link": Extern(trk_mt, "invert_link")},
        isinstance_map={("p", "tuple"): "true", ("p[0]", "Link"): "(PEl.isLink p)"},
        expr_map={
            src("p[0].uuid"): ("(← PEl.linkUuid p)", "uuid"),
            src("dep_link[0].uuid"): ("(← PEl.linkUuid dep_link)", "uuid"),
            src("JoinType.RIGHT"): ("jtRight", "nat"),
            src("link.jointype in JoinType"): ("(decide (link.jointype < jtCount))", "bool"),
            src("[member.value for member in JoinType]"): ("()", "unit"),
        },
        iter_map={"for dep_link in dependent_links": ("(iterSet (ords k) dependent_links)", "pel")},
        imports=[],
        prelude="/-- the field of a `ResolveComputeFrameworks` the translated methods use -/\nstructure RcfSelf where\n  to_invert_trekker_collection : List PKey\n  deriving DecidableEq, Repr\n",
        **COMMON,  # type: ignore[arg-type]
    )


def gen_link_order() -> str:
    val_mt = ModuleTranslator(REPO, validator_spec())
    parts = [val_mt.run(f"{NS}")]
    trk_mt = ModuleTranslator(REPO, trekker_spec(val_mt))
    parts.append(trk_mt.run(f"{NS}.Trk"))
    rl_mt = ModuleTranslator(REPO, resolve_links_spec(trk_mt))
    parts.append(rl_mt.run(f"{NS}.RL"))
    rcf_mt = ModuleTranslator(REPO, rcf_spec(trk_mt))
    parts.append(rcf_mt.run(f"{NS}.Rcf"))
    return "\n".join(parts)


GENERATORS = {"LinkOrderGen": gen_link_order}
