"""Translator targets (harness/pytrans.py): the rest of `Options` (options.py: `__init__`, `add`, `add_to_group`, `add_to_context`,
`__eq__`, `update_with_protected_keys`; `get` / `items` again because the others call them), all of `OptionsValidator`
(validators/options_validator.py) and `Features.merge_options` (feature_collection.py).  The generated `Gen/OptionsGen.lean` is
proved equal to the hand-written `Model/Options.lean` in `Props/C15_gen2.lean`.

Representation (what makes the bridge direct): an `Options` object is the model's structure `Options` (`group`, `context` : `PyDict`,
`propagate` : the frozenset of `str` as a list); option values are `PyVal`s, `==` / `!=` on them are `PyVal.pyEq` / `pyNe`, truthiness
`PyVal.truthy`, iteration `PyVal.iter`; a `set` that can receive arbitrary option values (`protected_keys`) is a `PySet`
(`List PyVal`, `add` raises TypeError for an unhashable element); `set(d.keys())` is a `StrSet`.  `DefaultOptionKeys.<member>` is the
string constant the extractor `c15.py` reads from the enum (`Gen.OptionConsts`).  `_make_hashable` / `hash` stay hand-modelled.

`exc_state=True`: the methods mutate `self` (or the `feature_options` argument) BEFORE a later statement raises, and the model's
operations return the state after the call AND the error - so a raising translated function returns `(exception, state at the raise)`.

ASSUMED (as in the model): `self` and `other` / `feature_options` and `child_options` are different objects (values); the dicts handed
to `__init__` are not shared with another `Options` object."""
from __future__ import annotations

from harness.extract import REPO
from harness.pytrans import Extern, FnSpec, ModuleSpec, ModuleTranslator

NS = "Gen.OptionsGen"
OPT_FIELDS = {"group": "dict", "context": "dict", "propagate_context_keys": "strset"}
FIELD_NAMES = {"propagate_context_keys": "propagate"}
EXPR_MAP = {
    "DefaultOptionKeys.in_features": ("Gen.OptionConsts.inFeaturesKey", "str"),
    "DefaultOptionKeys.feature_chainer_parser_key": ("Gen.OptionConsts.chainerKey", "str"),
}
COMMON = dict(
    types={"options": "Options"},
    obj_fields={"options": dict(OPT_FIELDS)},
    obj_field_names={"options": dict(FIELD_NAMES)},
    opens=["PyRt"],
    fstring_text=True,
    fstring_eval=True,
    exc_state=True,
    local_decl=True,
    narrow=True,
    rt_names={"PyDict.getItem": "PyDict.getItemE"},
)


def validator_spec() -> ModuleSpec:
    d4 = {"key": "str", "value": "pyval", "group": "dict", "context": "dict"}
    return ModuleSpec(
        path="mloda/core/abstract_plugins/components/validators/options_validator.py",
        cls="OptionsValidator",
        functions=[
            FnSpec("validate_no_duplicate_keys", {"group": "dict", "context": "dict"}),
            FnSpec("validate_can_add_to_group", dict(d4)),
            FnSpec("validate_can_add_to_context", dict(d4)),
            FnSpec("validate_propagate_keys_in_context", {"keys": "strset", "context": "dict"}),
            FnSpec("validate_no_context_group_conflicts", {"other_context_keys": "strset", "self_group_keys": "strset"}),
            FnSpec("validate_no_group_context_conflicts", {"other_group_keys": "strset", "self_context_keys": "strset"}),
        ],
        imports=["MlodaVerif.Model.PyRtVal", "MlodaVerif.Model.Options"],
        **COMMON,  # type: ignore[arg-type]
    )


def options_spec(val_mt: ModuleTranslator) -> ModuleSpec:
    S = "Options"
    V = "OptionsValidator."
    return ModuleSpec(
        path="mloda/core/abstract_plugins/components/options.py",
        cls="Options",
        functions=[
            FnSpec("get", {"key": "str"}, ret="pyval", self_type=S),
            FnSpec("items", {}, ret="items", self_type=S),
            FnSpec("add_to_group", {"key": "str", "value": "pyval"}, self_type=S),
            FnSpec("add_to_context", {"key": "str", "value": "pyval"}, self_type=S),
            FnSpec("add", {"key": "str", "value": "pyval"}, self_type=S),
            FnSpec(
                "__init__",
                {"group": "opt[dict]", "context": "opt[dict]", "propagate_context_keys": "opt[strset]"},
                lean_name="init",
                self_type=S,
                doc="the three assignments and the two constructor validations (whatever `self` was before)",
            ),
            FnSpec("__eq__", {"other": "options"}, ret="bool", lean_name="eq", self_type=S, doc="`other` is an `Options` object (`isinstance(other, Options)` holds)"),
            FnSpec(
                "update_with_protected_keys",
                {"other": "options", "protected_keys": "opt[pyset]"},
                self_type=S,
                defaults={"protected_keys": ("None", "none")},
                doc="`protected_keys`: None or a set of hashable values (the annotation says `Set[str] | None`)",
            ),
        ],
        self_fields=dict(OPT_FIELDS),
        field_names=dict(FIELD_NAMES),
        extern={V + f.py_name: Extern(val_mt, f.py_name) for f in val_mt.spec.functions},
        isinstance_map={("other", "Options"): "true"},
        expr_map=dict(EXPR_MAP),
        imports=[],
        **COMMON,  # type: ignore[arg-type]
    )


def features_spec(opt_mt: ModuleTranslator) -> ModuleSpec:
    return ModuleSpec(
        path="mloda/core/abstract_plugins/components/feature_collection.py",
        cls="Features",
        functions=[
            FnSpec("merge_options", {"feature_options": "options", "child_options": "options"}, local_types={"protected_keys": "pyset"}, doc="`self` (the `Features` collection) is not used"),
        ],
        extern={
            "feature_options.get": Extern(opt_mt, "get"),
            "feature_options.items": Extern(opt_mt, "items"),
            "child_options.items": Extern(opt_mt, "items"),
            "feature_options.update_with_protected_keys": Extern(opt_mt, "update_with_protected_keys"),
        },
        expr_map=dict(EXPR_MAP),
        imports=[],
        **COMMON,  # type: ignore[arg-type]
    )


def gen_options_gen() -> str:
    val_mt = ModuleTranslator(REPO, validator_spec())
    parts = [val_mt.run(f"{NS}.Val")]
    opt_mt = ModuleTranslator(REPO, options_spec(val_mt))
    parts.append(opt_mt.run(f"{NS}.Opt"))
    feat_mt = ModuleTranslator(REPO, features_spec(opt_mt))
    parts.append(feat_mt.run(f"{NS}.Feat"))
    return "\n".join(parts)


GENERATORS = {"OptionsGen": gen_options_gen}
