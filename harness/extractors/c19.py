"""C19 vocabularies: operation names of the four multi-framework built-in groups, naming patterns, and which framework
implementations of each group exist / are importable in this environment.  Written to Gen/BuiltinVocab.lean."""
from __future__ import annotations

import importlib
from typing import Any, Dict, List, Tuple

from harness.extract import lbool, llist, lstr

BASE = "mloda_plugins.feature_group.experimental."
# (family, base module, base class, {framework short name: (module suffix, class name)})
FAMILIES: List[Tuple[str, str, str, Dict[str, Tuple[str, str]]]] = [
    ("aggr", "aggregated_feature_group", "AggregatedFeatureGroup",
     {"pd": ("pandas", "PandasAggregatedFeatureGroup"), "pa": ("pyarrow", "PyArrowAggregatedFeatureGroup"), "py": ("python_dict", "PythonDictAggregatedFeatureGroup")}),
    ("impute", "data_quality.missing_value", "MissingValueFeatureGroup",
     {"pd": ("pandas", "PandasMissingValueFeatureGroup"), "pa": ("pyarrow", "PyArrowMissingValueFeatureGroup"), "py": ("python_dict", "PythonDictMissingValueFeatureGroup")}),
    ("window", "time_window", "TimeWindowFeatureGroup",
     {"pd": ("pandas", "PandasTimeWindowFeatureGroup"), "pa": ("pyarrow", "PyArrowTimeWindowFeatureGroup"), "py": ("python_dict", "PythonDictTimeWindowFeatureGroup")}),
    ("text", "text_cleaning", "TextCleaningFeatureGroup",
     {"pd": ("pandas", "PandasTextCleaningFeatureGroup"), "pa": ("pyarrow", "PyArrowTextCleaningFeatureGroup"), "py": ("python_dict", "PythonDictTextCleaningFeatureGroup")}),
]  # fmt: skip
FW_CLASS = {"pd": "PandasDataFrame", "pa": "PyArrowTable", "py": "PythonDictFramework"}


def load_impl(family: str, fw: str) -> Any:
    """The implementation class of `family` for framework `fw`, or None when it does not exist / cannot be imported /
    does not declare that framework."""
    for fam, mod, _base, impls in FAMILIES:
        if fam != family:
            continue
        suffix, cname = impls[fw]
        try:
            m = importlib.import_module(BASE + mod + "." + suffix)
            cls = getattr(m, cname)
            rule = cls.compute_framework_rule()
            if not isinstance(rule, set) or FW_CLASS[fw] not in {c.__name__ for c in rule}:
                return None
            return cls
        except Exception:
            return None
    return None


def load_base(family: str) -> Any:
    for fam, mod, base, _ in FAMILIES:
        if fam == family:
            return getattr(importlib.import_module(BASE + mod + ".base"), base)
    raise KeyError(family)


def vocab() -> Dict[str, Any]:
    """Everything the check needs from the code, as plain data (also used by harness/corr/c19.py)."""
    import string

    ag, mv, tw, tc = (load_base(f) for f in ("aggr", "impute", "window", "text"))
    try:
        import nltk  # noqa: F401

        nltk_ok = True
    except Exception:
        nltk_ok = False
    return {
        "aggr_ops": list(ag.AGGREGATION_TYPES.keys()),
        "impute_ops": list(mv.IMPUTATION_METHODS.keys()),
        "window_ops": list(tw.WINDOW_FUNCTIONS.keys()),
        "time_units": list(tw.TIME_UNITS.keys()),
        "text_ops": list(tc.SUPPORTED_OPERATIONS.keys()),
        "patterns": {"aggr": ag.PREFIX_PATTERN, "impute": mv.PREFIX_PATTERN, "window": tw.PREFIX_PATTERN, "text": tc.PREFIX_PATTERN},
        "option_keys": {"aggr": ag.AGGREGATION_TYPE, "impute": mv.IMPUTATION_METHOD, "text": tc.CLEANING_OPERATIONS,
                        "window": [tw.WINDOW_FUNCTION, tw.WINDOW_SIZE, tw.TIME_UNIT]},  # fmt: skip
        "impls": {fam: [fw for fw in ("pd", "pa", "py") if load_impl(fam, fw) is not None] for fam, *_ in FAMILIES},
        "nltk": nltk_ok,
        "punctuation": string.punctuation,
    }


def gen_builtin_vocab() -> str:
    v = vocab()
    out = ["namespace Gen.BuiltinVocab", ""]
    out.append("/-- keys of `AggregatedFeatureGroup.AGGREGATION_TYPES`, in definition order -/")
    out.append("def aggregationTypes : List String := " + llist([lstr(s) for s in v["aggr_ops"]]))
    out.append("/-- keys of `MissingValueFeatureGroup.IMPUTATION_METHODS` -/")
    out.append("def imputationMethods : List String := " + llist([lstr(s) for s in v["impute_ops"]]))
    out.append("/-- keys of `TimeWindowFeatureGroup.WINDOW_FUNCTIONS` -/")
    out.append("def windowFunctions : List String := " + llist([lstr(s) for s in v["window_ops"]]))
    out.append("/-- keys of `TimeWindowFeatureGroup.TIME_UNITS` -/")
    out.append("def timeUnits : List String := " + llist([lstr(s) for s in v["time_units"]]))
    out.append("/-- keys of `TextCleaningFeatureGroup.SUPPORTED_OPERATIONS` -/")
    out.append("def cleaningOperations : List String := " + llist([lstr(s) for s in v["text_ops"]]))
    out.append("/-- `PREFIX_PATTERN` of each family -/")
    out.append("def prefixPatterns : List (String × String) := " + llist([f"({lstr(k)}, {lstr(p)})" for k, p in v["patterns"].items()]))
    out.append("/-- per family: the frameworks (pd = PandasDataFrame, pa = PyArrowTable, py = PythonDictFramework) whose implementation")
    out.append("    class exists, imports here and declares that framework in `compute_framework_rule` -/")
    out.append("def implementations : List (String × List String) := " + llist([f"({lstr(k)}, {llist([lstr(x) for x in fws])})" for k, fws in v["impls"].items()]))
    out.append("/-- `import nltk` succeeds (otherwise `remove_stopwords` is the identity in both text implementations) -/")
    out.append("def nltkAvailable : Bool := " + lbool(v["nltk"]))
    out.append("/-- Python's `string.punctuation` (what `remove_punctuation` deletes) -/")
    out.append("def punctuation : String := " + lstr(v["punctuation"]))
    out += ["", "end Gen.BuiltinVocab"]
    return "\n".join(out) + "\n"


GENERATORS = {"BuiltinVocab": gen_builtin_vocab}
