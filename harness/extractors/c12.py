"""C12/C05 table: which merge_* method BaseMergeEngine.merge calls for every JoinType member, and in which argument order."""
from __future__ import annotations

from typing import Any, Dict, List, Tuple

from harness.extract import lbool, llist, lstr


def probe_dispatch() -> Tuple[List[Tuple[str, str, str, bool]], str]:
    """Drive the real BaseMergeEngine.merge with a recording subclass.

    Returns ([(member name, member value, method called or 'raise:<Type>', arguments passed through in order)], outcome
    for a non-member join type)."""
    from mloda.core.abstract_plugins.components.merge.base_merge_engine import BaseMergeEngine
    from mloda.core.abstract_plugins.components.link import JoinType
    from mloda.core.abstract_plugins.components.index.index import Index

    calls: List[Tuple[str, tuple]] = []

    def rec(name: str) -> Any:
        def m(self: Any, left_data: Any, right_data: Any, left_index: Any, right_index: Any) -> Any:
            calls.append((name, (left_data, right_data, left_index, right_index)))
            return ("ret", name)

        return m

    ns: Dict[str, Any] = {n: rec(n) for n in dir(BaseMergeEngine) if n.startswith("merge_")}
    Rec = type("RecordingMergeEngine", (BaseMergeEngine,), ns)
    L, R = object(), object()
    li, ri = Index(("l",)), Index(("r",))
    rows = []
    for jt in JoinType:
        calls.clear()
        try:
            ret = Rec().merge(L, R, jt, li, ri)
            if len(calls) != 1 or ret != ("ret", calls[0][0]):
                rows.append((jt.name, str(jt.value), f"calls:{len(calls)}", False))
                continue
            name, args = calls[0]
            in_order = args[0] is L and args[1] is R and args[2] is li and args[3] is ri
            rows.append((jt.name, str(jt.value), name, in_order))
        except Exception as e:  # noqa: BLE001
            rows.append((jt.name, str(jt.value), "raise:" + type(e).__name__, False))
    calls.clear()
    try:
        Rec().merge(L, R, "not-a-join-type", li, ri)  # type: ignore[arg-type]
        other = "calls:" + ",".join(c[0] for c in calls)
    except Exception as e:  # noqa: BLE001
        other = "raise:" + type(e).__name__
    return rows, other


def gen_join_dispatch() -> str:
    rows, other = probe_dispatch()
    out = ["namespace Gen", ""]
    out.append("/-- for every member of `JoinType` (name, value): the `merge_*` method `BaseMergeEngine.merge` calls on a recording")
    out.append("subclass, and whether (left_data, right_data, left_index, right_index) were passed through in that order -/")
    out.append("def joinDispatch : List (String × String × String × Bool) := " + llist([f"({lstr(n)}, {lstr(v)}, {lstr(m)}, {lbool(o)})" for n, v, m, o in rows]))
    out.append("/-- outcome of `merge` for a join type that is not a member -/")
    out.append("def joinDispatchOther : String := " + lstr(other))
    out.append("")
    out.append("end Gen")
    return "\n".join(out) + "\n"


GENERATORS = {"JoinDispatch": gen_join_dispatch}
