"""C07 table: API defaults the session model depends on (read from the signatures in /repo)."""
from __future__ import annotations

import inspect

from harness.extract import lbool, llist, lstr


def gen_session_api() -> str:
    from mloda.core.api.request import mlodaAPI

    rows = []
    for fn_name in ("__init__", "prepare", "run_all"):
        sig = inspect.signature(getattr(mlodaAPI, fn_name))
        d = sig.parameters["copy_features"].default
        rows.append(f"({lstr(fn_name)}, {lbool(bool(d))})")
    modes = []
    for fn_name in ("run", "stream_run", "run_all"):
        sig = inspect.signature(getattr(mlodaAPI, fn_name))
        d = sig.parameters["parallelization_modes"].default
        modes.append(f"({lstr(fn_name)}, {llist([lstr(m.name) for m in sorted(d, key=lambda m: m.name)])})")
    api_defaults = []
    for fn_name in ("run", "stream_run"):
        sig = inspect.signature(getattr(mlodaAPI, fn_name))
        api_defaults.append(f"({lstr(fn_name)}, {lbool(sig.parameters['api_data'].default is None)})")
    out = ["namespace Gen", ""]
    out.append("/-- default of `copy_features` per entry point -/")
    out.append("def copyFeaturesDefaults : List (String × Bool) := " + llist(rows))
    out.append("/-- default `parallelization_modes` per entry point -/")
    out.append("def modeDefaults : List (String × List String) := " + llist(modes))
    out.append("/-- `api_data` defaults to None (= use the stored api data) -/")
    out.append("def apiDataDefaultsNone : List (String × Bool) := " + llist(api_defaults))
    out += ["", "end Gen"]
    return "\n".join(out) + "\n"


GENERATORS = {"SessionApi": gen_session_api}
