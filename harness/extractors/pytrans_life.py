"""Translator targets (harness/pytrans.py): the data-lifecycle code - `DataLifecycleManager` (data_lifecycle_manager.py), the
orchestrator's drop functions (run.py), the queue side of `WorkerManager` (worker_manager.py), the drop / stop handlers and the
command loop body of the multiprocessing worker (multiprocessing_worker.py) and the three `ComputeFramework` methods they reach
(`add_already_calculated_children_and_drop_if_possible`, `drop_last_data`, `drop_data`).  The generated `Gen/LifecycleGen.lean`
is proved equal to the hand-written `Model/Lifecycle.lean` in `Props/C09_gen2.lean`.

Representation choices (what makes the bridge to `Life` direct):
  * uuids / step uuids / flight-store keys are `Nat`; `str(<uuid>)` IS the key (same `Nat`) - `expr_map` entries below;
  * a compute-framework object is a VALUE `CfwObj` (the five attributes the code reads / writes); a local `cfw = d[k]` aliases the
    dict entry: after a mutating call the entry is re-stored (pytrans write-back).  ASSUMED: distinct keys of
    `executor.cfw_collection` hold distinct objects (true: `init_compute_framework` creates one object per uuid);
  * `cfw.data` is a `PData` (None / key string / table);
  * `multiprocessing.Queue`s are handles into the world variable `qheap`; the flight store is the world variable `store`;
    what a worker process puts into a result queue while `wait_for_drop_completion` polls is the world variable `sched`
    (one entry per loop iteration that fits into the timeout - the `while time.time() - start_time < timeout` test is
    "the schedule is not used up");
  * messages are `QMsg`s (run-time library `Model/PyRtObj.lean`); the few expressions that look INTO a message
    (`isinstance(msg, tuple) and …`, `command == "STOP"`, `UUID(result_uuid)`) are mapped as a whole - a change of their
    source text is an unknown expression and stops the build;
  * opaque: `get_result_data` (value and failure are oracle parameters), `_execute_command` (its outcome is the oracle `res`,
    its effect on the object is `Worker.executeCommand` of the prelude), `cfw.upload_finished_data` (`Worker.uploadFinished`).
"""
from __future__ import annotations

import ast

from harness.extract import REPO
from harness.extractors.pytrans_cfw import cfw_manager_spec
from harness.pytrans import Extern, FnSpec, Method, ModuleSpec, ModuleTranslator, Opaque, Unsupported

NS = "Gen.LifecycleGen"
OPT_LOC = "opt[sid]"
COLL = "dict[uuid,cfwobj]"
TRIPLE = "tuple[objid,queue,queue]"
REG = f"dict[uuid,{TRIPLE}]"

CFWOBJ_FIELDS = {"uuid": "uuid", "children_if_root": "set", "already_calculated_children_tracker": "set", "data": "pdata", "object_ids": "natlist"}
TYPES = {"cfwobj": "Cfw.CfwObj", "dlm": "Dlm.Dlm", "wm": "Wm.Wm", "cfwmgr": "Gen.CfwManagerGen.CfwMgr", "stepres": "Worker.StepRes"}
OBJ_FIELDS = {"cfwobj": dict(CFWOBJ_FIELDS)}

STORE = ("store", "set", True)
QHEAP = ("qheap", "qheap", True)
SCHED = ("sched", "sched", True)


def src(text: str) -> str:
    """the key `expr_map` uses for a source expression"""
    return ast.unparse(ast.parse(text, mode="eval").body)


def q_put(block_kw: bool) -> Method:
    return Method("QHeap.put", recv="queue", args=["qmsg"], world=[QHEAP], kwargs={"block": False} if block_kw else {})


DROP_TABLES = Method("FlightStore.dropTables", args=[OPT_LOC, "set"], monadic=True, world=[STORE])


def cfw_spec() -> ModuleSpec:
    return ModuleSpec(
        path="mloda/core/abstract_plugins/compute_framework.py",
        cls="ComputeFramework",
        functions=[
            FnSpec("drop_data", {"table_keys": "set", "location": OPT_LOC}, self_type="CfwObj", doc="the annotation says `str`; `drop_last_data` hands its Optional location on"),
            FnSpec("drop_last_data", {"location": OPT_LOC}, self_type="CfwObj"),
            FnSpec("add_already_calculated_children_and_drop_if_possible", {"children": "set", "location": OPT_LOC}, ret="boolorset", self_type="CfwObj"),
        ],
        self_fields=dict(CFWOBJ_FIELDS),
        methods={"FlightServer.drop_tables": DROP_TABLES},
        isinstance_map={("self.data", "str"): "(PData.isStr self.data)"},
        expr_map={src("{self.data}"): ("(← PData.keySet self.data)", "set")},
        imports=["MlodaVerif.Model.PyRtObj", "MlodaVerif.Gen.CfwManagerGen"],
        prelude=(
            "/-- the attributes of a compute-framework object the lifecycle code reads and writes -/\n"
            "structure CfwObj where\n  uuid : Nat\n  children_if_root : PSet\n  already_calculated_children_tracker : PSet\n  data : PData\n  object_ids : List Nat\n  deriving DecidableEq, Repr\n"
        ),
    )


def dlm_spec(cfw_mt: ModuleTranslator) -> ModuleSpec:
    return ModuleSpec(
        path="mloda/core/runtime/data_lifecycle_manager.py",
        cls="DataLifecycleManager",
        functions=[
            FnSpec("drop_cfw_data", {"cfw_uuid": "uuid", "cfw_collection": COLL, "location": OPT_LOC}, self_type="Dlm"),
            FnSpec("drop_data_for_finished_cfws", {"finished_ids": "set", "cfw_collection": COLL, "location": OPT_LOC}, self_type="Dlm"),
            FnSpec("track_flyway_datasets", {"cfw_uuid": "uuid", "datasets": "set"}, self_type="Dlm"),
            FnSpec(
                "add_to_result_data_collection",
                {"cfw": "cfwobj", "features": "obj", "step_uuid": "uuid", "location": OPT_LOC},
                self_type="Dlm",
                extra_params=[("requested", "PSet")],
                doc="`requested` is `features.get_initial_requested_features()`; `get_result_data` is opaque: `resultData` is what it returns, `getResultRaises` whether it raises",
            ),
            FnSpec("get_results", {}, ret="natlist", self_type="Dlm"),
            FnSpec("pop_result_data_collection", {}, ret="yield[tuple[uuid,objid]]", self_type="Dlm", doc="a generator: the list of everything it yields when it is drained, and the state afterwards"),
        ],
        self_fields={"result_data_collection": "dict[uuid,objid]", "track_data_to_drop": "dict[uuid,set]"},
        types=dict(TYPES),
        obj_fields=dict(OBJ_FIELDS),
        extern={"cfw.drop_last_data": Extern(cfw_mt, "drop_last_data")},
        getters={"features.get_initial_requested_features": ("requested", "set")},
        opaque={"self.get_result_data": Opaque("get_result_data", returns="opt[objid]", oracle="resultData", may_raise="getResultRaises")},
        narrow=True,
        imports=[],
        prelude=(
            "/-- the fields of a `DataLifecycleManager` but `artifacts`, `transformer`, `column_ordering` -/\n"
            "structure Dlm where\n  result_data_collection : NDict Nat\n  track_data_to_drop : NDict PSet\n  deriving DecidableEq, Repr\n"
        ),
    )


DROP_COMPLETE_TEST = src("isinstance(msg, tuple) and len(msg) == 2 and msg[0] == 'DROP_COMPLETE' and msg[1] == cfw_uuid")


def wm_spec() -> ModuleSpec:
    return ModuleSpec(
        path="mloda/core/runtime/worker_manager.py",
        cls="WorkerManager",
        functions=[
            FnSpec("get_process_queues", {"cfw_uuid": "uuid"}, ret=f"opt[{TRIPLE}]", self_type="Wm"),
            FnSpec("send_command", {"cfw_uuid": "uuid", "command": "qmsg"}, self_type="Wm"),
            FnSpec("poll_result_queues", {}, self_type="Wm", doc="`result_queues_collection` (a set of queue objects) is the list of its handles in iteration order"),
            FnSpec("is_step_done", {"step_uuid": "uuid"}, ret="bool", self_type="Wm"),
            FnSpec(
                "wait_for_drop_completion",
                {"result_queue": "queue", "cfw_uuid": "uuid", "timeout": "float"},
                self_type="Wm",
                defaults={"timeout": ("5.0", "()")},
                doc="`sched`: one entry per loop iteration that fits into the timeout = what arrived in the queue before that iteration's `get`",
            ),
        ],
        self_fields={"process_register": REG, "result_queues_collection": "qlist", "result_uuids_collection": "set"},
        types=dict(TYPES),
        methods={
            "command_queue.put": q_put(False),
            "r_queue.get": Method("QHeap.getNowait", recv="queue", ret="opt[qmsg]", world=[QHEAP], kwargs={"block": False}, none_is="queueEmpty"),
            "UUID": Method("QMsg.toUuid", args=["qmsg"], ret="uuid", monadic=True),
            "result_queue.get": Method("QHeap.getArr", recv="queue", ret="opt[qmsg]", world=[QHEAP, SCHED], kwargs={"block": False}, none_is="queueEmpty"),
            "result_queue.put": q_put(True),
        },
        isinstance_map={("result_uuid", "tuple"): "(QMsg.isTuple result_uuid)"},
        expr_map={
            "time.time()": ("()", "float"),
            src("time.time() - start_time < timeout"): ("!(sched.isEmpty)", "bool"),
            DROP_COMPLETE_TEST: ("(QMsg.isDropComplete msg cfw_uuid)", "bool"),
        },
        exc_types={"queue.Empty": "queueEmpty"},
        ignore_calls=["time.sleep", "logger.warning"],
        narrow=True,
        fstring_text=True,
        imports=[],
        prelude=(
            "/-- the fields of a `WorkerManager` the queue functions use: `process_register` (uuid ↦ (process, command queue, result queue)),\n"
            "the result queues in the iteration order of the set, the collected step uuids -/\n"
            "structure Wm where\n  process_register : NDict (Nat × Nat × Nat)\n  result_queues_collection : List Nat\n  result_uuids_collection : PSet\n  deriving DecidableEq, Repr\n"
        ),
    )


def orch_spec(cfw_mt: ModuleTranslator, dlm_mt: ModuleTranslator, wm_mt: ModuleTranslator, mgr_mt: ModuleTranslator) -> ModuleSpec:
    return ModuleSpec(
        path="mloda/core/runtime/run.py",
        cls="ExecutionOrchestrator",
        functions=[
            FnSpec("_drop_data_for_finished_cfws", {"finished_ids": "set"}, self_type="Orch"),
            FnSpec("_drop_remaining_flight_data", {}, self_type="Orch"),
            FnSpec("add_to_result_data_collection", {"cfw": "cfwobj", "features": "obj", "step_uuid": "uuid"}, self_type="Orch"),
            FnSpec("_wait_for_drop_completion", {"result_queue": "queue", "cfw_uuid": "uuid", "timeout": "float"}, self_type="Orch", defaults={"timeout": ("5.0", "()")}),
            FnSpec(
                "_drop_data_if_possible",
                {"cfw": "cfwobj", "step": "obj"},
                self_type="Orch",
                extra_params=[("stepFeatureUuids", "List Nat")],
                doc="`stepFeatureUuids`: the uuids of `step.features.features` in iteration order",
            ),
        ],
        self_fields={
            "location": OPT_LOC,
            "executor.cfw_collection": COLL,
            "data_lifecycle_manager": "dlm",
            "data_lifecycle_manager.track_data_to_drop": "dict[uuid,set]",
            "worker_manager": "wm",
            "worker_manager.process_register": REG,
            "cfw_register": "cfwmgr",
        },
        field_names={"executor.cfw_collection": "cfw_collection"},
        types=dict(TYPES),
        obj_fields=dict(OBJ_FIELDS),
        extern={
            "self.data_lifecycle_manager.drop_data_for_finished_cfws": Extern(dlm_mt, "drop_data_for_finished_cfws"),
            "self.data_lifecycle_manager.add_to_result_data_collection": Extern(dlm_mt, "add_to_result_data_collection"),
            "self.worker_manager.wait_for_drop_completion": Extern(wm_mt, "wait_for_drop_completion"),
            "self.cfw_register.get_uuid_flyway_datasets": Extern(mgr_mt, "get_uuid_flyway_datasets"),
            "cfw.add_already_calculated_children_and_drop_if_possible": Extern(cfw_mt, "add_already_calculated_children_and_drop_if_possible"),
        },
        methods={"FlightServer.drop_tables": DROP_TABLES, "command_queue.put": q_put(False)},
        attrs={"step.features.features": ("stepFeatureUuids", "natlist"), "f.uuid": ("f", "uuid")},
        isinstance_map={("data_to_drop", "frozenset"): "(BoolOrSet.isSet data_to_drop)"},
        expr_map={src("str(cfw_uuid)"): ("cfw_uuid", "uuid"), src("set(data_to_drop)"): ("(← BoolOrSet.toSet data_to_drop)", "set")},
        narrow=True,
        imports=[],
        prelude=(
            "/-- what the orchestrator's drop functions reach from `self`: `location`, `executor.cfw_collection`, the\n"
            "`DataLifecycleManager`, the `WorkerManager`, the `CfwManager` (`cfw_register`) -/\n"
            "structure Orch where\n  location : Option Nat\n  cfw_collection : NDict Cfw.CfwObj\n  data_lifecycle_manager : Dlm.Dlm\n  worker_manager : Wm.Wm\n  cfw_register : Gen.CfwManagerGen.CfwMgr\n"
        ),
    )


WORKER_PRELUDE = """/-- outcome of `_execute_command` (oracle): `execute` returned a table, returned the key string (run_calculation uploaded the
finished data and replaced `cfw.data` by the key), or raised -/
inductive StepRes where
  | table
  | key
  | raise
  deriving DecidableEq, Repr

/-- `_execute_command(command, cfw_register, cfw, data, from_cfw)` as far as the lifecycle code can see it: the object afterwards,
the flight store afterwards (opaque callee; this is its assumed effect, the same one `Life.wstep` assumes) -/
def executeCommand (store : PSet) (_command : QMsg) (_cfw_register : Unit) (cfw : Cfw.CfwObj) (_data : PData) (_from_cfw : Unit) (res : StepRes) :
    Except PyExc (PData × Cfw.CfwObj × PSet) :=
  match res with
  | .raise => .error (.exception "execute raised")
  | .table => .ok (.table, { cfw with data := .table }, store)
  | .key => .ok (.key cfw.uuid, { cfw with data := .key cfw.uuid, object_ids := cfw.object_ids ++ [cfw.uuid] }, PSet.add store cfw.uuid)

/-- `cfw.upload_finished_data(location)` (opaque callee; `uploadFails`: it raises) -/
def uploadFinished (store : PSet) (cfw : Cfw.CfwObj) (_location : Nat) (uploadFails : Bool) : Except PyExc (Cfw.CfwObj × PSet) :=
  if uploadFails then .error (.exception "upload_finished_data raised")
  else .ok ({ cfw with object_ids := cfw.object_ids ++ [cfw.uuid] }, PSet.add store cfw.uuid)

/-- `cfw_register.set_error(msg, exc_info)` on the shared register: its error flag afterwards (C02.gen_set_error) -/
def setError (_error : Bool) (_cfw_register : Unit) (_msg _exc_info : String) : Bool := true
"""


def worker_loop_slicer(fdef: ast.FunctionDef):  # type: ignore[no-untyped-def]
    """the body of `while True:` in `worker`"""
    for node in ast.walk(fdef):
        if isinstance(node, ast.While) and ast.unparse(node.test) == "True":
            return list(node.body)
    raise Unsupported("no `while True` in worker")


def worker_spec(cfw_mt: ModuleTranslator) -> ModuleSpec:
    return ModuleSpec(
        path="mloda/core/runtime/worker/multiprocessing_worker.py",
        cls=None,
        functions=[
            FnSpec("_handle_stop_command", {"command_queue": "queue"}),
            FnSpec("_handle_data_dropping", {"command_queue": "queue", "cfw": "cfwobj", "command": "set", "location": "sid", "result_queue": "queue"}, ret="bool"),
            FnSpec(
                "_handle_command_result",
                {"command": "qmsg", "cfw": "cfwobj", "location": "sid", "data": "pdata", "result_queue": "queue"},
                extra_params=[("isFG", "Bool"), ("hasRequested", "Bool"), ("commandUuid", "Nat")],
                doc="`isFG`: the command is a FeatureGroupStep; `hasRequested`: it has initially requested features; `commandUuid`: `command.uuid`",
            ),
            FnSpec(
                "worker",
                {},
                lean_name="workerLoopBody",
                slicer=worker_loop_slicer,
                live_in={"command_queue": "queue", "result_queue": "queue", "cfw_register": "obj", "cfw": "cfwobj", "from_cfw": "obj", "data": "pdata", "location": "sid"},
                live_out=["data"],
                continue_is_return=True,
                doc="one round of `while True:` in `worker` (`break` is logged; `error` is the error flag of the shared `cfw_register`)",
            ),
        ],
        types=dict(TYPES),
        obj_fields=dict(OBJ_FIELDS),
        extern={"cfw.add_already_calculated_children_and_drop_if_possible": Extern(cfw_mt, "add_already_calculated_children_and_drop_if_possible")},
        methods={
            "command_queue.put": q_put(True),
            "result_queue.put": q_put(True),
            "command_queue.get": Method("QHeap.getNowait", recv="queue", ret="opt[qmsg]", world=[QHEAP], kwargs={"block": False}, none_is="queueEmpty"),
            "cfw.upload_finished_data": Method("uploadFinished", recv="cfwobj", args=["sid"], monadic=True, mutates_recv=True, world=[STORE], oracles=[("uploadFails", "Bool")]),
            "_execute_command": Method("executeCommand", args=["qmsg", "obj", "cfwobj", "pdata", "obj"], ret="pdata", monadic=True, mutates_args=[2], world=[STORE], oracles=[("res", "StepRes")]),
            "cfw_register.set_error": Method("setError", recv="obj", args=["str", "str"], world=[("error", "bool", True)]),
        },
        isinstance_map={("command", "set"): "(QMsg.isSet command)", ("data", "str"): "(PData.isStr data)", ("command", "FeatureGroupStep"): "isFG"},
        getters={"command.features.get_initial_requested_features": ("hasRequested", "bool")},
        expr_map={
            src("'STOP'"): ("QMsg.stop", "qmsg"),
            src("('DROP_COMPLETE', cfw.uuid)"): ("(QMsg.dropComplete cfw.uuid)", "qmsg"),
            src("command == 'STOP'"): ("(QMsg.isStop command)", "bool"),
            src("str(command.uuid)"): ("(QMsg.str commandUuid)", "qmsg"),
            "traceback.format_exc()": ('"<str>"', "str"),
        },
        exc_types={"Empty": "queueEmpty"},
        ignore_calls=["time.sleep", "logging.error"],
        narrow=True,
        imports=[],
        prelude=WORKER_PRELUDE,
    )


def gen_lifecycle() -> str:
    cfw_mt = ModuleTranslator(REPO, cfw_spec())
    parts = [cfw_mt.run(f"{NS}.Cfw")]
    dlm_mt = ModuleTranslator(REPO, dlm_spec(cfw_mt))
    parts.append(dlm_mt.run(f"{NS}.Dlm"))
    wm_mt = ModuleTranslator(REPO, wm_spec())
    parts.append(wm_mt.run(f"{NS}.Wm"))
    mgr_mt = ModuleTranslator(REPO, cfw_manager_spec())
    mgr_mt.run("Gen.CfwManagerGen")  # only for the calling convention of `get_uuid_flyway_datasets`; its text is Gen/CfwManagerGen.lean
    orch_mt = ModuleTranslator(REPO, orch_spec(cfw_mt, dlm_mt, wm_mt, mgr_mt))
    parts.append(orch_mt.run(f"{NS}.Orch"))
    worker_mt = ModuleTranslator(REPO, worker_spec(cfw_mt))
    parts.append(worker_mt.run(f"{NS}.Worker"))
    return "\n".join(parts)


GENERATORS = {"LifecycleGen": gen_lifecycle}
