"""C20 tables: ExtenderHook members; which ComputeFramework.run_* method consults which hook and which feature-group
method it wraps (found by driving every run_* method of the real class with three recording extenders, one per hook)."""
from __future__ import annotations

import inspect
from typing import Any, Dict, List, Tuple

from harness.extract import llist, lstr


def probe_run_methods() -> Tuple[List[str], Dict[str, List[Tuple[str, str]]], List[Tuple[str, str]]]:
    """Returns (hook member names, {run_method: [(hook, wrapped function name)] in call order}, [(hook name, hook value)])."""
    from uuid import uuid4

    from mloda.core.abstract_plugins.compute_framework import ComputeFramework
    from mloda.core.abstract_plugins.function_extender import Extender, ExtenderHook
    from mloda.core.abstract_plugins.components.parallelization_modes import ParallelizationMode
    from mloda.core.abstract_plugins.components.feature import Feature
    from mloda.core.abstract_plugins.components.feature_set import FeatureSet

    record: List[Tuple[str, str]] = []

    def mk(hook: Any) -> Any:
        class Rec(Extender):
            def wraps(self) -> Any:
                return {hook}

            def __call__(self, func: Any, *a: Any, **kw: Any) -> Any:
                record.append((hook.name, getattr(func, "__name__", "?")))
                return func(*a, **kw)

        return Rec()

    class Cfw(ComputeFramework):
        @classmethod
        def expected_data_framework(cls) -> Any:
            return dict

        @staticmethod
        def is_available() -> bool:
            return False  # never offered to framework discovery; only driven directly below

    class Fg:
        @classmethod
        def get_class_name(cls) -> str:
            return "Fg"

        @classmethod
        def calculate_feature(cls, data: Any, features: Any) -> Any:
            return {"x": [1]}

        @classmethod
        def validate_input_features(cls, data: Any, features: Any) -> Any:
            return True

        @classmethod
        def validate_output_features(cls, data: Any, features: Any) -> Any:
            return True

    methods = sorted(n for n, f in inspect.getmembers(ComputeFramework, predicate=inspect.isfunction) if n.startswith("run_"))
    table: Dict[str, List[Tuple[str, str]]] = {}
    for m in methods:
        record.clear()
        cfw = Cfw(ParallelizationMode.SYNC, frozenset(), uuid4(), function_extender={mk(h) for h in ExtenderHook})
        cfw.data = {"x": [0]}  # non-None so that the validate methods do not return early
        fs = FeatureSet()
        fs.add(Feature("x"))
        fn = getattr(cfw, m)
        params = list(inspect.signature(fn).parameters)
        args: List[Any] = []
        for p in params:
            if p == "feature_group":
                args.append(Fg)
            elif p == "features":
                args.append(fs)
            elif p == "location":
                args.append(None)
            elif p == "data":
                args.append({"x": [0]})
            else:
                args.append(None)
        fn(*args)
        table[m] = list(record)
    return [h.name for h in ExtenderHook], table, [(h.name, h.value) for h in ExtenderHook]


def gen_hooks() -> str:
    names, table, values = probe_run_methods()
    out = ["namespace Gen", "", "/-- members of `ExtenderHook` -/", "inductive Hook where"]
    out += [f"  | {n}" for n in names]
    out += ["  deriving DecidableEq, Repr, Inhabited", ""]
    out.append("def Hook.all : List Hook := " + llist([f".{n}" for n in names]))
    out.append("def Hook.name : Hook → String")
    out += [f"  | .{n} => {lstr(n)}" for n in names]
    out.append("def Hook.value : Hook → String")
    out += [f"  | .{n} => {lstr(v)}" for n, v in values]
    out.append("def Hook.ofName? (s : String) : Option Hook := Hook.all.find? (fun h => h.name == s)")
    out.append("")
    out.append("/-- for every `ComputeFramework.run_*` method: the hooks it consults (through `get_function_extender`) and the")
    out.append("feature-group function handed to the extender, in call order, observed with one recording extender per hook on a")
    out.append("compute framework whose data is not None -/")
    rows = []
    for m in sorted(table):
        rows.append("(" + lstr(m) + ", " + llist([f"(.{h}, {lstr(fn)})" for h, fn in table[m]]) + ")")
    out.append("def runConsults : List (String × List (Hook × String)) := " + llist(rows))
    out.append("def consults (m : String) : List (Hook × String) := ((runConsults.find? (fun p => p.1 == m)).map (·.2)).getD []")
    out.append("")
    out.append("end Gen")
    return "\n".join(out) + "\n"


GENERATORS = {"Hooks": gen_hooks}
