"""Translator target (harness/pytrans.py): `Graph` (mloda/core/prepare/graph/graph.py).  The generated `Gen/GraphGen.lean` is
proved equal to the hand-written `Model/Graph.lean` in `Props/C01_gen2.lean`.

Representation: uuids are `Nat`; `nodes` / `edges` are dicts whose VALUES (node / edge properties) are opaque ids - only their
keys matter; `adjacency_list`, `parents_by_direct_`, `parent_to_children_mapping`, `child_with_root` are `defaultdict`s of
lists / sets ("ddict": a READ `d[k]` of a missing key inserts it, `DDict.read`); `visited` is a set.  The three recursive
methods take `fuel` = the number of Python frames still available (`PyExc.recursion` at 0)."""
from __future__ import annotations

from harness.extract import REPO
from harness.pytrans import LEAN_TY, FnSpec, ModuleSpec, ModuleTranslator, lname

DL = "ddict[uuid,natlist]"
DS = "ddict[uuid,set]"

SELF_FIELDS = {
    "nodes": "dict[uuid,objid]",
    "edges": "dict[tuple[uuid,uuid],objid]",
    "adjacency_list": DL,
    "roots": "natlist",
    "queue": "natlist",
    "visited": "set",
    "parents_by_direct_": DS,
    "parent_to_children_mapping": DS,
    "child_with_root": DS,
}


def graph_spec() -> ModuleSpec:
    S = "GraphSelf"
    prelude = "/-- the fields of a `Graph` (`visited` exists from `iterate_nodes_and_edges` on) -/\nstructure GraphSelf where\n"
    prelude += "".join(f"  {lname(f)} : {LEAN_TY[t]}\n" for f, t in SELF_FIELDS.items()) + "  deriving DecidableEq, Repr\n"
    return ModuleSpec(
        path="mloda/core/prepare/graph/graph.py",
        cls="Graph",
        functions=[
            FnSpec("add_node", {"node": "uuid", "node_properties": "objid"}, self_type=S),
            FnSpec("add_edge", {"parent": "uuid", "child": "uuid", "edge_properties": "objid"}, self_type=S),
            FnSpec("create_in_degree", {}, ret="ddict[uuid,nat]", self_type=S, local_types={"in_degree": "ddict[uuid,nat]"}),
            FnSpec("dfs", {"node": "uuid"}, self_type=S, recursive=True),
            FnSpec("iterate_nodes_and_edges", {}, self_type=S),
            FnSpec("get_direct_parents_for_each_child", {"parent": "uuid", "children": "natlist"}, self_type=S, recursive=True),
            FnSpec("set_direct_parents_for_each_child", {}, self_type=S),
            FnSpec("get_all_parents_for_each_child", {"child": "uuid", "parents": "set"}, ret="set", self_type=S, recursive=True),
            FnSpec("set_all_parents_for_each_child", {}, self_type=S),
            FnSpec("set_root_parents_by_direct_", {}, self_type=S),
        ],
        self_fields=dict(SELF_FIELDS),
        prelude=prelude,
        imports=["MlodaVerif.Model.PyRtObj"],
        opens=["PyRt"],
        narrow=True,  # (only for the block-wise translation; nothing is narrowed here)
        obj_fields={"__none__": {}},
    )


def gen_graph() -> str:
    return ModuleTranslator(REPO, graph_spec()).run("Gen.GraphGen")


GENERATORS = {"GraphGen": gen_graph}
