"""C03 table: which `column_ordering` strings the code accepts (probed on both guards)."""
from __future__ import annotations

from harness.extract import lbool, llist, lstr

PROBES = [
    "alphabetical", "request_order", "", "Alphabetical", "ALPHABETICAL", "request-order", "requestorder", "request order",
    "none", "None", "sorted", "asc", "alphabetical ", " request_order", "alpha", "request", "order", "insertion",
]  # fmt: skip


def gen_select_api() -> str:
    from mloda.core.abstract_plugins.components.feature_name import FeatureName
    from mloda.core.abstract_plugins.components.parallelization_modes import ParallelizationMode
    from mloda.core.api.request import mlodaAPI
    from mloda.core.abstract_plugins.components.plugin_option.plugin_collector import PluginCollector
    from mloda_plugins.compute_framework.base_implementations.pyarrow.table import PyArrowTable

    cfw = PyArrowTable(ParallelizationMode.SYNC, frozenset())
    rows = []
    for p in PROBES:
        try:
            cfw.identify_naming_convention({FeatureName("a")}, {"a"}, p)
            fn_ok = True
        except ValueError as e:
            fn_ok = "Invalid ordering" not in str(e)
        try:
            mlodaAPI(["verif_no_such_feature"], {PyArrowTable}, plugin_collector=PluginCollector.enabled_feature_groups(set()), column_ordering=p)
            api_ok = True
        except ValueError as e:
            api_ok = "column_ordering must be" not in str(e)
        except Exception:
            api_ok = True
        rows.append(f"({lstr(p)}, {lbool(fn_ok)}, {lbool(api_ok)})")
    out = ["namespace Gen", ""]
    out.append("/-- (probe string, accepted by `identify_naming_convention`, accepted by `mlodaAPI.__init__`) -/")
    out.append("def orderingProbes : List (String × Bool × Bool) := " + llist(rows))
    out += ["", "end Gen"]
    return "\n".join(out) + "\n"


GENERATORS = {"SelectApi": gen_select_api}
