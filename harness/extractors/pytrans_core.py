"""Translator targets (harness/pytrans.py): the orchestrator's gate functions and loop body (run.py), the drop tracker of a
compute-framework object (compute_framework.py) and WorkerManager.join_all (worker_manager.py)."""
from __future__ import annotations

from harness.extract import REPO
from harness.pytrans import FnSpec, ModuleSpec, ModuleTranslator, Opaque, loop_body_of

SETS4 = {"required_uuids": "set", "step_uuid": "set", "finished_steps": "set", "currently_running_steps": "set"}


def run_loop_spec() -> ModuleSpec:
    body_params = {"step": "step"}
    live = {"finished_ids": "set", "to_finish_ids": "set", "currently_running_steps": "set"}
    return ModuleSpec(
        path="mloda/core/runtime/run.py",
        cls="ExecutionOrchestrator",
        functions=[
            FnSpec("_is_step_done", {"step_uuids": "set", "finished_ids": "set"}, ret="bool"),
            FnSpec("currently_running_step", {"step_uuids": "set", "currently_running_steps": "set"}, ret="bool"),
            FnSpec("_can_run_step", dict(SETS4), ret="bool"),
            FnSpec("_mark_step_as_finished", {"step_uuid": "set", "finished_steps": "set", "currently_running_steps": "set"}, ret="unit"),
            FnSpec(
                "compute",
                body_params,
                lean_name="computeLoopBody",
                slicer=loop_body_of("for step in self.execution_planner"),
                live_in=live,
                live_out=list(live),
                continue_is_return=True,
                doc="the body of `for step in self.execution_planner` inside `compute`, for one step",
            ),
            FnSpec(
                "compute_stream",
                body_params,
                lean_name="computeStreamLoopBody",
                slicer=loop_body_of("for step in self.execution_planner"),
                live_in=live,
                live_out=list(live),
                continue_is_return=True,
                doc="the body of `for step in self.execution_planner` inside `compute_stream`, for one step",
            ),
        ],
        attrs={"step.required_uuids": ("step.required", "set")},
        getters={"step.get_uuids": ("step.uuids", "set")},
        isinstance_map={("step", "FeatureGroupStep"): "step.isFG"},
        opaque={
            "self._drop_data_for_finished_cfws": Opaque("drop_data_for_finished_cfws"),
            "self._process_step_result": Opaque("process_step_result", returns="bool", oracle="processResult"),
            "self._execute_step": Opaque("execute_step"),
        },
        transparent_with=["self._step_lock"],
    )


def gen_run_loop() -> str:
    return ModuleTranslator(REPO, run_loop_spec()).run("Gen.RunLoop")


def tracker_spec() -> ModuleSpec:
    return ModuleSpec(
        path="mloda/core/abstract_plugins/compute_framework.py",
        cls="ComputeFramework",
        functions=[
            FnSpec(
                "add_already_calculated_children_and_drop_if_possible",
                {"children": "set", "location": "unit"},
                ret="boolorset",
                lean_name="addChildrenAndDrop",
                self_type="CfwSelf",
            )
        ],
        self_fields={"already_calculated_children_tracker": "set", "children_if_root": "set", "object_ids": "natlist"},
        opaque={"self.drop_last_data": Opaque("drop_last_data")},
        prelude=(
            "/-- the fields of a compute-framework object the tracker reads and writes -/\n"
            "structure CfwSelf where\n  already_calculated_children_tracker : PSet\n  children_if_root : PSet\n  object_ids : List Nat\n  deriving Repr\n"
        ),
    )


def gen_tracker() -> str:
    return ModuleTranslator(REPO, tracker_spec()).run("Gen.Tracker")


GENERATORS = {"RunLoop": gen_run_loop, "Tracker": gen_tracker}
