"""Translator targets (harness/pytrans.py): the orchestrator's gate functions and loop body (run.py), the drop tracker of a
compute-framework object (compute_framework.py) and WorkerManager.join_all (worker_manager.py)."""
from __future__ import annotations

from harness.extract import REPO
from harness.pytrans import FnSpec, ModuleSpec, ModuleTranslator, Opaque, loop_body_of, nth_try_of, while_test_of

SETS4 = {"required_uuids": "set", "step_uuid": "set", "finished_steps": "set", "currently_running_steps": "set"}


def run_loop_spec() -> ModuleSpec:
    body_params = {"step": "step"}
    live = {"finished_ids": "set", "to_finish_ids": "set", "currently_running_steps": "set"}
    return ModuleSpec(
        path="mloda/core/runtime/run.py",
        cls="ExecutionOrchestrator",
        functions=[
            FnSpec("_is_step_done", {"step_uuids": "set", "finished_ids": "set"}, ret="bool"),
            FnSpec("currently_running_step", {"step_uuids": "set", "currently_running_steps": "set"}, ret="bool"),
            FnSpec("_can_run_step", dict(SETS4), ret="bool"),
            FnSpec("_mark_step_as_finished", {"step_uuid": "set", "finished_steps": "set", "currently_running_steps": "set"}, ret="unit"),
            FnSpec("_process_step_result", {"step": "step"}, ret="bool", lean_name="processStepResult",
                   extra_params=[("uuidArrived", "Bool"), ("anyUuidIsNone", "Bool")],
                   doc="`uuidArrived`: the step's uuid is in `worker_manager.result_uuids_collection` after polling; `stepIsDone`: the step object's `step_is_done` flag"),
            FnSpec(
                "compute",
                body_params,
                lean_name="computeLoopBody",
                slicer=loop_body_of("for step in self.execution_planner"),
                live_in=live,
                live_out=list(live),
                continue_is_return=True,
                doc="the body of `for step in self.execution_planner` inside `compute`, for one step",
            ),
            FnSpec(
                "compute_stream",
                body_params,
                lean_name="computeStreamLoopBody",
                slicer=loop_body_of("for step in self.execution_planner"),
                live_in=live,
                live_out=list(live),
                continue_is_return=True,
                doc="the body of `for step in self.execution_planner` inside `compute_stream`, for one step",
            ),
            FnSpec("compute", {}, lean_name="computeWhileCond", slicer=while_test_of(), live_in={"to_finish_ids": "set", "finished_ids": "set"}, ret="bool",
                   doc="the test of `while ...:` in `compute` (the loop goes on while it is true)"),
            FnSpec("compute_stream", {}, lean_name="computeStreamWhileCond", slicer=while_test_of(), live_in={"to_finish_ids": "set", "finished_ids": "set"}, ret="bool",
                   doc="the test of `while ...:` in `compute_stream`"),
        ],
        attrs={"step.required_uuids": ("step.required", "set")},
        getters={"step.get_uuids": ("step.uuids", "set")},
        # the three step classes partition the steps of a plan: "TransformFrameworkStep or JoinStep" is "not a FeatureGroupStep"
        isinstance_map={("step", "FeatureGroupStep"): "step.isFG", ("step", "TransformFrameworkStep"): "(!step.isFG)", ("step", "JoinStep"): "(!step.isFG)"},
        attr_vars={"step.step_is_done": ("stepIsDone", "bool")},
        expr_map={"step.uuid in self.worker_manager.result_uuids_collection": ("uuidArrived", "bool"), "step.features.any_uuid is None": ("anyUuidIsNone", "bool")},
        opaque={
            "self._drop_data_for_finished_cfws": Opaque("drop_data_for_finished_cfws"),
            "self.worker_manager.poll_result_queues": Opaque("poll_result_queues"),
            "self.executor.get_cfw": Opaque("get_cfw", returns="obj"),
            "self.add_to_result_data_collection": Opaque("add_to_result_data_collection"),
            "self._drop_data_if_possible": Opaque("drop_data_if_possible"),
            "self._execute_step": Opaque("execute_step"),
        },
        transparent_with=["self._step_lock"],
    )


def gen_run_loop() -> str:
    return ModuleTranslator(REPO, run_loop_spec()).run("Gen.RunLoop")


def tracker_spec() -> ModuleSpec:
    return ModuleSpec(
        path="mloda/core/abstract_plugins/compute_framework.py",
        cls="ComputeFramework",
        functions=[
            FnSpec(
                "add_already_calculated_children_and_drop_if_possible",
                {"children": "set", "location": "unit"},
                ret="boolorset",
                lean_name="addChildrenAndDrop",
                self_type="CfwSelf",
            )
        ],
        self_fields={"already_calculated_children_tracker": "set", "children_if_root": "set", "object_ids": "natlist"},
        opaque={"self.drop_last_data": Opaque("drop_last_data")},
        prelude=(
            "/-- the fields of a compute-framework object the tracker reads and writes -/\n"
            "structure CfwSelf where\n  already_calculated_children_tracker : PSet\n  children_if_root : PSet\n  object_ids : List Nat\n  deriving Repr\n"
        ),
    )


def gen_tracker() -> str:
    return ModuleTranslator(REPO, tracker_spec()).run("Gen.Tracker")


def options_spec() -> ModuleSpec:
    return ModuleSpec(
        path="mloda/core/abstract_plugins/components/options.py",
        cls="Options",
        functions=[
            FnSpec("get", {"key": "str"}, ret="pyval", self_type="Options"),
            FnSpec("set", {"key": "str", "value": "pyval"}, ret="unit", self_type="Options", lean_name="setKey"),
            FnSpec("__contains__", {"key": "str"}, ret="bool", self_type="Options", lean_name="contains"),
            FnSpec("items", {}, ret="items", self_type="Options"),
            FnSpec("keys", {}, ret="strlist", self_type="Options", lean_name="allKeys"),
        ],
        self_fields={"group": "dict", "context": "dict"},
        imports=["MlodaVerif.Model.PyRt", "MlodaVerif.Model.Options"],
        opens=["PyRt"],
        prelude=(
            "/-- `d[k]` -/\n"
            "def _root_.PyDict.getItem (d : PyDict) (k : String) : Except PyExc PyVal :=\n"
            "  match d.get? k with\n  | some v => .ok v\n  | none => .error .keyError\n"
        ),
    )


def gen_options() -> str:
    return ModuleTranslator(REPO, options_spec()).run("Gen.OptionsAcc")


def join_all_spec() -> ModuleSpec:
    return ModuleSpec(
        path="mloda/core/runtime/worker_manager.py",
        cls="WorkerManager",
        functions=[
            FnSpec(
                "join_all",
                {},
                lean_name="joinAllLoop",
                self_type="WMSelf",
                slicer=lambda fdef: [st for st in fdef.body if not (isinstance(st, __import__("ast").If) or isinstance(st, __import__("ast").Raise))],
                live_out=["failed"],
                extra_params=[("isProcess", "Nat → Bool")],
                doc="everything before the final `if failed: raise`: the flag and the loop over `self.tasks`",
            ),
            FnSpec("join_all", {}, lean_name="joinAll", self_type="WMSelf", extra_params=[("isProcess", "Nat → Bool")]),
        ],
        self_fields={"tasks": "natlist"},
        isinstance_map={("task", "multiprocessing.Process"): "isProcess task"},
        opaque={
            "task.terminate": Opaque("terminate", may_raise="terminateFails", raise_arg=-1),
            "task.join": Opaque("join", may_raise="joinFails", raise_arg=-1),
        },
        ignore_calls=["logger.error"],
        prelude="/-- the field of a WorkerManager `join_all` reads: the tasks in creation order -/\nstructure WMSelf where\n  tasks : List Nat\n  deriving Repr\n",
    )


def gen_join_all() -> str:
    return ModuleTranslator(REPO, join_all_spec()).run("Gen.JoinAll")


WORKER_STR_EXPR = {"traceback.format_exc()": ('"<str>"', "str")}  # reads the current exception, no effect on the model


def thread_worker_spec() -> ModuleSpec:
    return ModuleSpec(
        path="mloda/core/runtime/worker/thread_worker.py",
        cls=None,
        functions=[FnSpec("thread_worker", {"command": "obj", "cfw_register": "obj", "cfw": "obj", "from_cfw": "obj"}, lean_name="threadWorker")],
        opaque={
            "command.execute": Opaque("execute", may_raise="executeRaises"),
            "cfw_register.set_error": Opaque("set_error"),
        },
        expr_map=dict(WORKER_STR_EXPR),
        attr_assign_events={"command.step_is_done": "step_is_done"},
    )


def sync_execute_spec() -> ModuleSpec:
    return ModuleSpec(
        path="mloda/core/runtime/compute_framework_executor.py",
        cls="ComputeFrameworkExecutor",
        functions=[FnSpec("sync_execute_step", {"step": "obj"}, lean_name="syncExecuteStep")],
        opaque={
            "self.prepare_execute_step": Opaque("prepare_execute_step", returns="obj"),
            "self.prepare_tfs_and_joinstep": Opaque("prepare_tfs_and_joinstep", returns="obj", may_raise="prepareFromRaises"),
            "step.execute": Opaque("execute", may_raise="executeRaises"),
            "self.cfw_register.set_error": Opaque("set_error"),
        },
        attr_assign_events={"step.step_is_done": "step_is_done"},
        expr_map={**WORKER_STR_EXPR, "ParallelizationMode.SYNC": ("()", "obj"), "self.cfw_register": ("()", "obj"), "self.cfw_collection[cfw_uuid]": ("()", "obj")},
        ignore_calls=["logging.error"],
    )


def mp_worker_spec() -> ModuleSpec:
    objs = {"command": "obj", "cfw": "obj", "location": "obj", "data": "obj", "result_queue": "obj"}
    extra = [("dataIsStr", "Bool"), ("isFG", "Bool"), ("hasRequested", "Bool"), ("locationIsNone", "Bool")]
    return ModuleSpec(
        path="mloda/core/runtime/worker/multiprocessing_worker.py",
        cls=None,
        functions=[
            FnSpec("_handle_command_result", objs, lean_name="handleCommandResult", extra_params=extra),
            FnSpec(
                "worker",
                {},
                lean_name="workerExecuteBlock",
                slicer=nth_try_of(1),
                live_in={"command": "obj", "cfw_register": "obj", "cfw": "obj", "data": "obj", "from_cfw": "obj", "location": "obj", "result_queue": "obj", "command_queue": "obj"},
                continue_is_return=True,
                extra_params=extra,
                doc="the `try: _execute_command ... except Exception` block of the worker's command loop",
            ),
        ],
        isinstance_map={("data", "str"): "dataIsStr", ("command", "FeatureGroupStep"): "isFG"},
        getters={"command.features.get_initial_requested_features": ("hasRequested", "bool")},
        expr_map={**WORKER_STR_EXPR, "location is None": ("locationIsNone", "bool"), "str(command.uuid)": ("()", "obj")},
        opaque={
            "cfw.upload_finished_data": Opaque("upload_finished_data", may_raise="uploadRaises"),
            "result_queue.put": Opaque("put_result"),
            "_execute_command": Opaque("execute_command", returns="obj", may_raise="executeRaises"),
            "cfw_register.set_error": Opaque("set_error"),
            "_handle_stop_command": Opaque("stop_command"),
        },
        ignore_calls=["logging.error"],
    )


def gen_workers() -> str:
    a = ModuleTranslator(REPO, thread_worker_spec()).run("Gen.ThreadWorker")
    b = ModuleTranslator(REPO, sync_execute_spec()).run("Gen.SyncExecute")
    c = ModuleTranslator(REPO, mp_worker_spec()).run("Gen.MpWorker")
    return a + "\n" + b.replace("import MlodaVerif.Model.PyRt\n", "") + "\n" + c.replace("import MlodaVerif.Model.PyRt\n", "")


GENERATORS = {"Workers": gen_workers, "JoinAll": gen_join_all, "OptionsAcc": gen_options, "RunLoop": gen_run_loop, "Tracker": gen_tracker}
