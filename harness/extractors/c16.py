"""C16 tables: chain separators and, for every built-in chained feature group, its suffix pattern (parsed into the
token form the Lean matcher understands), vocabularies, in-feature limits, PROPERTY_MAPPING flags, which class
implements `input_features` / `match_feature_group_criteria` / `_validate_string_match`, and its implementations.

Everything is read from the working tree at every run.  A pattern outside the regex subset `.*__ tok* $` with
tok ::= literal | ([\\w]+) | (\\d+) | (a|b|c) | (~\\d+)?  makes the extraction fail (=> the dependent theorems break).
"""
from __future__ import annotations

import importlib
import inspect
import os
import pkgutil
import re
from typing import Any, Dict, List, Optional, Tuple

from harness.extract import lbool, llist, lstr


def lchars(s: str) -> str:
    """Lean `List Char` literal (kernel-friendly: no String primitives in `decide`)."""

    def one(c: str) -> str:
        if c == "'":
            return "'\\''"
        if c == "\\":
            return "'\\\\'"
        if c == "\n":
            return "'\\n'"
        if c == "\t":
            return "'\\t'"
        if ord(c) < 32 or ord(c) > 126:
            return "(Char.ofNat %d)" % ord(c)
        return "'" + c + "'"

    return "[" + ", ".join(one(c) for c in s) + "]"


class PatternError(Exception):
    pass


def parse_pattern(p: str) -> List[Tuple[str, Any, bool]]:
    """`.*__<toks>$` -> [(kind, payload, captured)].  kinds: lit, word, digits, alt, optTilde."""
    head = r".*__"
    if not p.startswith(head) or not p.endswith("$"):
        raise PatternError(f"pattern {p!r} is not of the form .*__ ... $")
    body = p[len(head) : -1]
    toks: List[Tuple[str, Any, bool]] = []
    i = 0
    lit = ""

    def flush() -> None:
        nonlocal lit
        if lit:
            toks.append(("lit", lit, False))
            lit = ""

    while i < len(body):
        rest = body[i:]
        m = None
        for kind, rx in (("word", r"\(\[\\w\]\+\)"), ("digits", r"\(\\d\+\)"), ("optTilde", r"\(~\\d\+\)\?")):
            m = re.match(rx, rest)
            if m:
                flush()
                toks.append((kind, None, True))
                i += m.end()
                break
        if m:
            continue
        m = re.match(r"\(([A-Za-z0-9_]+(?:\|[A-Za-z0-9_]+)*)\)", rest)
        if m:
            flush()
            toks.append(("alt", m.group(1).split("|"), True))
            i += m.end()
            continue
        c = body[i]
        if re.match(r"[A-Za-z0-9_~&,\- ]", c):
            lit += c
            i += 1
            continue
        raise PatternError(f"unsupported regex construct at {i} in {p!r}")
    flush()
    return toks


META = None


def chained_bases() -> List[Any]:
    """All classes defined in mloda_plugins.feature_group.experimental.**.base that use the chain parser mixin."""
    from mloda.core.abstract_plugins.components.feature_chainer.feature_chain_parser_mixin import FeatureChainParserMixin
    import mloda_plugins.feature_group.experimental as exp

    out = []
    root = os.path.dirname(exp.__file__)
    for dirpath, _dirs, files in sorted(os.walk(root)):
        if "base.py" not in files:
            continue
        rel = os.path.relpath(dirpath, root).replace(os.sep, ".")
        modname = f"mloda_plugins.feature_group.experimental.{rel}.base"
        try:
            mod = importlib.import_module(modname)
        except Exception:
            continue
        for _n, cls in sorted(vars(mod).items()):
            if inspect.isclass(cls) and cls.__module__ == modname and issubclass(cls, FeatureChainParserMixin) and hasattr(cls, "PREFIX_PATTERN"):
                out.append(cls)
    out.sort(key=lambda c: c.__name__)
    return out


def implementations(base: Any) -> List[Tuple[str, str, str]]:
    """(class name, module, framework name) of importable implementations on pandas / pyarrow / python-dict."""
    pkg = base.__module__.rsplit(".", 1)[0]
    res = []
    for sub in ("pandas", "pyarrow", "python_dict"):
        try:
            mod = importlib.import_module(f"{pkg}.{sub}")
        except Exception:
            continue
        for _n, cls in sorted(vars(mod).items()):
            if inspect.isclass(cls) and cls.__module__ == mod.__name__ and issubclass(cls, base) and cls is not base:
                try:
                    fws = cls.compute_framework_rule()
                    fw = sorted(f.__name__ for f in fws)[0] if isinstance(fws, set) and fws else "any"
                except Exception:
                    fw = "?"
                res.append((cls.__name__, mod.__name__, fw))
    return res


def owner(cls: Any, attr: str) -> str:
    for k in cls.__mro__:
        if attr in vars(k):
            return k.__name__
    return ""


def group_record(cls: Any) -> Dict[str, Any]:
    from mloda_plugins.feature_group.experimental.default_options_key import DefaultOptionKeys as K

    meta = {K.default, K.context, K.group, K.strict_validation, K.validation_function}
    vocab = []
    for n, v in sorted(vars(cls).items()):
        if n.isupper() and isinstance(v, dict) and v and all(isinstance(k, str) and isinstance(x, str) for k, x in v.items()) and n != "PROPERTY_MAPPING":
            vocab.append((n, list(v.keys())))
    props = []
    for key, spec in cls.PROPERTY_MAPPING.items():
        key_s = key.value if hasattr(key, "value") else str(key)
        if isinstance(spec, dict):
            values = [k for k in spec.keys() if k not in meta]
            props.append(
                {
                    "key": key_s,
                    "hasDefault": K.default in spec,
                    "context": bool(spec.get(K.context, False)),
                    "strict": bool(spec.get(K.strict_validation, False)),
                    "validator": f"{cls.__name__}.{key_s}" if spec.get(K.validation_function, None) is not None else "",
                    "values": [str(v.value if hasattr(v, "value") else v) for v in values],
                }
            )
        else:
            props.append({"key": key_s, "hasDefault": False, "context": False, "strict": False, "validator": "", "values": []})
    return {
        "name": cls.__name__,
        "pattern": cls.PREFIX_PATTERN,
        "toks": parse_pattern(cls.PREFIX_PATTERN),
        "minIn": int(cls.MIN_IN_FEATURES),
        "maxIn": cls.MAX_IN_FEATURES,
        "inSep": cls.IN_FEATURE_SEPARATOR,
        "vocab": vocab,
        "props": props,
        "inputImpl": owner(cls, "input_features"),
        "matchImpl": owner(cls, "match_feature_group_criteria"),
        "hookImpl": owner(cls, "_validate_string_match"),
        "impls": implementations(cls),
    }


def gen_chain_consts() -> str:
    from mloda.core.abstract_plugins.components.feature_chainer import feature_chain_parser as fcp
    from mloda_plugins.feature_group.experimental.default_options_key import DefaultOptionKeys as K

    for nm in ("CHAIN_SEPARATOR", "COLUMN_SEPARATOR", "INPUT_SEPARATOR"):
        if not isinstance(getattr(fcp, nm), str) or not getattr(fcp, nm):
            raise PatternError(f"{nm} is not a non-empty string")
    if len(fcp.COLUMN_SEPARATOR) != 1 or len(fcp.INPUT_SEPARATOR) != 1:
        raise PatternError("COLUMN_SEPARATOR / INPUT_SEPARATOR are modelled as single characters")
    out = ["namespace Gen.Chain", ""]
    out.append("def chainSep : List Char := " + lchars(fcp.CHAIN_SEPARATOR))
    out.append("def columnSep : Char := " + lchars(fcp.COLUMN_SEPARATOR)[1:-1])
    out.append("def inputSep : Char := " + lchars(fcp.INPUT_SEPARATOR)[1:-1])
    out.append("def inFeaturesKey : List Char := " + lchars(K.in_features.value))
    out.append("")
    out.append("inductive TokKind where\n  | lit (s : List Char)\n  | word\n  | digits\n  | alt (opts : List (List Char))\n  | optTilde\n  deriving DecidableEq, Repr, Inhabited")
    out.append("structure Tk where\n  kind : TokKind\n  cap : Bool\n  deriving DecidableEq, Repr, Inhabited")
    out.append(
        "structure PropSpec where\n  key : List Char\n  hasDefault : Bool\n  context : Bool\n  strict : Bool\n  validator : List Char\n  values : List (List Char)\n  deriving DecidableEq, Repr, Inhabited"
    )
    out.append(
        "structure Group where\n  name : List Char\n  pattern : String\n  toks : List Tk\n  minIn : Nat\n  maxIn : Option Nat\n  inSep : List Char\n"
        "  vocab : List (List Char × List (List Char))\n  props : List PropSpec\n  inputImpl : List Char\n  matchImpl : List Char\n  hookImpl : List Char\n"
        "  impls : List (String × String)\n  deriving DecidableEq, Repr, Inhabited"
    )
    out.append("")
    names = []
    for cls in chained_bases():
        g = group_record(cls)
        ident = "g" + g["name"]
        names.append(ident)
        toks = []
        for kind, payload, cap in g["toks"]:
            if kind == "lit":
                k = f".lit {lchars(payload)}"
            elif kind == "alt":
                k = ".alt " + llist([lchars(o) for o in payload])
            else:
                k = "." + kind
            toks.append("{ kind := %s, cap := %s }" % (k, lbool(cap)))
        props = []
        for p in g["props"]:
            props.append(
                "{ key := %s, hasDefault := %s, context := %s, strict := %s, validator := %s, values := %s }"
                % (lchars(p["key"]), lbool(p["hasDefault"]), lbool(p["context"]), lbool(p["strict"]), lchars(p["validator"]), llist([lchars(v) for v in p["values"]]))
            )
        vocab = ["(%s, %s)" % (lchars(n), llist([lchars(v) for v in vs])) for n, vs in g["vocab"]]
        impls = ["(%s, %s)" % (lstr(c), lstr(fw)) for c, _m, fw in g["impls"]]
        out.append(f"def {ident} : Group where")
        out.append(f"  name := {lchars(g['name'])}")
        out.append(f"  pattern := {lstr(g['pattern'])}")
        out.append("  toks := " + llist(toks))
        out.append(f"  minIn := {g['minIn']}")
        out.append("  maxIn := " + ("none" if g["maxIn"] is None else f"some {int(g['maxIn'])}"))
        out.append("  inSep := " + lchars(g["inSep"]))
        out.append("  vocab := " + llist(vocab))
        out.append("  props := " + llist(props))
        out.append(f"  inputImpl := {lchars(g['inputImpl'])}")
        out.append(f"  matchImpl := {lchars(g['matchImpl'])}")
        out.append(f"  hookImpl := {lchars(g['hookImpl'])}")
        out.append("  impls := " + llist(impls))
        out.append("")
    out.append("/-- every built-in chained feature-group base class, sorted by class name -/")
    out.append("def groups : List Group := " + llist(names))
    out.append("")
    out.append("end Gen.Chain")
    return "\n".join(out) + "\n"


GENERATORS = {"ChainConsts": gen_chain_consts}
