"""C11 tables: FilterType members, BaseFilterEngine.do_filter dispatch, final_filters flags of the three engines.

`do_filter` is driven with a recording subclass (every `do_*_filter` overridden to record its own name) for every
`FilterType` member and for several strings that are not members; the observed (filter type -> method) map is printed.
"""
from __future__ import annotations

from typing import Any, Dict, List

from harness.extract import lbool, llist, lstr

METHODS = [
    "do_range_filter",
    "do_min_filter",
    "do_max_filter",
    "do_equal_filter",
    "do_regex_filter",
    "do_categorical_inclusion_filter",
    "do_custom_filter",
]
UNKNOWN_PROBES = ["zscore", "RANGE", "range ", "Min", "categorical", "in", "custom", "none"]


def gen_filter_dispatch() -> str:
    from mloda.core.filter.filter_engine import BaseFilterEngine
    from mloda.core.filter.filter_type_enum import FilterType
    from mloda.core.filter.single_filter import SingleFilter
    from mloda_plugins.compute_framework.base_implementations.pandas.pandas_filter_engine import PandasFilterEngine
    from mloda_plugins.compute_framework.base_implementations.pyarrow.pyarrow_filter_engine import PyArrowFilterEngine
    from mloda_plugins.compute_framework.base_implementations.python_dict.python_dict_filter_engine import PythonDictFilterEngine

    calls: List[str] = []

    def rec(name: str) -> Any:
        def m(cls: Any, data: Any, filter_feature: Any) -> Any:
            calls.append(name)
            return data

        return classmethod(m)

    Recorder = type("Recorder", (BaseFilterEngine,), {m: rec(m) for m in METHODS})

    def probe(ft: Any) -> str:
        calls.clear()
        sf = SingleFilter("c", ft, {"value": 1, "values": [1], "min": 0, "max": 2})
        Recorder.do_filter("DATA", sf)
        if len(calls) != 1:
            raise RuntimeError(f"do_filter({ft!r}) called {calls}")
        return calls[0]

    table = [(m.value, probe(m)) for m in FilterType]
    # the enum member and its string value must dispatch identically (SingleFilter stores the value)
    for m in FilterType:
        if probe(m.value) != probe(m):
            raise RuntimeError(f"string {m.value!r} and member {m} dispatch differently")
    unknown = {probe(u) for u in UNKNOWN_PROBES}
    if len(unknown) != 1:
        raise RuntimeError(f"unknown filter types dispatch to several methods: {unknown}")

    out = ["namespace Gen", "", "/-- the `do_*_filter` hooks of `BaseFilterEngine` -/", "inductive FilterMethod where"]
    out += [f"  | {m}" for m in METHODS]
    out += ["  deriving DecidableEq, Repr, Inhabited", ""]
    out.append("/-- values of the `FilterType` enum members, in definition order -/")
    out.append("def filterTypes : List String := " + llist([lstr(m.value) for m in FilterType]))
    out.append("/-- observed: `BaseFilterEngine.do_filter` on a filter of this type calls exactly this hook -/")
    out.append("def filterDispatchTable : List (String × FilterMethod) := " + llist([f"({lstr(t)}, .{m})" for t, m in table]))
    out.append(f"/-- observed on the non-member strings {UNKNOWN_PROBES} -/")
    out.append(f"def unknownDispatch : FilterMethod := .{unknown.pop()}")
    out.append("def filterDispatch (t : String) : FilterMethod :=")
    out.append("  match filterDispatchTable.find? (fun p => p.1 == t) with")
    out.append("  | some p => p.2")
    out.append("  | none => unknownDispatch")
    out.append("")
    out.append("/-- `final_filters()` of the three built-in engines -/")
    flags = [("PyArrow", PyArrowFilterEngine), ("Pandas", PandasFilterEngine), ("PythonDict", PythonDictFilterEngine)]
    out.append("def finalFilters : List (String × Bool) := " + llist([f"({lstr(n)}, {lbool(bool(e.final_filters()))})" for n, e in flags]))
    out.append(f"def baseFinalFilters : Bool := {lbool(bool(BaseFilterEngine.final_filters()))}")
    out.append("")
    out.append("end Gen")
    return "\n".join(out) + "\n"


GENERATORS = {"FilterDispatch": gen_filter_dispatch}
