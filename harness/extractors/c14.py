"""C14 tables: the transformer registry as it is built in this environment.

Imports every `*transformer*.py` under mloda_plugins/compute_framework/base_implementations (transformers register by
being subclasses of BaseTransformer), builds a fresh `ComputeFrameworkTransformer()` and prints
  * the data-framework types that occur (keys of transformer_map, framework()/other_framework() of registered classes,
    expected_data_framework() of the available compute frameworks),
  * transformer_map in dict order,
  * framework()/other_framework() of each registered transformer (check_imports() true),
  * the available compute frameworks and their expected data type.
"""
from __future__ import annotations

import glob
import importlib
import os
import re
from typing import Any, Dict, List, Tuple

from harness.extract import REPO, llist, lstr


def import_transformer_modules() -> List[str]:
    ok = []
    base = os.path.join(str(REPO), "mloda_plugins", "compute_framework", "base_implementations")
    for f in sorted(glob.glob(os.path.join(base, "*", "*transformer*.py"))):
        mod = os.path.relpath(f, str(REPO))[:-3].replace(os.sep, ".")
        try:
            importlib.import_module(mod)
            ok.append(mod)
        except Exception:
            pass
    return ok


def type_name(t: Any) -> str:
    return f"{t.__module__}.{t.__qualname__}"


def lean_id(name: str) -> str:
    s = re.sub(r"[^A-Za-z0-9]", "_", name)
    return "t_" + s


def probe() -> Dict[str, Any]:
    import_transformer_modules()
    from mloda.core.abstract_plugins.components.framework_transformer.cfw_transformer import ComputeFrameworkTransformer
    from mloda.core.abstract_plugins.components.framework_transformer.base_transformer import BaseTransformer
    from mloda.core.abstract_plugins.components.utils import get_all_subclasses
    from mloda.core.abstract_plugins.compute_framework import ComputeFramework
    import mloda_plugins.compute_framework.base_implementations.pyarrow.table  # noqa: F401
    import mloda_plugins.compute_framework.base_implementations.pandas.dataframe  # noqa: F401
    import mloda_plugins.compute_framework.base_implementations.python_dict.python_dict_framework  # noqa: F401
    import pyarrow as pa

    reg = ComputeFrameworkTransformer()
    types: List[Any] = []

    def see(t: Any) -> None:
        if t not in types:
            types.append(t)

    see(pa.Table)
    # dict order follows the iteration order of a *set* of classes (get_all_subclasses) and varies between processes;
    # the table is printed sorted, the correspondence passes each instance's real order to the model
    items = sorted(reg.transformer_map.items(), key=lambda kv: (type_name(kv[0][0]), type_name(kv[0][1])))
    for (a, b), _ in items:
        see(a)
        see(b)
    registered = []
    for cls in sorted(get_all_subclasses(BaseTransformer), key=lambda c: c.__name__):
        if cls.__module__.startswith("verif_") or cls.__module__.startswith("harness"):
            continue
        if cls.check_imports():
            see(cls.framework())
            see(cls.other_framework())
            registered.append(cls)
    cfws = []
    for c in sorted(get_all_subclasses(ComputeFramework), key=lambda c: c.__name__):
        if not c.__module__.startswith("mloda_plugins"):
            continue
        try:
            if not c.is_available():
                continue
            t = c.expected_data_framework()
        except Exception:
            continue
        if t is None:
            continue
        see(t)
        cfws.append((c.__name__, t))
    return {"types": types, "items": items, "registered": registered, "cfws": cfws, "pa": pa.Table}


def gen_transformers() -> str:
    p = probe()
    tn = {t: lean_id(type_name(t)) for t in p["types"]}
    out = ["namespace Gen", "", "/-- data-framework types that occur in the registry / as expected_data_framework of an available compute framework -/", "inductive Fw where"]
    out += [f"  | {tn[t]}" for t in p["types"]]
    out += ["  deriving DecidableEq, Repr, Inhabited", ""]
    out.append("def Fw.all : List Fw := " + llist([f".{tn[t]}" for t in p["types"]]))
    out.append("def Fw.name : Fw → String")
    out += [f"  | .{tn[t]} => {lstr(type_name(t))}" for t in p["types"]]
    out.append("def Fw.ofName? (s : String) : Option Fw := Fw.all.find? (fun h => h.name == s)")
    out.append("")
    out.append("/-- `pa.Table`, the intermediate type of `get_transformation_chain` -/")
    out.append(f"def paTable : Fw := .{tn[p['pa']]}")
    out.append("")
    out.append("/-- registered transformers (check_imports() true): (class name, framework(), other_framework()) -/")
    out.append("def transformers : List (String × Fw × Fw) := " + llist([f"({lstr(c.__name__)}, .{tn[c.framework()]}, .{tn[c.other_framework()]})" for c in p["registered"]]))
    out.append("")
    out.append("/-- `ComputeFrameworkTransformer().transformer_map.items()` sorted by key names (the real dict order varies between processes): ((from, to), class name) -/")
    out.append("def transformerMap : List ((Fw × Fw) × String) := " + llist([f"((.{tn[a]}, .{tn[b]}), {lstr(c.__name__)})" for (a, b), c in p["items"]]))
    out.append("")
    out.append("/-- available compute frameworks of mloda_plugins and their `expected_data_framework()` -/")
    out.append("def computeFrameworks : List (String × Fw) := " + llist([f"({lstr(n)}, .{tn[t]})" for n, t in p["cfws"]]))
    out.append("")
    out.append("end Gen")
    return "\n".join(out) + "\n"


GENERATORS = {"Transformers": gen_transformers}
