"""Translator targets (harness/pytrans.py): pieces of `ExecutionPlan` (mloda/core/prepare/execution_plan.py) -
`reduce_children_to_one_level`, `find_feature_uuids`, `get_parent_parents`, `invert_link_trekker`,
`retrieve_links_which_must_be_calculated_before`, `retrieve_nodes_which_must_be_calculated_before` - `JoinStepCollection`
(joinstep_collection.py) and `JoinStep.get_uuids` (core/step/join_step.py).  The generated `Gen/PlanGen.lean` is proved equal to the
corresponding functions of the hand-written `Model/PlanFull.lean` in `Props/C04_gen3.lean`.

Representation: uuids are `Nat`; sets of uuids are VALUES here (`PSet`; nothing in these functions shares a set object with a
container that is mutated later, except through the defaultdicts that are returned / passed on, which are values too);
`graph.adjacency_list` (`defaultdict(list)`) and `graph.parent_to_children_mapping` (`defaultdict(set)`) are attribute variables:
a READ of a missing key inserts it, so the functions that read them return the dict; `link_trekker.data` is a dict
`(Link, framework, framework) -> set of uuids`; a `Link` is a record `PLink` (uuid, …), a `JoinStep` a record `PJoin` (uuid, `link.uuid`, the two
frameworks) - `JoinStep.__eq__` / `__hash__` look at the uuid only, and different step objects have different uuids, so `==` is equality
of the records (ASSUMED as for links); a `Feature` is its uuid."""
from __future__ import annotations

from harness.extract import REPO
from harness.pytrans import Extern, FnSpec, ModuleSpec, ModuleTranslator

NS = "Gen.PlanGen"
KEY = "tuple[link,fw,fw]"
CHILD_LINKS = f"kddict[uuid,eset[{KEY}]]"
TYPES = {"link": "PLink", "fw": "Nat", "joinstep": "PJoin", "trekker": "PTrek"}
OBJ_FIELDS = {
    "link": {"uuid": "uuid"},
    "joinstep": {"uuid": "uuid", "left_framework": "fw", "right_framework": "fw"},
    "trekker": {"data": f"kdict[{KEY},set]"},
}
COMMON = dict(types=dict(TYPES), obj_fields=dict(OBJ_FIELDS), eq_types=["link", "fw", "joinstep"], opens=["PyRt"], ext=True, local_decl=True, narrow=True, fstring_text=True)

PRELUDE = """/-- a `Link` as far as these functions look at it -/
structure PLink where
  uuid : Nat
  deriving DecidableEq, Repr

abbrev PKey := PLink × Nat × Nat

/-- a `JoinStep`: its uuid, `link.uuid`, the two frameworks -/
structure PJoin where
  uuid : Nat
  link_uuid : Nat
  left_framework : Nat
  right_framework : Nat
  deriving DecidableEq, Repr

/-- `link_trekker.data` with the sets as values -/
structure PTrek where
  data : KDict PKey PSet
  deriving DecidableEq, Repr
"""


def join_step_spec() -> ModuleSpec:
    return ModuleSpec(
        path="mloda/core/core/step/join_step.py",
        cls="JoinStep",
        functions=[FnSpec("get_uuids", {}, ret="set", self_type="PJoin")],
        self_fields={"uuid": "uuid", "link.uuid": "uuid", "left_framework": "fw", "right_framework": "fw"},
        field_names={"link.uuid": "link_uuid"},
        imports=["MlodaVerif.Model.PyRtPlan"],
        prelude=PRELUDE,
        **COMMON,  # type: ignore[arg-type]
    )


def jsc_spec(join_mt: ModuleTranslator) -> ModuleSpec:
    S = "JscSelf"
    return ModuleSpec(
        path="mloda/core/prepare/joinstep_collection.py",
        cls="JoinStepCollection",
        functions=[
            FnSpec("__init__", {}, lean_name="init", self_type=S),
            FnSpec("similar_dependent_joins_uuids", {"left_framework": "fw", "right_framework": "fw"}, ret="set", self_type=S, local_types={"required_uuids": "set"}),
            FnSpec("add", {"join_step": "joinstep"}, self_type=S),
            FnSpec("get_required_join_uuids", {"join_step": "joinstep"}, ret="set", self_type=S, doc="a READ of the defaultdict: a step that was never added is inserted with the empty set"),
        ],
        self_fields={"collection": "kddict[joinstep,set]"},
        extern={"step.get_uuids": Extern(join_mt, "get_uuids")},
        imports=[],
        prelude="/-- `JoinStepCollection.collection`: `defaultdict(set)` keyed by the join steps, in insertion order -/\nstructure JscSelf where\n  collection : KDict PJoin PSet\n  deriving DecidableEq, Repr\n",
        **COMMON,  # type: ignore[arg-type]
    )


def plan_spec() -> ModuleSpec:
    return ModuleSpec(
        path="mloda/core/prepare/execution_plan.py",
        cls="ExecutionPlan",
        functions=[
            FnSpec("reduce_children_to_one_level", {"children_uuids": "set", "graph": "obj"}, ret="set", doc="`adjacency_list` is `graph.adjacency_list` (a `defaultdict(list)`: the reads insert missing keys)"),
            FnSpec(
                "find_feature_uuids",
                {"parents": "set", "local_feature_set_collection": "list[set]"},
                ret="ddict[uuid,set]",
                local_types={"feature_set_collection_per_uuid": "ddict[uuid,set]", "already_used_parents": "set"},
            ),
            FnSpec("get_parent_parents", {"parents": "set", "graph": "obj"}, ret="set", local_types={"parent_parents": "set"}, doc="`p2c` is `graph.parent_to_children_mapping` (a `defaultdict(set)`)"),
            FnSpec("invert_link_trekker", {"link_trekker": "trekker"}, ret=CHILD_LINKS, local_types={"new_dict": CHILD_LINKS}),
            FnSpec(
                "retrieve_links_which_must_be_calculated_before",
                {"features": "natlist", "child_links": CHILD_LINKS},
                ret="set",
                local_types={"new_set": "set"},
                doc="`features`: the uuids of the features in the iteration order of the set; `child_links` is the defaultdict `invert_link_trekker` returns",
            ),
            FnSpec(
                "retrieve_nodes_which_must_be_calculated_before",
                {"features": "natlist", "parent_to_children_mapping": "ddict[uuid,set]"},
                ret="set",
                local_types={"new_set": "set"},
            ),
        ],
        attrs={"feature.uuid": ("feature", "uuid")},
        attr_vars={"graph.adjacency_list": ("adjacency_list", "ddict[uuid,natlist]"), "graph.parent_to_children_mapping": ("p2c", "ddict[uuid,set]")},
        imports=[],
        **COMMON,  # type: ignore[arg-type]
    )


def gen_plan() -> str:
    join_mt = ModuleTranslator(REPO, join_step_spec())
    parts = [join_mt.run(f"{NS}")]
    jsc_mt = ModuleTranslator(REPO, jsc_spec(join_mt))
    parts.append(jsc_mt.run(f"{NS}.Jsc"))
    plan_mt = ModuleTranslator(REPO, plan_spec())
    parts.append(plan_mt.run(f"{NS}.Plan"))
    return "\n".join(parts)


def append_union_spec() -> ModuleSpec:
    """`handle_append_or_union_joinstep`: the steps of the plan are the model's records `PlanFull.PStep` (VALUES: the loop that
    mutates them rebuilds the list - ASSUMED: the step objects are reachable only through `fw_execution_plan`)"""
    step_fields = {"left_framework_uuids": "set", "right_framework_uuids": "set", "required_uuids": "set"}
    return ModuleSpec(
        path="mloda/core/prepare/execution_plan.py",
        cls="ExecutionPlan",
        functions=[
            FnSpec(
                "handle_append_or_union_joinstep",
                {"fw_execution_plan": "list[step]"},
                ret="list[step]",
                local_types={"map_left_framework_uuid_to_link_uuid": "ddict[uuid,set]"},
                doc="a step is a `PlanFull.PStep`; `fw.link.uuid` is `fw.link.getD 0` (a JoinStep has a link)",
            ),
        ],
        types={"step": "PlanFull.PStep"},
        obj_fields={"step": dict(step_fields)},
        obj_field_names={"step": {"left_framework_uuids": "lfu", "right_framework_uuids": "rfu", "required_uuids": "req"}},
        isinstance_map={("fw", "JoinStep"): "(fw.kind == .join)"},
        expr_map={
            "fw.link.jointype in (JoinType.APPEND, JoinType.UNION)": ("(fw.jt == .append || fw.jt == .union)", "bool"),
            "fw.link.uuid": ("(fw.link.getD 0)", "uuid"),
        },
        imports=["MlodaVerif.Model.PyRtPlan", "MlodaVerif.Model.PlanFull"],
        opens=["PyRt"],
        ext=True,
        local_decl=True,
        narrow=True,
        fstring_text=True,
    )


def gen_plan_au() -> str:
    return ModuleTranslator(REPO, append_union_spec()).run("Gen.PlanAuGen")


GENERATORS = {"PlanGen": gen_plan, "PlanAuGen": gen_plan_au}
