"""A private Arrow Flight server per check process.

mloda's `create_location()` binds port 0, closes the socket and hands the number to a gRPC server that listens with
SO_REUSEPORT: two processes starting servers at the same moment can end up sharing one port, and their clients are then
load-balanced between two different stores (datasets "vanish", downloads hang).  Checks may run in parallel, so every check
process derives its port from its own pid and verifies nobody listens there before starting the server.
"""
from __future__ import annotations

import multiprocessing
import os
import socket
import time
from typing import Any


def _port_free(port: int) -> bool:
    s = socket.socket()
    try:
        s.bind(("0.0.0.0", port))
        return True
    except OSError:
        return False
    finally:
        s.close()


def start_private_flight_server() -> Any:
    from mloda.core.runtime.flight.runner_flight_server import ParallelRunnerFlightServer
    from mloda.core.runtime.flight.flight_server import FlightServer

    last: Any = None
    for attempt in range(20):
        port = 20000 + (os.getpid() * 7 + attempt * 1009) % 30000
        if not _port_free(port):
            continue
        srv = ParallelRunnerFlightServer()
        srv.location = f"grpc://0.0.0.0:{port}"
        srv.flight_server_process = multiprocessing.Process(target=srv.start_flight_server, args=(srv.location,))
        srv.flight_server_process.start()
        # readiness is probed with plain TCP connects: a gRPC client of THIS process that fails to connect keeps reconnecting in
        # background threads for a while, and a worker forked in that window inherits a broken gRPC state and blocks forever
        # in its first flight call (the "first MULTIPROCESSING run after the server start hangs" flake of earlier rounds)
        up = False
        for _ in range(200):
            c = socket.socket()
            c.settimeout(0.2)
            try:
                c.connect(("127.0.0.1", port))
                up = True
            except OSError as e:
                last = e
            finally:
                c.close()
            if up or not srv.flight_server_process.is_alive():
                break
            time.sleep(0.05)
        if up:
            time.sleep(0.2)
            try:
                FlightServer.list_flight_infos(srv.location)
                time.sleep(0.3)
                return srv
            except Exception as e:
                last = e
        try:
            srv.end_flight_server_process()
        except Exception:
            pass
    raise RuntimeError(f"could not start a private flight server: {last!r}")
