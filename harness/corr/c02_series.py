"""C02 extension `series` - a Pandas feature group may return ONLY its new column (a pd.Series); the values belong to the rows
whose labels the Series carries, whatever the order of the Series is.

Input class (generated, not replayed): Pandas requests in which at least one feature group computes its single feature on a
RE-ORDERED VIEW of the frame it is handed (sorted by a column ascending/descending, reversed, rotated, shuffled, or - for the
window features `running total in the order of a column` / `rank in the order of a column` - the sort order the calculation
needs anyway) and returns the resulting Series as it is: its index is a permutation of the frame's index.  The frame itself
  * has the default index 0..n-1, or
  * lost rows through a GlobalFilter on a root column (index = the surviving labels, not 0..k-1), or
  * was returned by the root group with labels of its own (a frame that was sorted / sliced before: unique, unsorted labels), or
  * is the result of a join of two Pandas sources (suite series_join; row order = whatever the merge produced).
On top of such a column there are consumers on the same framework (new table / in place / again a Series, aligned or permuted)
and on other frameworks (PyArrow, PythonDict behind transform steps).

Oracle = the property text: every requested feature, row by row, equals the bottom-up evaluation of the dependency graph on the
same source rows (after the global filter).  The reference evaluator below is plain Python over row dicts and knows nothing
about pandas, indexes or the order a group worked in.  Join results have no defined row order: there the rows of every returned
table are compared as a sorted multiset, and a `pair` consumer (key * 100000 + value) makes the row a value belongs to visible.

Unchanged-tree findings met by series_join (findings.d/C02_series.json, both rejections at prepare, classes decided by
join_reject_class on the request alone): a feature above the join with two parents that both need the link (KeyError in
reduce_children_to_one_level) and a feature on another framework that descends from both sides of the join ("No new compute
frameworks have been found") - so above a join the consumers on other frameworks can only hang off left-only features.

Suites
  series       link-free requests of the class (SYNC, sample in THREADING), reference oracle per row
  series_join  the class on top of a two-source Pandas join, reference oracle per sorted row
  series_exec  the all-Pandas / row-wise / SYNC cases of `series` executed by the property's Lean data-flow model (main driver, op C02.exec)
"""
from __future__ import annotations

import json
import random
from typing import Any, Dict, List, Optional, Set, Tuple

from harness.core import Ctx
from harness import fgfactory as F
from harness import schedlib as S

SUITES = {"series", "series_join", "series_exec"}

ASSUMPTIONS = [
    "series: row labels of the generated frames are unique (a Series can only be matched to rows by label when labels identify rows); frames with duplicate labels are not generated",
    "series: the column a GlobalFilter works on is never requested itself and is no parent (a requested filter column is C03's finding F-C03-aux-shadows-request); filters keep at least two rows",
    "series: window features (running total / rank in the order of a column) order by a column with distinct values, so their value does not depend on how ties would be broken",
    "series: join cases use two Pandas sources with coinciding unique key sets and are run in SYNC only; the row order of a joined table is not part of the property (rows compared sorted)",
]

KNOWN_THREAD = "threading-overlapping-steps-on-shared-cfw"  # F-C02-thread-lost-update (main module's finding, same predicate)
# findings of the unchanged tree met while generating the join cases (findings.d/C02_series.json); both are rejections at prepare
CLS_OTHER_FW_ABOVE_JOIN = "feature-on-other-framework-descends-from-both-sides-of-join"
CLS_TWO_LINKED_PARENTS = "feature-above-join-with-two-parents-that-both-need-the-link"


# --------------------------------------------------------------------------------------------------
# generators


def _row_expr(rng: Any, parents: List[str], ops: Tuple[str, ...] = ("add", "sub", "mul")) -> Any:
    expr: Any = ["col", parents[0]]
    for q in parents[1:]:
        expr = [rng.choice(list(ops)), expr, ["col", q]]
    if rng.random() < 0.5:
        expr = [rng.choice(["add", "sub"]), expr, ["const", rng.randint(1, 3)]]
    return expr


def _gen_reorder(rng: Any, sort_cols: List[str], force: bool) -> Dict[str, Any]:
    """How the group re-orders the frame before it computes its column."""
    kinds = ["sorted", "sorted", "sorted", "reversed", "shuffled", "rotated"] + ([] if force else ["identity"])
    kind = rng.choice(kinds)
    if kind == "sorted":
        return {"kind": "sorted", "by": rng.choice(sort_cols), "desc": rng.random() < 0.35}
    if kind == "shuffled":
        return {"kind": "shuffled", "seed": rng.randint(0, 10**6)}
    if kind == "rotated":
        return {"kind": "rotated", "k": rng.randint(1, 5)}
    return {"kind": kind}


def _unsorted_distinct(rng: Any, n: int, lo: int, hi: int) -> List[int]:
    vals = rng.sample(range(lo, hi), n)
    while n >= 3 and (vals == sorted(vals) or vals == sorted(vals, reverse=True)):
        rng.shuffle(vals)
    return vals


def _gen_pd_groups(rng: Any, uid: str, avail0: List[str], nullfree: Set[str], sort_cols: List[str], ocol: str, first_parents: Optional[List[str]] = None,
                   prefix: str = "G", fprefix: str = "d") -> Tuple[List[Dict[str, Any]], List[str]]:  # fmt: skip
    """1-4 Pandas groups on one compute-framework object; the first one returns a Series computed on a re-ordered view."""
    avail = list(avail0)
    series_feats: List[str] = []
    groups: List[Dict[str, Any]] = []
    k = 0
    for g in range(rng.randint(1, 4)):
        style: Any = "series" if g == 0 else rng.choice(["series", "series", True, False])
        feats: Dict[str, Any] = {}
        window = style == "series" and rng.random() < 0.35
        for _ in range(1 if style == "series" else rng.randint(1, 2)):
            fname = f"{fprefix}{uid}_{k}"
            k += 1
            if window:
                pool = [c for c in ((first_parents if g == 0 and first_parents else avail)) if c in nullfree]
                col = rng.choice(pool)
                w = {"op": rng.choice(["cumsum", "rank"]), "col": col, "by": ocol, "desc": rng.random() < 0.3}
                feats[fname] = {"parents": [col] + ([ocol] if ocol != col else []), "expr": ["col", col], "window": w}
                nullfree.add(fname)
            else:
                if g == 0 and first_parents:
                    parents = list(first_parents)
                else:
                    pool = series_feats if series_feats and rng.random() < 0.65 else avail
                    parents = [rng.choice(pool)]
                    if rng.random() < 0.4:
                        q = rng.choice(avail)
                        if q not in parents:
                            parents.append(q)
                feats[fname] = {"parents": parents, "expr": _row_expr(rng, parents)}
                if all(p_ in nullfree for p_ in parents):
                    nullfree.add(fname)
        reorder: Optional[Dict[str, Any]] = None
        if style == "series":
            reorder = {"kind": "view" if (g == 0 or rng.random() < 0.75) else "restored"} if window else _gen_reorder(rng, sort_cols + avail, force=(g == 0))
            if reorder["kind"] == "sorted":
                # the column the group sorts by must be in the frame it is handed: it is one of its input features
                (d0,) = feats.values()
                if reorder["by"] not in d0["parents"]:
                    d0["parents"].append(reorder["by"])
        groups.append({"name": f"{prefix}{uid}_{g}", "fw": "pd", "style": style, "features": feats, "reorder": reorder})
        avail += list(feats)
        if style == "series":
            series_feats += list(feats)
    return groups, series_feats


def _gen_tail(rng: Any, uid: str, start: str, prefix: str = "H", fprefix: str = "t") -> List[Dict[str, Any]]:
    """Consumers on other frameworks: a chain Pandas -> X (-> Y), every framework used by one contiguous stretch only."""
    groups = []
    prev = start
    k = 0
    for fw in rng.sample(["pa", "py"], rng.randint(1, 2)):
        for _ in range(rng.randint(1, 2)):
            f = f"{fprefix}{uid}_{k}"
            groups.append({"name": f"{prefix}{uid}_{k}", "fw": fw, "style": False, "features": {f: {"parents": [prev], "expr": [rng.choice(["add", "mul", "sub"]), ["col", prev], ["const", rng.randint(1, 3)]]}}, "reorder": None})
            prev = f
            k += 1
    return groups


def gen_series_spec(rng: Any) -> Dict[str, Any]:
    uid = F.uniq("")
    n = rng.randint(3, 7)
    ocol = f"r{uid}_o"
    cols: Dict[str, List[Any]] = {ocol: _unsorted_distinct(rng, n, -9, 40)}
    for i in range(rng.randint(1, 2)):
        nullable = rng.random() < 0.3
        cols[f"r{uid}_{i}"] = [None if (nullable and rng.random() < 0.25) else rng.randint(-5, 9) for _ in range(n)]
    flt = None
    if rng.random() < 0.45:
        keep = [rng.random() < 0.65 for _ in range(n)]
        while sum(keep) < 2 or all(keep):
            keep = [rng.random() < 0.65 for _ in range(n)]
        ftype = rng.choice(["min", "max"])
        fcol = f"r{uid}_f"
        cols[fcol] = [(rng.randint(5, 9) if kp else rng.randint(0, 4)) if ftype == "min" else (rng.randint(0, 4) if kp else rng.randint(5, 9)) for kp in keep]
        flt = {"col": fcol, "type": ftype, "value": 5 if ftype == "min" else 4}
    labels = None
    if rng.random() < 0.3:
        labels = rng.sample(range(100, 100 + 3 * n), n)  # the root group hands out a frame that was re-ordered / sliced before
    root = {"name": f"R{uid}", "cols": cols, "fw": "pd", "labels": labels}
    usable = [c for c in cols if flt is None or c != flt["col"]]
    nullfree = {c for c in usable if None not in cols[c]}
    groups, series_feats = _gen_pd_groups(rng, uid, usable, nullfree, sorted(nullfree), ocol)
    tail = _gen_tail(rng, uid, rng.choice(series_feats)) if rng.random() < 0.6 else []
    groups += tail
    req = [series_feats[0]] + [f for f in series_feats[1:] if rng.random() < 0.8]
    if tail:
        req.append(list(tail[-1]["features"])[0])
    req += [f for g in groups for f in g["features"] if f not in req and rng.random() < 0.4]
    req += [c for c in usable if rng.random() < 0.3]
    return {"roots": [root], "groups": groups, "request": [{"name": nm, "options": {}} for nm in req], "filter": flt}


def gen_series_join_spec(rng: Any) -> Dict[str, Any]:
    """Two Pandas sources (coinciding unique keys, shuffled independently), one link, a consumer Z with x over both sources, on
    top of it the Pandas groups of the class (first one: Series on a re-ordered view of the JOINED frame), a `pair` consumer that
    ties the value to the key of its row, and optionally consumers on other frameworks."""
    uid = F.uniq("")
    n = rng.randint(3, 6)
    keys = rng.sample(range(1, 10), n)
    srcs = []
    for i in range(2):
        ks = list(keys)
        rng.shuffle(ks)
        kname = f"k{uid}_{i}"
        cols: Dict[str, List[Any]] = {kname: ks}
        cols[f"v{uid}_{i}0"] = _unsorted_distinct(rng, n, 0, 30) if i == 0 else [rng.randint(0, 9) for _ in ks]
        if rng.random() < 0.5:
            cols[f"v{uid}_{i}1"] = [rng.randint(0, 9) for _ in ks]
        srcs.append({"name": f"S{uid}_{i}", "fw": "pd", "key": kname, "cols": cols})
    lv = [c for c in srcs[0]["cols"] if c != srcs[0]["key"]]
    rv = [c for c in srcs[1]["cols"] if c != srcs[1]["key"]]
    ocol = f"v{uid}_00"
    x = f"x{uid}"
    xpar = [rng.choice(lv), rng.choice(rv)]
    consumer = {"name": f"Z{uid}", "fw": "pd", "features": {x: {"parents": xpar, "expr": _row_expr(rng, xpar, ops=("add", "sub"))}}}
    k0 = srcs[0]["key"]
    nullfree = {x, k0, *lv}
    first = [x] if rng.random() < 0.6 else [x, rng.choice(lv)]
    tops, series_feats = _gen_pd_groups(rng, uid, [x, *lv], nullfree, [ocol, k0], ocol, first_parents=first, prefix="T", fprefix="w")
    d = rng.choice(series_feats)
    pair = f"p{uid}"
    tops.append({"name": f"P{uid}", "fw": "pd", "style": rng.choice([True, False]), "reorder": None,
                 "features": {pair: {"parents": [k0, d], "expr": ["add", ["mul", ["col", k0], ["const", 100000]], ["col", d]]}}})  # fmt: skip
    tail = _gen_tail(rng, uid, rng.choice(series_feats + lv)) if rng.random() < 0.25 else []
    tops += tail
    req = [series_feats[0], pair] + [f for f in series_feats[1:] if rng.random() < 0.7]
    if tail:
        req.append(list(tail[-1]["features"])[0])
    req += [f for g in tops for f in g["features"] if f not in req and rng.random() < 0.3]
    if rng.random() < 0.5:
        req.append(x)
    link = {"type": rng.choice(["inner", "left", "outer"]), "left": 0, "right": 1}
    return {"sources": srcs, "links": [link], "consumer": consumer, "tops": tops, "request": [{"name": nm, "options": {}} for nm in req], "joindag": True}


# --------------------------------------------------------------------------------------------------
# the generated groups' behaviour: make_group computes the column row by row; the hook turns the result into what a group that
# worked on a re-ordered view returns (same label -> value pairs, other order) resp. computes the window feature on the sorted view


def make_hooks(groups: List[Dict[str, Any]], root_labels: Dict[str, List[Any]], obs: Dict[str, Any]) -> Dict[str, Any]:
    import pandas as pd

    by_name = {g["name"]: g for g in groups}

    def view_of(data: Any, ro: Dict[str, Any]) -> Any:
        kind = ro["kind"]
        n = len(data)
        if kind == "sorted":
            return data.sort_values(ro["by"], ascending=not ro["desc"], kind="stable")
        if kind == "reversed":
            return data.iloc[::-1]
        if kind == "rotated":
            k = ro["k"] % n if n else 0
            return data.iloc[list(range(k, n)) + list(range(k))]
        if kind == "shuffled":
            p = list(range(n))
            random.Random(ro["seed"]).shuffle(p)
            return data.iloc[p]
        return data

    def after_calc(cls: Any, data: Any, features: Any, result: Any) -> Any:
        name = cls.__name__
        if name in root_labels and isinstance(result, pd.DataFrame):
            result = result.copy()
            result.index = pd.Index(root_labels[name][: len(result)])
            return result
        g = by_name.get(name)
        if g is None or g.get("reorder") is None or not isinstance(result, pd.Series):
            return None
        ro = g["reorder"]
        (fname, d), = g["features"].items()
        if "window" in d:
            w = d["window"]
            view = data.sort_values(w["by"], ascending=not w["desc"], kind="stable")
            out = view[w["col"]].cumsum() if w["op"] == "cumsum" else pd.Series(range(1, len(view) + 1), index=view.index)
            out = out.rename(fname)
            aligned = out.reindex(data.index)
            if ro["kind"] == "restored":
                out = aligned
        else:
            aligned = result
            out = result.reindex(view_of(data, ro).index)  # = the column computed row by row on the view, labels kept
        obs[fname] = {
            "range_index": list(data.index) == list(range(len(data))),
            "permuted": list(out.index) != list(data.index),
            "visible": F.to_columns({"c": out.tolist()})["c"] != F.to_columns({"c": aligned.tolist()})["c"],
            "rows": len(data),
        }
        return out

    return {"after_calc": after_calc}


# --------------------------------------------------------------------------------------------------
# reference evaluation (plain Python over row dicts; independent of mloda, pandas and of fgfactory's calculate)


def evaluate(rows: List[Dict[str, Any]], defs: Dict[str, Dict[str, Any]]) -> Dict[str, List[Any]]:
    """Bottom-up: every derived feature from its parents, row by row; a window feature from its parents' whole columns."""
    n = len(rows)
    cols: Dict[str, List[Any]] = {}
    for r in rows:
        for c in r:
            cols.setdefault(c, [])
    for c in cols:
        cols[c] = [r.get(c) for r in rows]

    def val(f: str) -> List[Any]:
        if f in cols:
            return cols[f]
        d = defs[f]
        for p_ in d["parents"]:
            val(p_)
        if "window" in d:
            w = d["window"]
            by, src = cols[w["by"]], cols[w["col"]]
            order = sorted(range(n), key=lambda i: by[i], reverse=bool(w["desc"]))
            out: List[Any] = [None] * n
            acc = 0
            for pos, i in enumerate(order):
                acc += src[i]
                out[i] = acc if w["op"] == "cumsum" else pos + 1
        else:
            out = [F.eval_expr(d["expr"], {p_: cols[p_][i] for p_ in F.expr_cols(d["expr"])}) for i in range(n)]
        cols[f] = out
        return out

    for f in defs:
        val(f)
    return cols


def passes(flt: Optional[Dict[str, Any]], row: Dict[str, Any]) -> bool:
    if flt is None:
        return True
    v = row[flt["col"]]
    return v >= flt["value"] if flt["type"] == "min" else v <= flt["value"]


def reference(spec: Dict[str, Any]) -> Dict[str, List[Any]]:
    root = spec["roots"][0]
    n = len(next(iter(root["cols"].values())))
    rows = [{c: v[i] for c, v in root["cols"].items()} for i in range(n)]
    rows = [r for r in rows if passes(spec.get("filter"), r)]
    defs = {f: d for g in spec["groups"] for f, d in g["features"].items()}
    return evaluate(rows, defs)


def join_reference(spec: Dict[str, Any]) -> Dict[str, List[Any]]:
    """Key sets coincide and are unique: inner = left = outer = one row per key."""
    byk: Dict[Any, Dict[str, Any]] = {}
    for s_ in spec["sources"]:
        for i, k in enumerate(s_["cols"][s_["key"]]):
            byk.setdefault(k, {}).update({c: v[i] for c, v in s_["cols"].items()})
    defs = {f: d for g in [spec["consumer"]] + spec["tops"] for f, d in g["features"].items()}
    return evaluate([byk[k] for k in sorted(byk)], defs)


def join_sides(spec: Dict[str, Any]) -> Dict[str, Set[int]]:
    """For every feature of a join spec the set of sources (0 = left, 1 = right) it descends from."""
    src = {c: {i} for i, s_ in enumerate(spec["sources"]) for c in s_["cols"]}
    defs = {f: d for g in [spec["consumer"]] + spec["tops"] for f, d in g["features"].items()}
    memo: Dict[str, Set[int]] = {}

    def sd(f: str) -> Set[int]:
        if f in src:
            return src[f]
        if f not in memo:
            memo[f] = set().union(*[sd(p_) for p_ in defs[f]["parents"]])
        return memo[f]

    return {f: sd(f) for f in list(defs) + list(src)}


def join_reject_class(spec: Dict[str, Any]) -> Optional[str]:
    """Input classes of the two known planner findings (decided on the request alone)."""
    sd = join_sides(spec)
    groups = [spec["consumer"]] + spec["tops"]
    need = S.closure({"groups": groups, "request": spec["request"]})
    join_fw = spec["sources"][0]["fw"]
    if any(g["fw"] != join_fw and f in need and sd[f] == {0, 1} for g in groups for f in g["features"]):
        return CLS_OTHER_FW_ABOVE_JOIN
    if any(f in need and sum(1 for p_ in d["parents"] if sd[p_] == {0, 1}) >= 2 for g in groups for f, d in g["features"].items()):
        return CLS_TWO_LINKED_PARENTS
    return None


# --------------------------------------------------------------------------------------------------
# judging


def _global_filter(flt: Optional[Dict[str, Any]]) -> Any:
    if flt is None:
        return None
    from mloda.user import GlobalFilter

    gf = GlobalFilter()
    gf.add_filter(flt["col"], flt["type"], {"value": flt["value"]})
    return gf


def _tags(spec_groups: List[Dict[str, Any]], obs: Dict[str, Any]) -> Dict[str, Any]:
    kinds = sorted({g["reorder"]["kind"] for g in spec_groups if g.get("reorder")})
    consumers_pd = set()
    consumers_fw = set()
    series_feats = {f for g in spec_groups if g.get("style") == "series" for f in g["features"]}
    for g in spec_groups:
        for d in g["features"].values():
            if any(p_ in series_feats for p_ in d["parents"]):
                if g["fw"] == "pd":
                    consumers_pd.add({True: "inplace", False: "newtable", "series": "series"}[g["style"]])
                else:
                    consumers_fw.add(g["fw"])
    return {
        "series_reorder": "+".join(kinds) or "-",
        "series_permuted": sum(1 for o in obs.values() if o["permuted"]),
        "series_misplacement_visible": any(o["permuted"] and o["visible"] for o in obs.values()),
        "series_consumers_same_fw": "+".join(sorted(consumers_pd)) or "-",
        "series_consumers_other_fw": "+".join(sorted(consumers_fw)) or "-",
        "series_window": any("window" in d for g in spec_groups for d in g["features"].values()),
    }


def check_rows(ctx: Ctx, suite: str, case: Any, want: Set[str], results: Optional[List[Any]], ref: Dict[str, List[Any]], fclass: Optional[str], sort_rows: bool) -> None:
    seen: Set[str] = set()
    for t in results or []:
        cols = F.to_columns(t)
        names = sorted(cols)
        for c in names:
            if c not in want:
                ctx.violation(suite, case, f"column {c} was returned but not requested", c, sorted(want), finding_class=fclass)
        names = [c for c in names if c in want]
        seen |= set(names)
        if not names:
            continue
        if sort_rows:
            nrow = len(cols[names[0]])
            got_rows = sorted(([cols[c][i] for c in names] for i in range(nrow)), key=lambda r: json.dumps(r, default=str))
            exp_rows = sorted(([ref[c][i] for c in names] for i in range(len(ref[names[0]]))), key=lambda r: json.dumps(r, default=str))
            if got_rows != exp_rows:
                ctx.violation(suite, case, f"rows of the returned table {names} (sorted) differ from the reference evaluation of the joined rows", got_rows, exp_rows, finding_class=fclass)
        else:
            for c in names:
                if cols[c] != ref[c]:
                    ctx.violation(suite, case, f"returned values of {c} differ from the reference evaluation (row by row)", cols[c], ref[c], finding_class=fclass)
    for m in sorted(want - seen):
        ctx.violation(suite, case, f"requested feature {m} is missing from the result", None, ref.get(m), finding_class=fclass)


# --------------------------------------------------------------------------------------------------
# suites


def series_suite(ctx: Ctx, n: int, fixed: Optional[List[Dict[str, Any]]] = None) -> None:
    from harness.corr.c02 import lean_defs, names_to_uuids  # the property's own translation of a plan into model definitions (read only)

    lean_reqs: List[Dict[str, Any]] = []
    metas: List[Any] = []
    for k in range(len(fixed) if fixed is not None else n):
        spec = fixed[k] if fixed is not None else gen_series_spec(ctx.rng)
        root = spec["roots"][0]
        ref = reference(spec)
        obs: Dict[str, Any] = {}
        hooks = make_hooks(spec["groups"], {root["name"]: root["labels"]} if root.get("labels") else {}, obs)
        want = {r["name"] for r in spec["request"]}
        index_kind = "+".join(([] if not root.get("labels") else ["own-labels"]) + ([] if not spec.get("filter") else ["filtered"])) or "range"
        try:
            sess = S.prepare(spec, S.build_classes(spec, hooks=hooks), global_filter=_global_filter(spec.get("filter")))
        except Exception as e:
            ctx.case("series", {"spec": spec}, True, series_index=index_kind, series_outcome="rejected")
            ctx.violation("series", {"spec": spec}, f"link-free request rejected at prepare: {e!r}"[:300])
            continue
        exp = S.export_plan(sess)
        modes = ["sync"] + (["thread"] if (fixed is None and ctx.rng.random() < 0.25) else [])
        for mode in modes:
            obs.clear()
            rr = S.run_session(sess, mode)
            case = {"spec": spec, "mode": mode}
            tags = _tags(spec["groups"], obs)
            fclass = KNOWN_THREAD if (mode == "thread" and S.overlap_on_shared_fw(exp, rr.events)) else None
            ctx.case("series", case, tags["series_misplacement_visible"], series_index=index_kind, series_mode=mode, series_outcome="error" if rr.error else "ok",
                     series_nonrange_frame_seen=any(not o["range_index"] for o in obs.values()), **tags)  # fmt: skip
            if rr.timed_out:
                ctx.violation("series", case, "run did not terminate", None, None)
            elif rr.error is not None:
                ctx.violation("series", case, f"run raised: {rr.error[-200:]}", rr.error[-300:], "values", finding_class=fclass)
            else:
                check_rows(ctx, "series", case, want, rr.results, ref, fclass, sort_rows=False)
            rowwise_pd = all(g["fw"] == "pd" and not any("window" in d for d in g["features"].values()) for g in spec["groups"])
            if mode == "sync" and rowwise_pd and rr.error is None and not rr.timed_out:
                mspec = {"roots": [{"name": root["name"], "fw": "pd", "cols": {c: ref[c] for c in root["cols"]}}], "groups": spec["groups"], "request": spec["request"]}
                try:
                    defs = lean_defs(mspec, exp)
                except KeyError:
                    defs = []
                if defs:
                    names = names_to_uuids(exp)
                    wantu = [u for st in exp["steps"] if st["kind"] == "fg" and st["result"] for u in st["outs"] if names.get(u) in want]
                    lean_reqs.append({"op": "C02.exec", "steps": S.lean_plan(exp)["steps"], "defs": defs, "want": wantu})
                    metas.append((spec, exp, wantu, rr))
    if lean_reqs:
        outs = ctx.lean.batch(lean_reqs)
        for (spec, exp, wantu, rr), o in zip(metas, outs):
            names = names_to_uuids(exp)
            ctx.case("series_exec", {"spec": spec}, len(exp["steps"]) >= 3)
            model = {names[u]: v for u, v in zip(wantu, o.get("values", []))}
            impl: Dict[str, Any] = {}
            for t in rr.results or []:
                impl.update(F.to_columns(t))
            if not o.get("returned") or any(model.get(nm) != impl.get(nm) for nm in model):
                ctx.disagree("series_exec", {"spec": spec}, {k_: impl.get(k_) for k_ in model}, {"returned": o.get("returned"), "values": model})


def join_suite(ctx: Ctx, n: int, fixed: Optional[List[Dict[str, Any]]] = None) -> None:
    from mloda.user import mloda

    for k in range(len(fixed) if fixed is not None else n):
        spec = fixed[k] if fixed is not None else gen_series_join_spec(ctx.rng)
        ref = join_reference(spec)
        obs: Dict[str, Any] = {}
        hooks = make_hooks(spec["tops"], {}, obs)
        want = {r["name"] for r in spec["request"]}
        case = {"spec": spec, "mode": "sync"}
        try:
            classes, links, feats, fws = S.build_link_request(spec, hooks)
            fws = set(fws) | {F.FW_SHORT[g["fw"]] for g in spec["tops"]}  # consumers on other frameworks
            sess = mloda.prepare(list(feats), compute_frameworks=fws, links=links, plugin_collector=F.collector(set(classes.values())))
        except Exception as e:
            rc = join_reject_class(spec)
            ctx.case("series_join", case, True, series_join_outcome="rejected", series_join_known_class=str(rc))
            ctx.violation("series_join", case, f"request with one link between two sources rejected at prepare: {e!r}"[:300], repr(e)[:200], "values", finding_class=rc)
            continue
        rr = S.run_session(sess, "sync")
        tags = _tags(spec["tops"], obs)
        ctx.case("series_join", case, tags["series_misplacement_visible"], series_join_type=spec["links"][0]["type"], series_join_outcome="error" if rr.error else "ok",
                 **{k_.replace("series_", "series_join_"): v for k_, v in tags.items()})  # fmt: skip
        if rr.timed_out:
            ctx.violation("series_join", case, "run did not terminate", None, None)
        elif rr.error is not None:
            ctx.violation("series_join", case, f"run raised: {rr.error[-200:]}", rr.error[-300:], "values")
        else:
            check_rows(ctx, "series_join", case, want, rr.results, ref, None, sort_rows=True)


def run(ctx: Ctx) -> None:
    ctx.extra["series_rule"] = (
        "series: Pandas groups that return only their new column as a pd.Series computed on a re-ordered view of the frame (sorted by a column, reversed, "
        "rotated, shuffled, window features in sort order; index = permutation of the frame's index) over frames with the default index, filtered by a "
        "GlobalFilter, with labels of their own, or produced by a join; consumers of the column on Pandas (new table / in place / Series) and behind transform "
        "steps on PyArrow / PythonDict; every requested feature is compared row by row (join: sorted rows, incl. a key*100000+value consumer) with a plain-Python "
        "bottom-up evaluation of the graph on the (filtered / joined) source rows; non-trivial = a permuted Series whose values would sit on other rows if the labels were ignored"
    )
    series_suite(ctx, ctx.budget(70, 1500))
    join_suite(ctx, ctx.budget(25, 500))
    S.stop_flight_server()


def search(ctx: Ctx, broken: List[str]) -> None:
    run(ctx)


def replay(ctx: Ctx, body: Dict[str, Any]) -> None:
    """Re-run the recorded case from its spec (the spec holds everything: data, re-ordering of every group, filter, request)."""
    case = body.get("case") or {}
    suite = body.get("suite")
    if isinstance(case, dict) and "spec" in case and suite in ("series", "series_exec"):
        series_suite(ctx, 1, fixed=[case["spec"]])
    elif isinstance(case, dict) and "spec" in case and suite == "series_join":
        join_suite(ctx, 1, fixed=[case["spec"]])
    else:
        run(ctx)
    S.stop_flight_server()
