"""C18 - link sets are validated; the applicable link follows the documented rules.

Suites (all call the REAL mloda code on REAL dynamically created FeatureGroup subclasses and diff against the Lean
model `Links` through the line protocol; the oracle below is written from the property text, not from the model):

  mro_rel        __mro__ / issubclass / ResolveLinks._inheritance_distance on every class pair of every hierarchy
  match_fn       ResolveLinks._find_matching_links (+ Link.matches_exact/_polymorphic) - exhaustive small scope + seeded
  select_fn      ResolveLinks._select_most_specific_links called directly on arbitrary link lists (9999 branch)
  validate_fn    LinkValidator.validate_links on real sets - exhaustive small scope + seeded (+ invalid join types)
  mkset          Python set semantics of Link.__eq__/__hash__ with colliding class names
  resolve_conf   ResolveLinkValidator.validate_no_conflicting_join_types
  index_fn       Index.is_a_part_of_ (all tuple pairs up to length 3), FeatureGroup.supports_index with inherited index_columns
  e2e_api        mloda.prepare / run with links passed to the API: rejection before execution, JoinStep links, joined rows
  e2e_feature    the same link sets attached to input features (Feature(link=...))
  e2e_index      group eligibility by index support through prepare
"""
from __future__ import annotations

import itertools
import os
import re
import tempfile
from typing import Any, Dict, Iterable, List, Optional, Sequence, Set, Tuple

from harness.core import Ctx
from harness import fgfactory as F

ASSUMPTIONS = [
    "single inheritance only (each generated class has one FeatureGroup base); issubclass on the ABCMeta classes equals MRO membership (no register()/__subclasshook__) - checked by suite mro_rel",
    "link sides are FeatureGroup or generated subclasses of it (ABC/object never appear as link sides)",
    "a Python set keeps the first inserted of equal elements; its iteration order is read from the very set passed to mloda",
    "documented exemption: APPEND/UNION links may exist in both directions (tests/test_core/.../test_link_validator.py); the third validator message documents that a RIGHT join's left group must not occur in any other link",
    "end-to-end planner limitations unrelated to C18 (execution_plan.py 'more than one solution', append/union index rules, right joins on polymorphic groups) are classified 'other-planner-error' and not judged",
]

JTS = ["inner", "left", "right", "outer", "append", "union"]
STACK = {"append", "union"}
UUID_RE = re.compile(r"[0-9a-f]{8}-[0-9a-f]{4}-[0-9a-f]{4}-[0-9a-f]{4}-[0-9a-f]{12}")

# ------------------------------------------------------------------------------------------------
# hierarchies


def tree_shapes(depth: int, maxch: int) -> List[tuple]:
    if depth <= 1:
        return [()]
    sub = tree_shapes(depth - 1, maxch)
    out: List[tuple] = []
    for k in range(maxch + 1):
        for combo in itertools.combinations_with_replacement(range(len(sub)), k):
            out.append(tuple(sub[i] for i in combo))
    return out


def flatten(forest: Sequence[tuple]) -> List[Optional[int]]:
    parents: List[Optional[int]] = []

    def go(shape: tuple, parent: Optional[int]) -> None:
        me = len(parents)
        parents.append(parent)
        for ch in shape:
            go(ch, me)

    for t in forest:
        go(t, None)
    return parents


def forests(max_roots: int, depth: int, maxch: int, max_total: int) -> List[List[Optional[int]]]:
    shapes = tree_shapes(depth, maxch)
    out = []
    for k in range(1, max_roots + 1):
        for combo in itertools.combinations_with_replacement(shapes, k):
            p = flatten(combo)
            if len(p) <= max_total:
                out.append(p)
    return out


def chain(parents: Sequence[Optional[int]], c: int) -> List[int]:
    out = [c]
    while parents[out[-1]] is not None:
        out.append(parents[out[-1]])  # type: ignore[arg-type]
    return out


class Universe:
    """Real classes for a parent array.  `fg_root`: class 0 *is* FeatureGroup (everything else must descend from it)."""

    def __init__(self, parents: Sequence[Optional[int]], names: Optional[Sequence[str]] = None, idx: Optional[Sequence[Any]] = None, fg_root: bool = False):
        from mloda.core.abstract_plugins.feature_group import FeatureGroup
        from mloda.core.abstract_plugins.components.index.index import Index

        self.parents = list(parents)
        self.classes: List[type] = []
        self.names: List[str] = []
        self.idx = list(idx) if idx is not None else [None] * len(parents)
        for c, p in enumerate(parents):
            if fg_root and c == 0:
                self.classes.append(FeatureGroup)
                self.names.append("FeatureGroup")
                continue
            base = FeatureGroup if p is None else self.classes[p]
            nm = names[c] if names is not None else F.uniq(f"L{c}_")
            ns: Dict[str, Any] = {"__module__": F.MODNAME}
            d = self.idx[c]
            if d is not None:
                r = d["r"]
                ns["index_columns"] = classmethod(lambda cls, r=r: None if r is None else [Index(tuple(t)) for t in r])
            self.classes.append(type(nm, (base,), ns))
            self.names.append(nm)

    def hier_json(self) -> Dict[str, Any]:
        return {"parents": self.parents, "names": self.names, "idx": self.idx}


INVALID_JT = object()  # one sentinel "not a JoinType" object


def mk_link(u: Universe, spec: Dict[str, Any]) -> Any:
    from mloda.core.abstract_plugins.components.link import Link, JoinSpec
    from mloda.core.abstract_plugins.components.index.index import Index

    jt: Any = spec["jt"] if spec["jt"] != "invalid" else INVALID_JT
    return Link(jt, JoinSpec(u.classes[spec["l"]], Index(tuple(spec["li"]))), JoinSpec(u.classes[spec["r"]], Index(tuple(spec["ri"]))))


# ------------------------------------------------------------------------------------------------
# the oracle - from the property text only


def o_dist(parents: Sequence[Optional[int]], c: int, anc: int) -> Optional[int]:
    """number of inheritance steps from c up to anc; None when anc is not c or an ancestor of c"""
    d = 0
    cur: Optional[int] = c
    while cur is not None:
        if cur == anc:
            return d
        cur = parents[cur]
        d += 1
    return None


def o_links(parents: Sequence[Optional[int]], links: Sequence[Dict[str, Any]], x: int, y: int) -> Set[int]:
    """'the link used is an exact-class link if one exists, otherwise only links whose sides are ancestors at equal
    inheritance distance (same concrete class for self links), the closest one winning'"""
    exact = {l["uid"] for l in links if l["l"] == x and l["r"] == y}
    if exact:
        return exact
    cand: List[Tuple[int, int]] = []
    for l in links:
        dl, dr = o_dist(parents, x, l["l"]), o_dist(parents, y, l["r"])
        if dl is None or dr is None or dl != dr:
            continue
        if l["l"] == l["r"] and x != y:
            continue
        cand.append((dl, l["uid"]))
    if not cand:
        return set()
    m = min(d for d, _ in cand)
    return {u for d, u in cand if d == m}


def o_asymmetric(parents: Sequence[Optional[int]], l: Dict[str, Any], x: int, y: int) -> bool:
    """input class of finding F-C18-asymmetric: link over two classes unrelated by inheritance, one side exact, the other
    side a proper ancestor"""
    dl, dr = o_dist(parents, x, l["l"]), o_dist(parents, y, l["r"])
    if dl is None or dr is None or dl == dr or l["l"] == l["r"]:
        return False
    related = o_dist(parents, l["l"], l["r"]) is not None or o_dist(parents, l["r"], l["l"]) is not None
    return (not related) and (dl == 0 or dr == 0)


def o_differ(i: Dict[str, Any], j: Dict[str, Any]) -> bool:
    return any(i[k] != j[k] for k in ("jt", "l", "r", "li", "ri"))


def o_contra_pairs(links: Sequence[Dict[str, Any]]) -> List[Tuple[str, int, int]]:
    """the three contradiction patterns of the property, as (pattern, uid_i, uid_j)"""
    out = []
    for i in links:
        for j in links:
            if i["uid"] == j["uid"] or not o_differ(i, j):
                continue
            same = i["l"] == j["l"] and i["r"] == j["r"]
            rev = i["l"] == j["r"] and i["r"] == j["l"]
            if (same or rev) and not (i["jt"] in STACK and j["jt"] in STACK):
                out.append(("two-joins-same-pair", i["uid"], j["uid"]))
            if same and i["jt"] != j["jt"]:
                out.append(("join-type-conflict", i["uid"], j["uid"]))
            if i["jt"] == "right" and j["jt"] == "right" and i["l"] == j["l"]:
                out.append(("right-joins-share-left", i["uid"], j["uid"]))
    return out


def o_right_reuse(links: Sequence[Dict[str, Any]]) -> bool:
    """documented over-rejection (third validator message): a RIGHT join's left group occurs in another link"""
    for i in links:
        if i["jt"] != "right":
            continue
        for j in links:
            if i["uid"] != j["uid"] and o_differ(i, j) and (i["l"] == j["l"] or i["l"] == j["r"]):
                return True
    return False


def o15_only(links: Sequence[Dict[str, Any]]) -> bool:
    """input class of finding F-C18-same-pair-same-type: every contradiction in the set is a pair of links over the same
    ORDERED pair with the same (non-stacking) join type that differ only in their indexes"""
    pairs = o_contra_pairs(links)
    if not pairs:
        return False
    by = {l["uid"]: l for l in links}
    for pat, a, b in pairs:
        i, j = by[a], by[b]
        # self links are reversed pairs of themselves: the code rejects those, they are not in the class
        if not (pat == "two-joins-same-pair" and i["l"] == j["l"] and i["r"] == j["r"] and i["l"] != i["r"] and i["jt"] == j["jt"]):
            return False
    return True


def o_prefix(a: Sequence[str], b: Sequence[str]) -> bool:
    return len(a) <= len(b) and list(b[: len(a)]) == list(a)


# ------------------------------------------------------------------------------------------------
# helpers


def chunks(xs: List[Any], n: int) -> Iterable[List[Any]]:
    for i in range(0, len(xs), n):
        yield xs[i : i + n]


def classify_validator_error(e: BaseException) -> str:
    msg = str(e)
    if "at least two different defined joins" in msg:
        return "double"
    if "different join types for the same feature groups" in msg:
        return "conflict"
    if "multiple right joins for the same feature group" in msg:
        return "right"
    if "is not supported" in msg and "Join type" in msg:
        return "jointype"
    return "other"


def real_validate(links_set: Optional[Set[Any]], uid_of: Dict[str, int]) -> Dict[str, Any]:
    from mloda.core.abstract_plugins.components.validators.link_validator import LinkValidator

    try:
        LinkValidator.validate_links(links_set)
        return {"r": "ok"}
    except ValueError as e:
        k = classify_validator_error(e)
        out: Dict[str, Any] = {"r": k}
        if k in ("double", "conflict", "right"):
            us = UUID_RE.findall(str(e))
            if len(us) >= 2:
                out["i"], out["j"] = uid_of.get(us[0], -1), uid_of.get(us[1], -1)
        return out


# ------------------------------------------------------------------------------------------------
# function level: matching


def all_pairs(n: int) -> List[List[int]]:
    return [[x, y] for x in range(n) for y in range(n)]


def run_match_cases(ctx: Ctx, suite: str, cases: List[Tuple[List[Optional[int]], List[Dict[str, Any]], bool]], universes: Dict[Tuple, Universe]) -> None:
    """cases: (parents, link specs with uid, fg_root).  Evaluates every class pair of every case."""
    from mloda.core.prepare.resolve_links import ResolveLinks

    for block in chunks(cases, 1500):
        reqs, impls, metas = [], [], []
        for parents, lspecs, fg_root in block:
            key = (tuple(parents), fg_root)
            u = universes.get(key)
            if u is None:
                u = universes[key] = Universe(parents, fg_root=fg_root)
            objs = [mk_link(u, s) for s in lspecs]
            uid_of = {id(o): s["uid"] for o, s in zip(objs, lspecs)}
            spec_of = {s["uid"]: s for s in lspecs}
            lset = set(objs)
            order = [spec_of[uid_of[id(o)]] for o in lset]  # the set's real iteration order
            resolver = ResolveLinks(None, lset)  # type: ignore[arg-type]
            pairs = all_pairs(len(parents))
            res = []
            for x, y in pairs:
                got = resolver._find_matching_links(u.classes[x], u.classes[y])
                # cross-check the public Link predicates against the two passes
                res.append([uid_of[id(l)] for l in got])
            reqs.append({"op": "C18.find", **u.hier_json(), "links": order, "pairs": pairs})
            impls.append(res)
            metas.append((parents, order, pairs, fg_root))
        outs = ctx.lean.batch(reqs)
        for (parents, order, pairs, fg_root), res, o in zip(metas, impls, outs):
            case = {"parents": parents, "links": order, "fg_root": fg_root}
            npoly = 0
            nasym = 0
            for (x, y), got, mo in zip(pairs, res, o):
                if got != mo["m"]:
                    ctx.disagree(suite, {**case, "pair": [x, y]}, got, mo["m"])
                exp = o_links(parents, order, x, y)
                gs = set(got)
                exact = any(l["l"] == x and l["r"] == y for l in order)
                if not exact and gs:
                    npoly += 1
                # never a sibling mismatch (explicit clause)
                by = {l["uid"]: l for l in order}
                for uid in gs:
                    l = by[uid]
                    if l["l"] == l["r"] and x != y:
                        ctx.violation(suite, {**case, "pair": [x, y]}, f"self link {l} used for two different classes ({x},{y}) - sibling mismatch", sorted(gs), sorted(exp))
                if gs != exp:
                    extra = gs - exp
                    asym = [l["uid"] for l in order if o_asymmetric(parents, l, x, y)]
                    cls = None
                    if asym and got == mo["m"] and not exact and (extra <= set(asym)):
                        cls = "asymmetric-polymorphic-match"
                        nasym += 1
                    ctx.violation(suite, {**case, "pair": [x, y]}, f"links used for pair ({x},{y}) are {sorted(gs)}, property says {sorted(exp)}", sorted(gs), sorted(exp), finding_class=cls)
            ctx.case(suite, case, npoly > 0, n_classes=len(parents), n_links=len(order))
            ctx.evaluations += len(pairs) - 1
            if nasym:
                ctx.tag("asymmetric_pairs", suite, nasym)


def link_lr_universe(n: int) -> List[Tuple[int, int]]:
    return [(l, r) for l in range(n) for r in range(n)]


def lspec(uid: int, l: int, r: int, jt: str = "inner", li: Sequence[str] = ("k",), ri: Sequence[str] = ("k",)) -> Dict[str, Any]:
    return {"jt": jt, "l": l, "r": r, "li": list(li), "ri": list(ri), "uid": uid}


def suite_match(ctx: Ctx, universes: Dict[Tuple, Universe]) -> None:
    # exhaustive small scope
    if ctx.quick:
        scope = forests(2, 3, 2, 4)
        max_links = 2
    else:
        scope = forests(2, 3, 2, int(os.environ.get("C18_MAX_CLASSES", "6")))
        max_links = 3
    cases: List[Tuple[List[Optional[int]], List[Dict[str, Any]], bool]] = []
    for parents in scope:
        lr = link_lr_universe(len(parents))
        for k in range(0, max_links + 1):
            for combo in itertools.combinations(lr, k):
                cases.append((parents, [lspec(i, l, r, li=(f"k{i}",)) for i, (l, r) in enumerate(combo)], False))
    ctx.tag("exhaustive_scope", f"match: {len(scope)} hierarchies x link sets<= {max_links}", len(cases))
    run_match_cases(ctx, "match_fn", cases, universes)

    # seeded: larger hierarchies (all forests depth<=3, width<=2, <=7 classes + 3-root forests), links biased to the chains
    big = forests(2, 3, 2, 7) + forests(3, 2, 2, 7)
    n = ctx.budget(1500, 30000)
    cases = []
    for _ in range(n):
        parents = ctx.rng.choice(big)
        fg_root = ctx.rng.random() < 0.15
        if fg_root:  # class 0 is FeatureGroup itself, every other root hangs below it
            parents = [None] + [0 if p is None else p + 1 for p in parents]
        nc = len(parents)
        x, y = ctx.rng.randrange(nc), ctx.rng.randrange(nc)
        cx, cy = chain(parents, x), chain(parents, y)
        k = ctx.rng.randint(1, 4)
        ls = []
        for i in range(k):
            r = ctx.rng.random()
            if r < 0.6:
                l_, r_ = ctx.rng.choice(cx), ctx.rng.choice(cy)
            elif r < 0.75:
                l_, r_ = ctx.rng.choice(cy), ctx.rng.choice(cx)
            elif r < 0.9:
                c = ctx.rng.choice(cx + cy)
                l_, r_ = c, c
            else:
                l_, r_ = ctx.rng.randrange(nc), ctx.rng.randrange(nc)
            ls.append(lspec(i, l_, r_, jt=ctx.rng.choice(JTS), li=(f"k{i}",)))
        cases.append((parents, ls, fg_root))
    run_match_cases(ctx, "match_seeded", cases, universes)


def suite_mro(ctx: Ctx, universes: Dict[Tuple, Universe]) -> None:
    from mloda.core.prepare.resolve_links import ResolveLinks
    from mloda.core.abstract_plugins.components.link import Link, JoinSpec

    scope = forests(2, 3, 2, 7) + forests(3, 2, 2, 7)
    resolver = ResolveLinks(None, None)  # type: ignore[arg-type]
    reqs, impls, metas = [], [], []
    for parents in scope:
        for fg_root in (False, True):
            ps = parents if not fg_root else [None] + [0 if p is None else p + 1 for p in parents]
            key = (tuple(ps), fg_root)
            u = universes.get(key) or universes.setdefault(key, Universe(ps, fg_root=fg_root))
            pairs = all_pairs(len(ps))
            res = []
            for c, p in pairs:
                C, P = u.classes[c], u.classes[p]
                sub = issubclass(C, P)
                d = resolver._inheritance_distance(C, P)
                lk = Link("inner", JoinSpec(P, "k"), JoinSpec(P, "k"))
                # Link.matches_* are the public predicates the two passes use
                if lk.matches_polymorphic(C, C) != sub or lk.matches_exact(C, C) != (C is P) or lk.matches(C, C) != sub:
                    ctx.violation("mro_rel", {"parents": ps, "pair": [c, p]}, "Link.matches_* disagree with issubclass / identity")
                res.append({"sub": sub, "dist": d})
                od = o_dist(ps, c, p)
                if (od is not None) != sub or (od if od is not None else 9999) != d:
                    ctx.violation("mro_rel", {"parents": ps, "pair": [c, p]}, f"issubclass/_inheritance_distance = {sub}/{d}, hierarchy says {od}")
            mro_real = [[u.classes.index(k) for k in u.classes[c].__mro__ if k in u.classes] for c in range(len(ps))]
            reqs.append({"op": "C18.rel", **u.hier_json(), "pairs": pairs})
            impls.append(res)
            metas.append((ps, "rel"))
            reqs.append({"op": "C18.mro", **u.hier_json(), "cs": list(range(len(ps)))})
            impls.append(mro_real)
            metas.append((ps, "mro"))
    outs = ctx.lean.batch(reqs)
    for (ps, kind), i, o in zip(metas, impls, outs):
        ctx.case("mro_rel", {"parents": ps, "kind": kind}, len(ps) > 1, kind=kind)
        if kind == "rel":
            ctx.evaluations += len(i) - 1
        if i != o:
            ctx.disagree("mro_rel", {"parents": ps, "kind": kind}, i, o)


def suite_select(ctx: Ctx, universes: Dict[Tuple, Universe]) -> None:
    """_select_most_specific_links called directly with link lists that were NOT pre-filtered (distance 9999 paths)."""
    from mloda.core.prepare.resolve_links import ResolveLinks

    scope = forests(2, 3, 2, 5)
    n = ctx.budget(400, 8000)
    reqs, impls, metas = [], [], []
    for _ in range(n):
        parents = ctx.rng.choice(scope)
        u = universes.get((tuple(parents), False)) or universes.setdefault((tuple(parents), False), Universe(parents))
        nc = len(parents)
        ls = [lspec(i, ctx.rng.randrange(nc), ctx.rng.randrange(nc), li=(f"k{i}",)) for i in range(ctx.rng.randint(0, 4))]
        objs = [mk_link(u, s) for s in ls]
        uid_of = {id(o): s["uid"] for o, s in zip(objs, ls)}
        resolver = ResolveLinks(None, set(objs))  # type: ignore[arg-type]
        pairs = all_pairs(nc)
        res = [[uid_of[id(l)] for l in resolver._select_most_specific_links(objs, u.classes[x], u.classes[y])] for x, y in pairs]
        reqs.append({"op": "C18.select", **u.hier_json(), "links": ls, "pairs": pairs})
        impls.append(res)
        metas.append({"parents": parents, "links": ls})
    outs = ctx.lean.batch(reqs)
    for m, i, o in zip(metas, impls, outs):
        ctx.case("select_fn", m, bool(m["links"]), n_links=len(m["links"]))
        ctx.evaluations += len(i) - 1
        if i != o:
            bad = next(k for k in range(len(i)) if i[k] != o[k])
            ctx.disagree("select_fn", {**m, "pair_index": bad}, i[bad], o[bad])


# ------------------------------------------------------------------------------------------------
# function level: validation


def judge_validation(ctx: Ctx, suite: str, case: Dict[str, Any], links: Sequence[Dict[str, Any]], impl: Dict[str, Any], model: Optional[Dict[str, Any]]) -> None:
    """the oracle for one validate_links call on the set `links` (specs in iteration order)"""
    contra = o_contra_pairs(links)
    has_invalid = any(l["jt"] == "invalid" for l in links)
    accepted = impl["r"] == "ok"
    if contra and accepted:
        cls = None
        if o15_only(links) and (model is None or model["v"]["r"] == "ok"):
            cls = "same-ordered-pair-same-jointype-different-index"
        ctx.violation(suite, case, f"contradictory link set accepted: {contra[0]}", impl, "rejected", finding_class=cls)
    if not accepted and not contra and not has_invalid and not o_right_reuse(links):
        ctx.violation(suite, case, f"non-contradictory link set rejected ({impl})", impl, "accepted")
    if has_invalid and accepted:
        ctx.violation(suite, case, "a link whose join type is not a JoinType was accepted", impl, "rejected")


def run_validate_cases(ctx: Ctx, suite: str, cases: List[Tuple[List[str], List[Dict[str, Any]]]], ucache: Dict[Tuple, Universe]) -> None:
    """cases: (class names, link specs in insertion order)."""
    for block in chunks(cases, 4000):
        reqs, impls, metas = [], [], []
        for names, ls in block:
            key = tuple(names)
            u = ucache.get(key)
            if u is None:
                u = ucache[key] = Universe([None] * len(names), names=names)
            objs = [mk_link(u, s) for s in ls]
            sp = {id(o): s for o, s in zip(objs, ls)}
            lset: Set[Any] = set()
            for o in objs:
                lset.add(o)
            order = [sp[id(o)] for o in lset]
            uid_of = {str(o.uuid): sp[id(o)]["uid"] for o in lset}
            impl = real_validate(lset, uid_of)
            reqs.append({"op": "C18.validate", **u.hier_json(), "links": order})
            impls.append(impl)
            metas.append((names, ls, order))
        outs = ctx.lean.batch(reqs)
        for (names, ls, order), impl, o in zip(metas, impls, outs):
            case = {"names": names, "links": order}
            ctx.case(suite, case, len(order) >= 2, outcome=impl["r"], n_links=len(order))
            if impl != o["v"]:
                ctx.disagree(suite, case, impl, o["v"])
            judge_validation(ctx, suite, case, order, impl, o)
            # the Lean transcription of the property wording must agree with the Python oracle (guards the theorem statement)
            if bool(o_contra_pairs(order)) != o["contra"] or o_right_reuse(order) != o["reuse"]:
                ctx.disagree(suite + ":spec", case, {"contra": bool(o_contra_pairs(order)), "reuse": o_right_reuse(order)}, {"contra": o["contra"], "reuse": o["reuse"]})


def suite_validate(ctx: Ctx) -> None:
    ucache: Dict[Tuple, Universe] = {}
    names = [F.uniq("VA_"), F.uniq("VB_"), F.uniq("VC_")]
    # exhaustive: 3 classes x 6 join types x left index in {k1,k2} (right index fixed) -> 108 links; all sets up to 2 (quick) / 3 (thorough)
    uni = [(jt, l, r, li) for jt in JTS for l in range(3) for r in range(3) for li in ("k1", "k2")]
    max_links = 2 if ctx.quick else 3
    cases: List[Tuple[List[str], List[Dict[str, Any]]]] = [(names, [])]
    for k in range(1, max_links + 1):
        for combo in itertools.combinations(uni, k):
            cases.append((names, [lspec(i, l, r, jt=jt, li=(li,), ri=("k1",)) for i, (jt, l, r, li) in enumerate(combo)]))
    ctx.tag("exhaustive_scope", f"validate: 108 links, sets<= {max_links}", len(cases))
    run_validate_cases(ctx, "validate_fn", cases, ucache)
    # None
    impl = real_validate(None, {})
    o = ctx.lean.batch([{"op": "C18.validate", "parents": [], "names": [], "idx": [], "links": None}])[0]
    ctx.case("validate_fn", {"links": None}, False, outcome=impl["r"])
    if impl != o["v"]:
        ctx.disagree("validate_fn", {"links": None}, impl, o["v"])

    # seeded: up to 5 links, 4 classes, invalid join types, both indexes vary, duplicate class names (set semantics)
    n = ctx.budget(1500, 30000)
    cases = []
    for _ in range(n):
        dup = ctx.rng.random() < 0.3
        nms = [F.uniq("VS_") for _ in range(4)]
        if dup:
            nms[1] = nms[0]
            if ctx.rng.random() < 0.3:
                nms[3] = nms[2]
        k = ctx.rng.randint(1, 5)
        ls: List[Dict[str, Any]] = []
        for i in range(k):
            if ls and ctx.rng.random() < 0.6:  # derive from an earlier link: reverse / retype / reindex / same left
                b = ctx.rng.choice(ls)
                m = ctx.rng.choice(["rev", "type", "index", "left", "copy", "rename"])
                s = dict(b, uid=i)
                if m == "rev":
                    s["l"], s["r"] = b["r"], b["l"]
                    s["li"], s["ri"] = b["ri"], b["li"]
                elif m == "type":
                    s["jt"] = ctx.rng.choice(JTS)
                elif m == "index":
                    s["li"] = [ctx.rng.choice(["k1", "k2"])]
                    s["ri"] = [ctx.rng.choice(["k1", "k2"])]
                elif m == "left":
                    s["r"] = ctx.rng.randrange(4)
                    s["jt"] = ctx.rng.choice(["right", "right", b["jt"]])
                elif m == "rename":  # same names, other class objects (only differs when names collide)
                    s["l"] = {0: 1, 1: 0, 2: 3, 3: 2}[b["l"]] if dup else b["l"]
            else:
                s = lspec(i, ctx.rng.randrange(4), ctx.rng.randrange(4), jt=ctx.rng.choice(JTS + ["right"]), li=(ctx.rng.choice(["k1", "k2"]),), ri=(ctx.rng.choice(["k1", "k2"]),))
            if ctx.rng.random() < 0.04:
                s["jt"] = "invalid"
            ls.append(s)
        cases.append((nms, ls))
    # mkset: which links survive set construction
    reqs, impls, metas = [], [], []
    for nms, ls in cases:
        if len(set(nms)) == len(nms):
            continue
        u = Universe([None] * len(nms), names=nms)
        objs = [mk_link(u, s) for s in ls]
        lset: Set[Any] = set()
        for o_ in objs:
            lset.add(o_)
        surv = sorted(s["uid"] for o_, s in zip(objs, ls) if any(o_ is m for m in lset))
        reqs.append({"op": "C18.mkSet", **u.hier_json(), "links": ls})
        impls.append(surv)
        metas.append({"names": nms, "links": ls})
    outs = ctx.lean.batch(reqs)
    for m, i, o in zip(metas, impls, outs):
        ctx.case("mkset", m, len(i) < len(m["links"]), dropped=len(m["links"]) - len(i))
        if i != sorted(o):
            ctx.disagree("mkset", m, i, sorted(o))
    run_validate_cases(ctx, "validate_seeded", cases, ucache)


def suite_resolve_conflict(ctx: Ctx) -> None:
    from mloda.core.prepare.validators.resolve_link_validator import ResolveLinkValidator

    names = [F.uniq("RA_"), F.uniq("RB_"), F.uniq("RC_")]
    u = Universe([None, None, 0], names=names)
    n = ctx.budget(300, 5000)
    reqs, impls, metas = [], [], []
    for _ in range(n):
        ls = [lspec(i, ctx.rng.randrange(3), ctx.rng.randrange(3), jt=ctx.rng.choice(JTS[:4]), li=(f"k{i}",)) for i in range(ctx.rng.randint(0, 4))]
        objs = [mk_link(u, s) for s in ls]
        data = {(o, F.PyArrowTable, F.PyArrowTable): {i} for i, o in enumerate(objs)}  # dict in insertion order
        try:
            ResolveLinkValidator.validate_no_conflicting_join_types(data)  # type: ignore[arg-type]
            impl = False
        except Exception as e:
            impl = "Conflicting join types" in str(e)
        reqs.append({"op": "C18.resolveConflict", "parents": u.parents, "names": u.names, "idx": [], "links": ls})
        impls.append(impl)
        metas.append({"links": ls})
        exp = any(a["l"] == b["l"] and a["r"] == b["r"] and a["jt"] != b["jt"] for a in ls for b in ls)
        if exp != impl:
            ctx.violation("resolve_conf", {"links": ls}, f"used links with different join types for one ordered pair: raised={impl}", impl, exp)
    outs = ctx.lean.batch(reqs)
    for m, i, o in zip(metas, impls, outs):
        ctx.case("resolve_conf", m, len(m["links"]) >= 2, raised=i)
        if i != o:
            ctx.disagree("resolve_conf", m, i, o)


# ------------------------------------------------------------------------------------------------
# function level: index


def tuples_upto(alpha: Sequence[str], n: int) -> List[Tuple[str, ...]]:
    out: List[Tuple[str, ...]] = []
    for k in range(n + 1):
        out += list(itertools.product(alpha, repeat=k))
    return out


def suite_index(ctx: Ctx) -> None:
    from mloda.core.abstract_plugins.components.index.index import Index

    alpha = ["a", "b"] if ctx.quick else ["a", "b", "c"]
    ts = tuples_upto(alpha, 3)
    pairs = [(a, b) for a in ts for b in ts]
    impls = [Index(a).is_a_part_of_(Index(b)) for a, b in pairs]
    outs: List[Any] = []
    for block in chunks(pairs, 400):
        outs += ctx.lean.batch([{"op": "C18.isPartOf", "parents": [], "names": [], "idx": [], "pairs": [[list(a), list(b)] for a, b in block]}])[0]
    for (a, b), i, o in zip(pairs, impls, outs):
        ctx.case("index_fn", [list(a), list(b)], len(a) > 0 and len(b) > 0, part=i)
        if i != o:
            ctx.disagree("index_fn", [list(a), list(b)], i, o)
        if i != o_prefix(a, b):
            ctx.violation("index_fn", [list(a), list(b)], f"is_a_part_of_ = {i}, prefix rule says {o_prefix(a, b)}", i, o_prefix(a, b))
    ctx.tag("exhaustive_scope", f"index: all tuple pairs over {alpha} up to length 3", len(pairs))

    # supports_index with inherited index_columns over hierarchies
    scope = forests(2, 3, 2, 5)
    small = tuples_upto(["a", "b"], 2)
    n = ctx.budget(300, 6000)
    reqs, impls2, metas = [], [], []
    for _ in range(n):
        parents = ctx.rng.choice(scope)
        idx: List[Any] = []
        for c in range(len(parents)):
            r = ctx.rng.random()
            if r < 0.45:
                idx.append(None)  # not overridden: inherited
            elif r < 0.55:
                idx.append({"r": None})
            else:
                idx.append({"r": [list(ctx.rng.choice(ts)) for _ in range(ctx.rng.randint(0, 3))]})
        u = Universe(parents, idx=idx)
        qs = [{"c": c, "i": list(t)} for c in range(len(parents)) for t in ctx.rng.sample(ts, 4) + ctx.rng.sample(small, 2)]
        res = [u.classes[q["c"]].supports_index(Index(tuple(q["i"]))) for q in qs]  # type: ignore[attr-defined]
        cols = []
        for c in range(len(parents)):
            ic = u.classes[c].index_columns()  # type: ignore[attr-defined]
            cols.append(None if ic is None else [list(i.index) for i in ic])
        reqs.append({"op": "C18.supports", **u.hier_json(), "qs": qs})
        impls2.append(res)
        metas.append(({"parents": parents, "idx": idx}, qs, "supports"))
        reqs.append({"op": "C18.indexColumns", **u.hier_json(), "cs": list(range(len(parents)))})
        impls2.append(cols)
        metas.append(({"parents": parents, "idx": idx}, None, "cols"))
        # oracle: nearest definition along the inheritance chain; None -> None; else any supported index has the queried one as a prefix
        for q, r_ in zip(qs, res):
            decl = None
            for a in chain(parents, q["c"]):
                if idx[a] is not None:
                    decl = idx[a]
                    break
            exp = None if decl is None or decl["r"] is None else any(o_prefix(q["i"], s) for s in decl["r"])
            if r_ != exp:
                ctx.violation("supports_fn", {"parents": parents, "idx": idx, "q": q}, f"supports_index = {r_}, prefix rule says {exp}", r_, exp)
    outs2 = ctx.lean.batch(reqs)
    for (m, qs_, kind), i, o in zip(metas, impls2, outs2):
        ctx.case("supports_fn", {**m, "kind": kind, "qs": qs_}, any(d is not None for d in m["idx"]), kind=kind)
        if i != o:
            ctx.disagree("supports_fn", {**m, "kind": kind}, i, o)


# ------------------------------------------------------------------------------------------------
# end to end


KEYS = {"k1": lambda c: [1, 2, 3, 4], "k2": lambda c: [((i + c) % 4) + 1 for i in range(4)]}


def e2e_data(c: int) -> Dict[str, List[int]]:
    return {"k1": KEYS["k1"](c), "k2": KEYS["k2"](c), f"v{c}": [100 * (c + 1) + i for i in range(4)]}


def e2e_universe(parents: Sequence[Optional[int]], index_columns: Optional[Dict[int, Any]] = None) -> List[type]:
    """classes with data: every class returns all its columns (keys k1,k2 + its own value column v<c>)"""
    from mloda.core.abstract_plugins.feature_group import FeatureGroup

    classes: List[type] = []
    for c, p in enumerate(parents):
        cols = e2e_data(c)

        def calc(cls: Any, data: Any, features: Any, cols: Dict[str, List[int]] = cols) -> Any:
            F.log_event(ev="calc", group=cls.__name__)
            return F.from_columns(cols, F._fw_of(features))

        ic = [("k1",), ("k2",)]
        if index_columns is not None and c in index_columns:
            ic = index_columns[c]
        classes.append(
            F.make_group(F.uniq(f"E{c}_"), root_data={k: [0] for k in cols}, index_columns=ic, bases=(FeatureGroup if p is None else classes[p],), extra={"calculate_feature": classmethod(calc)})
        )
    return classes


def e2e_consumer(parent_feats: List[Tuple[str, Any]]) -> type:
    """Z.z depends on the given features (name, attached Link or None); logs the joined rows it receives"""
    from mloda.core.abstract_plugins.components.feature import Feature

    def input_features(self: Any, options: Any, feature_name: Any) -> Any:
        return {Feature(n, link=l) if l is not None else Feature(n) for n, l in parent_feats}

    def calc(cls: Any, data: Any, features: Any) -> Any:
        cols = F.to_columns(data)
        vs = sorted(k for k in cols if k.startswith("v"))
        nrows = len(next(iter(cols.values()))) if cols else 0
        rows = sorted([[cols[k][i] for k in vs] for i in range(nrows)], key=lambda r: [(-1 if v is None else v) for v in r])
        F.log_event(ev="consume", group=cls.__name__, vcols=vs, rows=rows)
        return F.add_columns(data, {"z": list(range(nrows))})

    return F.make_group(F.uniq("EZ_"), derived={"z": {"parents": [], "expr": ["const", 0]}}, extra={"input_features": input_features, "calculate_feature": classmethod(calc)})


def ref_join(jt: str, left: Dict[str, List[int]], right: Dict[str, List[int]], lk: str, rk: str, lv: str, rv: str) -> List[List[Optional[int]]]:
    """reference rows [left value, right value] of joining left with right on left[lk] == right[rk]"""
    out: List[List[Optional[int]]] = []
    matched_r = set()
    for i, a in enumerate(left[lk]):
        hit = False
        for j, b in enumerate(right[rk]):
            if a == b:
                out.append([left[lv][i], right[rv][j]])
                matched_r.add(j)
                hit = True
        if not hit and jt in ("left", "outer"):
            out.append([left[lv][i], None])
    if jt in ("outer",):
        for j in range(len(right[rk])):
            if j not in matched_r:
                out.append([None, right[rv][j]])
    return out


def read_events(path: str) -> List[Dict[str, Any]]:
    import json

    try:
        return [json.loads(l) for l in open(path).read().splitlines() if l.strip()]
    except FileNotFoundError:
        return []


def e2e_run(ctx: Ctx, classes: List[type], x: int, y: int, specs: List[Dict[str, Any]], via: str, fw: Any, extra_enabled: Sequence[int] = ()) -> Dict[str, Any]:
    """prepare (+run) consumer Z of v<x>, v<y> with the link set delivered through the API or attached to features"""
    from mloda.user import mloda
    from mloda.core.abstract_plugins.components.feature import Feature
    from mloda.core.abstract_plugins.components.link import Link, JoinSpec
    from mloda.core.abstract_plugins.components.index.index import Index
    from mloda.core.core.step.join_step import JoinStep

    objs = [Link(s["jt"], JoinSpec(classes[s["l"]], Index(tuple(s["li"]))), JoinSpec(classes[s["r"]], Index(tuple(s["ri"])))) for s in specs]
    uid_of = {str(o.uuid): s["uid"] for o, s in zip(objs, specs)}
    feats: List[Tuple[str, Any]] = [(f"v{x}", None), (f"v{y}", None)]
    api_links: Optional[Set[Any]] = None
    order = list(specs)
    if via == "api":
        api_links = set(objs)
        sp = {id(o): s for o, s in zip(objs, specs)}
        order = [sp[id(o)] for o in api_links]
    else:
        # a Python set of Features dedups features of equal name, so one link per parent feature: at most two links
        names = [f"v{x}", f"v{y}"]
        objs, order = objs[:2], order[:2]
        feats = [(names[i], objs[i] if i < len(objs) else None) for i in range(2)]
    Z = e2e_consumer(feats)
    log = os.path.join(ctx.extra["_tmp"], "events.jsonl")
    open(log, "w").close()
    os.environ[F.LOG_ENV] = log
    res: Dict[str, Any] = {"order": order}
    enabled = {classes[x], classes[y], Z} | {classes[c] for c in extra_enabled}
    try:
        session = mloda.prepare([Feature("z")], compute_frameworks={fw}, links=api_links, plugin_collector=F.collector(enabled))
    except Exception as e:
        k = classify_validator_error(e) if isinstance(e, ValueError) else "other"
        msg = str(e)
        if k in ("double", "conflict", "right", "jointype"):
            res["prepare"] = "validator:" + k
        elif "Conflicting join types" in msg:
            res["prepare"] = "resolve-conflict"
        elif "No feature groups found" in msg:
            res["prepare"] = "no-feature-group"
        else:
            res["prepare"] = "other-planner-error"
            res["msg"] = msg[:160]
        res["events_before_reject"] = len(read_events(log))
        return res
    res["prepare"] = "ok"
    steps = [s for s in session.engine.execution_planner.execution_plan if isinstance(s, JoinStep)]
    res["joins"] = sorted(uid_of.get(str(s.link.uuid), -1) for s in steps)
    try:
        session.run()
        res["run"] = "ok"
    except Exception as e:
        res["run"] = "error"
        res["run_msg"] = str(e)[-200:]
    ev = read_events(log)
    cons = [e for e in ev if e.get("ev") == "consume"]
    if cons:
        res["vcols"] = cons[-1]["vcols"]
        res["rows"] = cons[-1]["rows"]
    return res


def judge_e2e(ctx: Ctx, suite: str, case: Dict[str, Any], parents: Sequence[Optional[int]], x: int, y: int, order: List[Dict[str, Any]], res: Dict[str, Any], model_validate: Optional[Dict[str, Any]], model_find: Any, via: str) -> None:
    contra = o_contra_pairs(order)
    prep = res["prepare"]
    # --- model correspondence
    if via == "api" and model_validate is not None:
        mv = model_validate["v"]["r"]
        if mv != "ok":
            if prep != "validator:" + mv:
                ctx.disagree(suite, case, prep, "validator:" + mv)
        elif prep.startswith("validator:"):
            ctx.disagree(suite, case, prep, "ok")
    # Engine.links is a set: of several equal links (Link.__eq__) one survives, which one depends on insertion order
    canon = {l["uid"]: min(m["uid"] for m in order if not o_differ(l, m)) for l in order}
    model_used = sorted({canon[u] for u in set(model_find[0]["m"]) | set(model_find[1]["m"])})
    if "joins" in res:
        res["joins"] = sorted({canon.get(u, u) for u in res["joins"]})
    if prep == "ok" and res.get("joins") != model_used:
        ctx.disagree(suite, case, res.get("joins"), model_used)
    # --- oracle
    if contra:
        if prep == "ok":
            cls = None
            if o15_only(order):
                cls = "same-ordered-pair-same-jointype-different-index"
            elif via == "feature":
                # narrow: links attached to features skip LinkValidator (known), BUT when two links of different join type for one
                # ordered pair were both attached to the consumer's parents the planner's own resolve-time check
                # (validate_no_conflicting_join_types) must reject the request - two planned JoinSteps for such a pair are not excused
                planned = set(res.get("joins") or [])
                conflict_planned = any(pat == "join-type-conflict" and canon.get(a, a) in planned and canon.get(b, b) in planned for pat, a, b in contra)
                cls = None if conflict_planned else "links-attached-to-features-not-validated"
            ctx.violation(suite, case, f"contradictory link set {contra[0]} was not rejected before execution (prepare ok, joins {res.get('joins')}, run {res.get('run')})", res, "rejected at prepare", finding_class=cls)
        elif res.get("events_before_reject", 0) != 0:
            ctx.violation(suite, case, "feature groups were executed before the contradictory link set was rejected", res, "no execution")
    if prep.startswith("validator:") and not contra and not o_right_reuse(order):
        ctx.violation(suite, case, f"non-contradictory link set rejected by the validator ({prep})", res, "accepted")
    if prep == "ok":
        exp = {canon[u] for u in o_links(parents, order, x, y) | o_links(parents, order, y, x)}
        got = set(res.get("joins", []))
        by = {l["uid"]: l for l in order}
        for uid in got:
            l = by.get(uid)
            if l is not None and l["l"] == l["r"] and x != y:
                ctx.violation(suite, case, f"self link {l} joined two different classes ({x},{y}) - sibling mismatch", res, sorted(exp))
        if got != exp:
            asym = {l["uid"] for l in order if o_asymmetric(parents, l, x, y) or o_asymmetric(parents, l, y, x)}
            cls = "asymmetric-polymorphic-match" if asym and (got - exp) <= asym and res.get("joins") == model_used else None
            ctx.violation(suite, case, f"links joined for pair ({x},{y}): {sorted(got)}, property says {sorted(exp)}", res, sorted(exp), finding_class=cls)
        # the link actually used is visible in the joined rows (one link, relational join, run succeeded)
        if len(got) == 1 and got == exp and res.get("run") == "ok" and not contra:
            l = by[next(iter(got))]
            if l["jt"] in ("inner", "left", "outer") and "rows" in res:
                lcls, rcls = (x, y) if o_links(parents, [l], x, y) else (y, x)
                ref = ref_join(l["jt"], e2e_data(lcls), e2e_data(rcls), l["li"][0], l["ri"][0], f"v{lcls}", f"v{rcls}")
                cols = [f"v{lcls}", f"v{rcls}"]
                if res.get("vcols") == sorted(cols):
                    perm = [cols.index(c) for c in res["vcols"]]
                    ref_rows = sorted([[r[p] for p in perm] for r in ref], key=lambda r: [(-1 if v is None else v) for v in r])
                    ctx.tag("e2e_joined_rows_checked", l["jt"])
                    if ref_rows != res["rows"]:
                        ctx.violation(suite, case, f"consumer received rows that are not the {l['jt']} join on {l['li']}={l['ri']} described by the selected link", res["rows"], ref_rows)


def suite_e2e(ctx: Ctx) -> None:
    fws = [F.PandasDataFrame, F.PythonDictFramework, F.PyArrowTable]
    hier_pool = [
        [None, None],  # two unrelated roots
        [None, 0, 0],  # siblings under one base
        [None, 0, None, 2],  # two parallel chains
        [None, 0, 1, None],  # chain of three + unrelated
        [None, 0, 0, None, 3],
        [None, 0, 1, None, 3, 4],  # two chains of three
        [None, 0, 0, 1, 2],
    ]
    n = ctx.budget(220, 4000)
    cases: List[Dict[str, Any]] = []
    # fixed witnesses first (both delivery paths)
    fixed = [
        ([None, None], 0, 1, [lspec(0, 0, 1, "inner", ("k1",), ("k1",)), lspec(1, 0, 1, "inner", ("k2",), ("k2",))]),  # O15
        ([None, None], 0, 1, [lspec(0, 0, 1, "inner", ("k1",), ("k1",)), lspec(1, 1, 0, "inner", ("k1",), ("k1",))]),  # reversed
        ([None, None], 0, 1, [lspec(0, 0, 1, "inner", ("k1",), ("k1",)), lspec(1, 0, 1, "left", ("k1",), ("k1",))]),  # type conflict
        ([None, None, None], 0, 1, [lspec(0, 0, 1, "right", ("k1",), ("k1",)), lspec(1, 0, 2, "right", ("k1",), ("k1",))]),  # right share
        ([None, 0, 0], 1, 2, [lspec(0, 0, 0, "inner", ("k1",), ("k1",))]),  # sibling mismatch must not join
        ([None, 0, None, 2], 1, 3, [lspec(0, 0, 2, "inner", ("k1",), ("k2",))]),  # balanced polymorphic
        ([None, 0, None, 2], 1, 3, [lspec(0, 0, 2, "inner", ("k1",), ("k1",)), lspec(1, 1, 3, "left", ("k2",), ("k2",))]),  # exact beats polymorphic
        ([None, 0, None], 1, 2, [lspec(0, 0, 2, "inner", ("k1",), ("k1",))]),  # asymmetric
        ([None, 0, 1, None, 3, 4], 2, 5, [lspec(0, 0, 3, "inner", ("k1",), ("k1",)), lspec(1, 1, 4, "outer", ("k2",), ("k1",))]),  # closest wins
    ]
    for parents, x, y, ls in fixed:
        for via in ("api", "feature"):
            cases.append({"parents": parents, "x": x, "y": y, "links": ls, "via": via, "fw": 0})
    while len(cases) < n:
        parents = ctx.rng.choice(hier_pool)
        nc = len(parents)
        x, y = ctx.rng.sample(range(nc), 2)
        cx, cy = chain(parents, x), chain(parents, y)
        k = ctx.rng.choice([1, 1, 2, 2, 3])
        via = "api" if ctx.rng.random() < 0.75 else "feature"
        if via == "feature":
            k = min(k, 2)
        ls: List[Dict[str, Any]] = []
        for i in range(k):
            r = ctx.rng.random()
            if ls and r < 0.35:
                b = ctx.rng.choice(ls)
                s = dict(b, uid=i)
                m = ctx.rng.choice(["rev", "type", "index", "left"])
                if m == "rev":
                    s["l"], s["r"], s["li"], s["ri"] = b["r"], b["l"], b["ri"], b["li"]
                elif m == "type":
                    s["jt"] = ctx.rng.choice(["inner", "left", "outer", "right"])
                elif m == "index":
                    s["li"], s["ri"] = [ctx.rng.choice(["k1", "k2"])], [ctx.rng.choice(["k1", "k2"])]
                else:
                    s["r"] = ctx.rng.choice(cx + cy)
                    s["jt"] = ctx.rng.choice(["right", b["jt"]])
            else:
                if r < 0.8:
                    l_, r_ = ctx.rng.choice(cx), ctx.rng.choice(cy)
                    if ctx.rng.random() < 0.3:
                        l_, r_ = r_, l_
                else:
                    c = ctx.rng.choice([a for a in cx if a in cy] or cx[1:] or cx)
                    l_, r_ = c, c
                    if c in (x, y):  # a self link on a concrete requested class drags in extra index features (planner limits)
                        l_, r_ = ctx.rng.choice(cx), ctx.rng.choice(cy)
                s = lspec(i, l_, r_, ctx.rng.choice(["inner", "inner", "inner", "left", "left", "outer", "outer", "right"] if ctx.rng.random() < 0.97 else ["append", "union"]), (ctx.rng.choice(["k1", "k2"]),), (ctx.rng.choice(["k1", "k2"]),))
            ls.append(s)
        cases.append({"parents": parents, "x": x, "y": y, "links": ls, "via": via, "fw": ctx.rng.randrange(len(fws))})

    ucache: Dict[Tuple, List[type]] = {}
    results = []
    reqs = []
    for c in cases:
        key = tuple(c["parents"])
        classes = ucache.get(key) or ucache.setdefault(key, e2e_universe(c["parents"]))
        res = e2e_run(ctx, classes, c["x"], c["y"], c["links"], c["via"], fws[c["fw"]])
        results.append(res)
        hj = {"parents": c["parents"], "names": [k.__name__ for k in classes], "idx": []}
        reqs.append({"op": "C18.validate", **hj, "links": res["order"]})
        reqs.append({"op": "C18.find", **hj, "links": res["order"], "pairs": [[c["x"], c["y"]], [c["y"], c["x"]]]})
    outs = ctx.lean.batch(reqs)
    for k, (c, res) in enumerate(zip(cases, results)):
        mv, mf = outs[2 * k], outs[2 * k + 1]
        suite = "e2e_api" if c["via"] == "api" else "e2e_feature"
        case = {**c, "links": res["order"]}
        ctx.case(suite, case, True, prepare=res["prepare"], run=res.get("run"), fw=fws[c["fw"]].__name__)
        judge_e2e(ctx, suite, case, c["parents"], c["x"], c["y"], res["order"], res, mv if c["via"] == "api" else None, mf, c["via"])


def suite_e2e_index(ctx: Ctx) -> None:
    """group eligibility through prepare: a group that declares index_columns is only eligible when some link index is a
    prefix-part of one of its supported indexes (IdentifyFeatureGroupClass._filter_feature_group_by_links)"""
    ts = [t for t in tuples_upto(["k1", "k2"], 2)]
    n = ctx.budget(40, 600)
    reqs, metas = [], []
    for _ in range(n):
        sup = [list(ctx.rng.choice(ts[1:])) for _ in range(ctx.rng.randint(1, 2))]
        li = list(ctx.rng.choice(ts[1:]))
        ri = list(ctx.rng.choice(ts[1:]))
        classes = e2e_universe([None, None], index_columns={0: [tuple(s) for s in sup], 1: None})
        # class 1 declares no index columns (always eligible); class 0 supports `sup`
        spec = lspec(0, 0, 1, "inner", li, ri)
        res = e2e_run(ctx, classes, 0, 1, [spec], "api", F.PandasDataFrame)
        eligible = any(o_prefix(li, s) for s in sup) or any(o_prefix(ri, s) for s in sup)
        case = {"supported": sup, "li": li, "ri": ri}
        ctx.case("e2e_index", case, True, eligible=eligible, prepare=res["prepare"])
        if eligible == (res["prepare"] == "no-feature-group"):
            ctx.violation("e2e_index", case, f"group with index_columns {sup} and link indexes {li}/{ri}: prepare = {res['prepare']}, prefix rule says eligible = {eligible}", res, eligible)
        reqs.append({"op": "C18.supports", "parents": [None], "names": ["X"], "idx": [{"r": sup}], "qs": [{"c": 0, "i": li}, {"c": 0, "i": ri}]})
        metas.append((case, res["prepare"]))
    outs = ctx.lean.batch(reqs)
    for (case, prep), o in zip(metas, outs):
        model_eligible = bool(o[0]) or bool(o[1])
        if model_eligible == (prep == "no-feature-group"):
            ctx.disagree("e2e_index", case, prep, {"eligible": model_eligible})


# ------------------------------------------------------------------------------------------------


def run(ctx: Ctx) -> None:
    from mloda.core.abstract_plugins.components.link import JoinType

    ctx.extra["rule"] = (
        "match_fn: every (hierarchy, link set, ordered class pair) in scope [forests of <=2 roots, <=2 children per node, depth<=3; quick: <=4 "
        "classes x <=2 links, thorough: <=C18_MAX_CLASSES(6) classes x <=3 links] on ResolveLinks._find_matching_links; match_seeded: forests up to 7 "
        "classes (+FeatureGroup itself as a link side), 1-4 links biased to the two inheritance chains; validate_fn: all sets of <=2 (quick) / <=3 "
        "(thorough) of the 108 links over 3 classes x 6 join types x 2 left indexes; validate_seeded: <=5 links derived by reverse/retype/reindex/"
        "same-left mutations, invalid join types, colliding class names; index_fn: all tuple pairs up to length 3; e2e: consumer of two generated "
        "root groups with the link set passed to mloda.prepare or attached to features; a case is non-trivial when the polymorphic pass decides / "
        "the set has >=2 links / the index is non-empty"
    )
    if [m.value for m in JoinType] != JTS:
        ctx.disagree("jointype_enum", "JoinType members", [m.value for m in JoinType], JTS)
    tmp = tempfile.mkdtemp(prefix="c18_")
    ctx.extra["_tmp"] = tmp
    universes: Dict[Tuple, Universe] = {}
    try:
        suite_mro(ctx, universes)
        suite_match(ctx, universes)
        suite_select(ctx, universes)
        suite_validate(ctx)
        suite_resolve_conflict(ctx)
        suite_index(ctx)
        suite_e2e(ctx)
        suite_e2e_index(ctx)
    finally:
        os.environ.pop(F.LOG_ENV, None)
        ctx.extra.pop("_tmp", None)
        import shutil

        shutil.rmtree(tmp, ignore_errors=True)
    ctx.exhaustive = not ctx.quick


def search(ctx: Ctx, broken: List[str]) -> None:
    run(ctx)


def replay(ctx: Ctx, body: Dict[str, Any]) -> None:
    run(ctx)
