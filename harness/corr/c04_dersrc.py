"""C04 (extension `dersrc`) - joins whose sources are DERIVED feature groups.

Input class.  The main C04 harness joins root sources only (one DataCreator group per side of every link), so every
feature-group step that feeds a join holds root columns, has no parent feature and is never looked at by the
FeatureGroupStep branch of `ExecutionPlan.add_tfs` together with a JoinStep.  Here a link is declared on a *derived*
group: a group that computes 1-3 features from the columns of a root source (directly, or through a further derived
group in between) and keeps the source's key column.  Some of those features are inputs of the join (parents of the
consumer that sits on top of the link), others are requested directly or feed an unrelated group, so that ONE
feature-group step (same group, same options, same framework) holds join inputs and non-join features at once; which of
them the planner uses as the step's representative is a matter of set iteration order.  Either side of the link, or both,
can be derived; same or different frameworks; every join type; option variants split a group into several steps.

Oracle (from the property text).  For every request:
  * every preparation - N times in this process and M times in each of several child processes started with different
    PYTHONHASHSEED values - must give the same outcome: the same rejection, or the same canonical plan (uuid free, order of
    independent steps ignored: `schedlib.canon_plan`);
  * every accepted plan, of every preparation in every process, must be closed (each awaited id is produced by a step),
    have non-empty disjoint outputs and an acyclic wait-for relation: decided by the Lean `planOK` (driver op C04.planCheck,
    the hypothesis of the termination theorems) and, independently, by a plain scheduler simulation in Python (the two
    are compared: a difference is a model/implementation disagreement);
  * every accepted plan runs to completion (returns or raises) under a watchdog: SYNC and THREADING in this process, SYNC
    in every child process (its own hash seed, its own plan).  A plan that is not well ranked is not run in-process (it
    would spin in a daemon thread for the rest of the check); the spin is confirmed in a child process that is killed.
"""
from __future__ import annotations

import json
import os
import re
import subprocess
import sys
import tempfile
import time
from typing import Any, Dict, List, Optional, Set, Tuple

if __name__ == "__main__":  # child mode: make /repo (or $MLODA_REPO) and /verif importable before anything else
    sys.path.insert(0, os.environ.get("MLODA_REPO", "/repo"))
    sys.path.insert(0, os.path.dirname(os.path.dirname(os.path.dirname(os.path.abspath(__file__)))))

from harness.core import Ctx, VERIF, env_for_subprocess
from harness import fgfactory as F
from harness import schedlib as S

SUITES = {"dersrc_prepare", "dersrc_planOK", "dersrc_terminates", "dersrc_hashseed", "dersrc_spin_confirm"}

ASSUMPTIONS = [
    "C04_dersrc: hash-seed dependence is sampled with 6 (quick) / 12 (thorough) PYTHONHASHSEED values in child processes, 2 preparations each, plus 3-5 preparations in the check process",
    "C04_dersrc: termination of a real run is observed under a watchdog (30 s in-process, 20 s in a child); plans that are not well ranked are only run in a child process that is killed after 8 s",
    "C04_dersrc: derived join sources keep the key column of their root source (the generated groups append their columns to the incoming table); values of the results are not judged here (C04 is about planning and termination)",
]

RUN_LIMIT = 30.0
CHILD_RUN_LIMIT = 20.0
SPIN_LIMIT = 8.0


# ------------------------------------------------------------------------------------------------------------------
# generator


def _mk_expr(rng: Any, parents: List[str]) -> Any:
    expr: Any = ["col", parents[0]]
    for q in parents[1:]:
        expr = [rng.choice(["add", "sub"]), expr, ["col", q]]
    if rng.random() < 0.5:
        expr = [rng.choice(["add", "mul"]), expr, ["const", rng.randint(1, 4)]]
    return expr


def gen_dersrc_spec(rng: Any) -> Dict[str, Any]:
    """Two root sources with coinciding unique key sets, per side optionally a derived group (optionally behind a further
    derived group), one link between the groups that face the join, a consumer over join-facing features of both sides,
    optionally a group on top of the consumer and a bystander group over a non-join feature; the request names the consumer
    (or top) features and a random subset of everything else."""
    uid = F.uniq("")
    fws = ("pa", "pd", "py")
    fw = rng.choice(fws)
    cross = rng.random() < 0.2
    fw_r = rng.choice([x for x in fws if x != fw]) if cross else fw
    nrows = rng.randint(1, 4)
    keys = rng.sample([1, 2, 3, 4, 5, 6], nrows)
    r = rng.random()
    der_sides = [0] if r < 0.4 else ([1] if r < 0.7 else [0, 1])
    shared_key = rng.random() < 0.25  # both sources call their key column the same (then nobody can name it as an input feature)
    sources, derived = [], []
    face: List[Dict[str, Any]] = []  # per side: the group the link is declared on + the features a consumer can take from it
    for i in range(2):
        ks = list(keys)
        rng.shuffle(ks)
        kname = f"k{uid}" if shared_key else f"k{uid}_{i}"
        cols: Dict[str, List[Any]] = {kname: ks}
        for j in range(rng.randint(1, 2)):
            cols[f"v{uid}_{i}{j}"] = [rng.randint(0, 9) for _ in ks]
        sfw = fw if i == 0 else fw_r
        sources.append({"name": f"S{uid}_{i}", "fw": sfw, "key": kname, "cols": cols, "index": True})
        vals = [c for c in cols if c != kname]
        if i not in der_sides:
            face.append({"ref": ["s", i], "feats": vals, "key": kname})
            continue
        # the derived groups must hand the key column of their source on to the join.  Two styles (as hand-written groups do):
        #   "own"  - the group declares its own index column kd = copy of the source key (index_columns + link on kd): the
        #            planner then adds kd as a further feature of the group's step;
        #   "pass" - the group declares nothing; each of its features names the source key as an input feature, the key column
        #            travels in the table the group appends to, and the link is declared on the source's key name.
        style = "own" if rng.random() < 0.2 else "pass"
        # a root that declares index columns none of the links names is filtered out by the planner (the request is rejected):
        # with "own" the root normally declares none
        sources[i]["index"] = style == "pass" or rng.random() < 0.08
        kd = f"kd{uid}_{i}" if style == "own" else kname
        extra = [kname] if (style == "pass" and not shared_key and rng.random() < 0.5) else []  # the key named as an input feature, or just carried along
        avail = list(vals)
        if rng.random() < 0.25:
            # a derived group between the root and the group that faces the join
            mid: Dict[str, Any] = {}
            for j in range(rng.randint(1, 2)):
                f = f"m{uid}_{i}{j}"
                par = [rng.choice(vals)]
                mid[f] = {"parents": par + extra, "expr": _mk_expr(rng, par)}
            derived.append({"name": f"M{uid}_{i}", "fw": sfw, "src": i, "features": mid, "facing": False})
            avail = list(mid) + (vals if rng.random() < 0.5 else [])
        nf = rng.choice([1, 2, 2, 2, 3, 3])
        feats: Dict[str, Any] = {}
        for j in range(nf):
            f = f"x{uid}_{i}{j}"
            par = [rng.choice(avail)]
            if rng.random() < 0.25 and len(avail) > 1:
                par.append(rng.choice([a for a in avail if a not in par]))
            feats[f] = {"parents": par + extra, "expr": _mk_expr(rng, par)}
        if nf >= 2 and rng.random() < 0.15:
            # a second dependency level inside the derived group (the planner splits the group into two steps)
            f = f"x{uid}_{i}{nf}"
            par = [rng.choice(list(feats))]
            feats[f] = {"parents": par + extra, "expr": _mk_expr(rng, par)}
        values = list(feats)
        if style == "own":
            feats[kd] = {"parents": [kname], "expr": ["col", kname]}
        derived.append({"name": f"D{uid}_{i}", "fw": sfw, "src": i, "features": feats, "facing": True, "style": style, "key": kd})
        face.append({"ref": ["d", len(derived) - 1], "feats": values, "key": kd})
    jt = rng.choice(["inner"] * 4 + ["left"] * 3 + ["outer"] * 3 + ["right"])
    a, b = (0, 1) if rng.random() < 0.7 else (1, 0)
    link = {"type": jt, "left": face[a]["ref"], "right": face[b]["ref"], "lkey": face[a]["key"], "rkey": face[b]["key"]}
    # consumer: each feature over 1-2 join-facing features of EACH side; with several derived features only some are join inputs
    cfeats: Dict[str, Any] = {}
    cfw = sources[a]["fw"] if (jt != "right" or rng.random() < 0.5) else sources[b]["fw"]
    for j in range(rng.choice([1, 1, 2])):
        par = []
        for side in (a, b):
            pool = face[side]["feats"]
            kmax = 1 if len(pool) == 1 or rng.random() < 0.7 else 2
            par += rng.sample(pool, kmax)
        cfeats[f"z{uid}_{j}"] = {"parents": par, "expr": _mk_expr(rng, par)}
    groups = [{"name": f"Z{uid}", "fw": cfw, "features": cfeats}]
    join_inputs = sorted({p for d in cfeats.values() for p in d["parents"]})
    top_feats: List[str] = list(cfeats)
    if rng.random() < 0.3:
        f = f"w{uid}"
        par = [rng.choice(list(cfeats))]
        groups.append({"name": f"T{uid}", "fw": cfw, "features": {f: {"parents": par, "expr": _mk_expr(rng, par)}}})
        top_feats = [f] + [c for c in cfeats if c != par[0] or rng.random() < 0.3]
    free = [f for s_ in face if s_["ref"][0] == "d" for f in s_["feats"] if f not in join_inputs]
    if free and rng.random() < 0.3:
        # a bystander group over a non-join feature of a derived source (same framework): no link involved
        f = f"y{uid}"
        par = [rng.choice(free)]
        side_fw = next(d["fw"] for d in derived if par[0] in d["features"])
        groups.append({"name": f"Y{uid}", "fw": side_fw, "features": {f: {"parents": par, "expr": _mk_expr(rng, par)}}})
        top_feats.append(f)
    request = [{"name": n, "options": {}} for n in top_feats]
    opt_variant = rng.random() < 0.12
    for f in free:
        if rng.random() < 0.75:
            request.append({"name": f, "options": {"g": 1} if (opt_variant and rng.random() < 0.5) else {}})
    for d in derived:
        if not d["facing"]:
            for f in d["features"]:
                if rng.random() < 0.2:
                    request.append({"name": f, "options": {}})
    for s_ in sources:
        for c in s_["cols"]:
            if c != s_["key"] and rng.random() < 0.1:
                request.append({"name": c, "options": {}})
    rng.shuffle(request)
    return {"dersrc": True, "sources": sources, "derived": derived, "link": link, "groups": groups, "request": request}


# ------------------------------------------------------------------------------------------------------------------
# what the class looks like on a given spec (decided on the spec alone)


def spec_defs(spec: Dict[str, Any]) -> Dict[str, Dict[str, Any]]:
    return {f: d for g in spec["derived"] + spec["groups"] for f, d in g["features"].items()}


def spec_ancestors(spec: Dict[str, Any], f: str) -> Set[str]:
    defs = spec_defs(spec)
    out: Set[str] = set()

    def go(x: str) -> None:
        for p_ in defs.get(x, {}).get("parents", []):
            if p_ not in out:
                out.add(p_)
                go(p_)

    go(f)
    return out


def class_info(spec: Dict[str, Any]) -> Dict[str, Any]:
    """join inputs = parents of the consumer group's features; consumer cone = the consumer features and all their ancestors.
    A derived group that faces the join is `mixed` when it computes a join input and, with the same options, a requested
    feature outside the consumer cone (the two then share one feature-group step unless they sit on different levels)."""
    cons = spec["groups"][0]
    join_inputs = {p for d in cons["features"].values() for p in d["parents"]}
    cone: Set[str] = set(cons["features"])
    for f in cons["features"]:
        cone |= spec_ancestors(spec, f)
    requested = {r["name"] for r in spec["request"] if not r["options"]}
    needed = set(requested)
    for f in list(requested):
        needed |= spec_ancestors(spec, f)
    needed |= cone
    facing = [x[1] for x in (spec["link"]["left"], spec["link"]["right"]) if x[0] == "d"]
    mixed = 0
    multi = 0
    for j in facing:
        feats = set(spec["derived"][j]["features"]) - {spec["derived"][j]["key"]}
        ji = feats & join_inputs
        other = {f for f in feats if f in needed and f not in cone}
        if len(feats & needed) >= 2:
            multi += 1
        if ji and other:
            mixed += 1
    return {"derived_sides": len(facing), "multi": multi, "mixed": mixed}


# ------------------------------------------------------------------------------------------------------------------
# building the real request


def build_request(spec: Dict[str, Any]) -> Tuple[Dict[str, Any], Set[Any], List[Any], Set[Any]]:
    from mloda.core.abstract_plugins.components.link import Link, JoinSpec
    from mloda.core.abstract_plugins.components.index.index import Index

    classes: Dict[str, Any] = {}
    for s in spec["sources"]:

        def with_key(cls: Any, data: Any, features: Any, result: Any, s: Dict[str, Any] = s) -> Any:
            # like most hand-written sources: the key column is always part of what the source returns
            return result if s["key"] in F.columns_of(result) else F.add_columns(result, {s["key"]: list(s["cols"][s["key"]])})

        classes[s["name"]] = F.make_group(s["name"], root_data=s["cols"], hooks={"after_calc": with_key}, index_columns=[(s["key"],)] if s.get("index", True) else None, frameworks={F.FW_SHORT[s["fw"]]})
    for d in spec["derived"]:
        classes[d["name"]] = F.make_group(d["name"], derived=d["features"], frameworks={F.FW_SHORT[d["fw"]]}, index_columns=[(d["key"],)] if d.get("style") == "own" else None)
    for g in spec["groups"]:
        classes[g["name"]] = F.make_group(g["name"], derived=g["features"], frameworks={F.FW_SHORT[g["fw"]]})

    def cls_of(ref: List[Any]) -> Any:
        return classes[spec["sources"][ref[1]]["name"] if ref[0] == "s" else spec["derived"][ref[1]]["name"]]

    l = spec["link"]
    links = {getattr(Link, l["type"])(JoinSpec(cls_of(l["left"]), Index((l["lkey"],))), JoinSpec(cls_of(l["right"]), Index((l["rkey"],))))}
    fws = {F.FW_SHORT[x["fw"]] for x in spec["sources"] + spec["derived"] + spec["groups"]}
    return classes, links, S.features_of(spec), fws


def prepare_dersrc(spec: Dict[str, Any]) -> Any:
    from mloda.user import mloda

    classes, links, feats, fws = build_request(spec)
    return mloda.prepare(list(feats), compute_frameworks=fws, links=links, plugin_collector=F.collector(set(classes.values())))


# ------------------------------------------------------------------------------------------------------------------
# outcome of one preparation + the Python side of the plan oracle


def well_ranked(lp: Dict[str, Any]) -> Dict[str, Any]:
    """Property text, plain Python: each prerequisite is produced by some step, outputs non-empty and pairwise disjoint, and a
    scheduler that may finish a step once everything it waits for is finished gets through all steps (acyclic wait-for)."""
    steps = lp["steps"]
    produced: List[int] = [u for st in steps for u in st["outs"]]
    dangling = sorted({r for st in steps for r in st["req"] if r not in produced})
    nonempty = all(st["outs"] for st in steps)
    disjoint = len(produced) == len(set(produced))
    fin: Set[int] = set()
    todo = list(range(len(steps)))
    progress = True
    while todo and progress:
        progress = False
        for i in list(todo):
            if set(steps[i]["req"]) <= fin:
                fin |= set(steps[i]["outs"])
                todo.remove(i)
                progress = True
    return {"ok": nonempty and disjoint and not dangling and not todo, "nonempty": nonempty, "disjoint": disjoint, "dangling": dangling, "stuck": todo}


def outcome_of(spec: Dict[str, Any]) -> Dict[str, Any]:
    try:
        sess = prepare_dersrc(spec)
        exp = S.export_plan(sess)
        return {"plan": S.canon_plan(exp), "_exp": exp, "_sess": sess}
    except BaseException as e:
        msg = re.sub(r"[0-9a-f]{8}-[0-9a-f]{4}-[0-9a-f]{4}-[0-9a-f]{4}-[0-9a-f]{12}", "<uuid>", str(e))
        msg = re.sub(r"0x[0-9a-f]+", "<addr>", msg)
        # a message that enumerates a set (candidate feature groups ...) is compared as a set of lines
        return {"rejected": type(e).__name__, "msg": sorted(x.strip() for x in msg.splitlines() if x.strip())[:12]}


def pub(o: Dict[str, Any]) -> Dict[str, Any]:
    return {k: v for k, v in o.items() if not k.startswith("_")}


def step_mix(spec: Dict[str, Any], exp: Dict[str, Any]) -> Dict[str, int]:
    """On the real plan: feature-group steps of a derived join source that hold >= 2 features / a join input next to a feature
    outside the consumer cone (the shape in which the step's representative feature matters)."""
    cons = spec["groups"][0]
    join_inputs = {p for d in cons["features"].values() for p in d["parents"]}
    cone: Set[str] = set(cons["features"])
    for f in cons["features"]:
        cone |= spec_ancestors(spec, f)
    facing = {spec["derived"][x[1]]["name"]: spec["derived"][x[1]]["key"] for x in (spec["link"]["left"], spec["link"]["right"]) if x[0] == "d"}
    multi = mixed = withkey = 0
    for st in exp["steps"]:
        if st["kind"] == "fg" and st["group"] in facing:
            fs = set(st["features"]) - {facing[st["group"]]}
            if len(fs) >= 2:
                multi += 1
            if fs & join_inputs and fs - cone:
                mixed += 1
            if len(fs) < len(set(st["features"])):
                withkey += 1
    return {"multi": multi, "mixed": mixed, "withkey": withkey}


# ------------------------------------------------------------------------------------------------------------------
# child processes: other hash seeds


def child_main() -> None:
    import logging
    import threading

    logging.disable(logging.CRITICAL)
    threading.excepthook = lambda args: None
    with open(sys.argv[1]) as f:
        req = json.loads(f.read())
    if req.get("run_only"):
        # one request, SYNC; the parent kills this process when it spins
        sess = prepare_dersrc(req["specs"][0])
        try:
            sess.run()
            print(json.dumps("returned"), flush=True)
        except BaseException:
            print(json.dumps("raised"), flush=True)
        os._exit(0)
    out = []
    for spec in req["specs"]:
        res = []
        for k in range(req.get("n", 2)):
            o = outcome_of(spec)
            r = pub(o)
            if "plan" in o:
                lp = S.lean_plan(o["_exp"])
                r["lean_plan"] = lp
                r["mix"] = step_mix(spec, o["_exp"])
                wr = well_ranked(lp)
                if k == 0 and wr["ok"] and req.get("run"):
                    fin, val = S.guarded(lambda: o["_sess"].run(), CHILD_RUN_LIMIT)
                    r["run"] = "timeout" if not fin else ("raise" if isinstance(val, BaseException) else "return")
                    if not fin:
                        # a spinning daemon thread would slow everything that follows: report what we have and stop
                        res.append(r)
                        out.append(res)
                        print(json.dumps({"partial": True, "out": out}), flush=True)
                        os._exit(0)
            res.append(r)
        out.append(res)
    print(json.dumps({"partial": False, "out": out}), flush=True)
    os._exit(0)


def _spawn(payload: Dict[str, Any], hashseed: Optional[int]) -> Any:
    env = env_for_subprocess()
    if hashseed is not None:
        env["PYTHONHASHSEED"] = str(hashseed)
    fd, path = tempfile.mkstemp(prefix="verif_dersrc_", suffix=".json")
    with os.fdopen(fd, "w") as f:
        f.write(json.dumps(payload))
    p = subprocess.Popen(["/venv/bin/python", os.path.abspath(__file__), path], stdin=subprocess.DEVNULL, stdout=subprocess.PIPE, stderr=subprocess.PIPE, text=True, env=env)
    p._verif_payload = path  # type: ignore[attr-defined]
    return p


def _reap(p: Any, limit: float) -> Tuple[Optional[str], str]:
    """(stdout or None on timeout, stderr); the child is killed when it does not end in time."""
    try:
        txt, err = p.communicate(timeout=limit)
    except subprocess.TimeoutExpired:
        p.kill()
        p.communicate()
        txt, err = None, ""
    try:
        os.unlink(p._verif_payload)
    except OSError:
        pass
    return txt, err


def children(specs: List[Dict[str, Any]], seeds: List[int], n: int, limit: float) -> Dict[int, Any]:
    procs = [(sd, _spawn({"specs": specs, "n": n, "run": True}, sd)) for sd in seeds]
    out: Dict[int, Any] = {}
    for sd, p in procs:
        txt, err = _reap(p, limit)
        if txt is None:
            out[sd] = {"child_failed": f"no answer within {limit:.0f}s"}
            continue
        try:
            out[sd] = json.loads(txt.strip().splitlines()[-1])
        except Exception:
            out[sd] = {"child_failed": (err or "")[-800:]}
    return out


def run_in_child(spec: Dict[str, Any], hashseed: Optional[int], limit: float) -> str:
    txt, _ = _reap(_spawn({"specs": [spec], "run_only": True}, hashseed), limit)
    if txt is None:
        return "timeout"
    try:
        return str(json.loads(txt.strip().splitlines()[-1]))
    except Exception:
        return "child-failed"


# ------------------------------------------------------------------------------------------------------------------
# the suites


def judge_plan(ctx: Ctx, suite: str, case: Dict[str, Any], lp: Dict[str, Any], lean_out: Dict[str, Any], hashseed: Optional[int], confirm: List[Any]) -> bool:
    """planOK of one accepted plan by the Lean checker and by the Python simulation; True when the plan may be run."""
    wr = well_ranked(lp)
    model_ok = bool(lean_out.get("planOK"))
    if model_ok != wr["ok"]:
        ctx.disagree(suite, {**case, "plan": lp}, {"python_well_ranked": wr}, {k: lean_out.get(k) for k in ("nonempty", "disjoint", "ranked", "planOK")})
    if not (model_ok and wr["ok"]):
        what = ("accepted plan with a derived join source is not closed/acyclic/disjoint: " + json.dumps({"nonempty": wr["nonempty"], "disjoint": wr["disjoint"], "dangling": wr["dangling"],
                "steps_that_can_never_start": wr["stuck"], "lean": {k: lean_out.get(k) for k in ("nonempty", "disjoint", "ranked")}}))  # fmt: skip
        ctx.violation(suite, {**case, "plan": lp}, what, {"planOK": False}, {"planOK": True})
        confirm.append((case["spec"], hashseed, lp))
        return False
    return True


def run(ctx: Ctx) -> None:
    nreq = ctx.budget(60, 500)
    nprep = 3 if ctx.quick else 5
    seeds = [11, 12, 13, 14, 15, 16] if ctx.quick else list(range(11, 23))
    specs = [gen_dersrc_spec(ctx.rng) for _ in range(nreq)]
    confirm: List[Any] = []
    t_start = time.time()

    # 1. repeated preparations in this process
    results: List[List[Dict[str, Any]]] = []
    lean_reqs, metas = [], []
    for spec in specs:
        outs = [outcome_of(spec) for _ in range(nprep)]
        results.append(outs)
        first = pub(outs[0])
        info = class_info(spec)
        mix = step_mix(spec, outs[0]["_exp"]) if "plan" in first else {"multi": 0, "mixed": 0, "withkey": 0}
        kinds = [s[0].split(":")[0] for s in first.get("plan", [])]
        ctx.case("dersrc_prepare", {"spec": spec, "outcome": "plan" if "plan" in first else first}, "join" in kinds and info["derived_sides"] >= 1,
                 ds_outcome="plan" if "plan" in first else "rejected:" + first.get("rejected", "?"), ds_derived_sides=info["derived_sides"], ds_spec_mixed=info["mixed"],
                 ds_step_multi=mix["multi"], ds_step_mixed=mix["mixed"], ds_step_with_own_key=mix["withkey"], ds_joins=kinds.count("join"), ds_tfs=kinds.count("tfs"), ds_jointype=spec["link"]["type"],
                 ds_cross_fw=len({s_["fw"] for s_ in spec["sources"]}) > 1)  # fmt: skip
        for o in outs[1:]:
            if pub(o) != first:
                ctx.violation("dersrc_prepare", {"spec": spec}, "preparing the same request (join on a derived feature group) twice in one process gave different outcomes", pub(o), first)
                break
        for k, o in enumerate(outs):
            if "plan" in o and (k == 0 or pub(o) != first):
                lean_reqs.append({"op": "C04.planCheck", **S.lean_plan(o["_exp"])})
                metas.append((spec, o, k))

    # 2. every accepted plan is well ranked (Lean planOK == Python simulation == True)
    runnable = []
    for (spec, o, k), lo in zip(metas, ctx.lean.batch(lean_reqs)):
        lp = S.lean_plan(o["_exp"])
        ctx.case("dersrc_planOK", {"plan": S.canon_plan(o["_exp"])}, len(lp["steps"]) >= 4)
        if judge_plan(ctx, "dersrc_planOK", {"spec": spec, "process": "check", "preparation": k}, lp, lo, None, confirm) and k == 0:
            runnable.append((spec, o))

    # 3. every accepted plan terminates
    for spec, o in runnable:
        nsteps = len(o["_exp"]["steps"])
        for mode in ("sync", "thread"):
            rr = S.run_session(o["_sess"], mode, timeout=RUN_LIMIT)
            ctx.case("dersrc_terminates", {"spec": spec, "mode": mode}, nsteps >= 4, ds_mode=mode, ds_run="timeout" if rr.timed_out else ("raise" if rr.error else "return"))
            if rr.timed_out:
                ctx.violation("dersrc_terminates", {"spec": spec, "mode": mode}, f"accepted plan (join on a derived feature group) did not terminate within {RUN_LIMIT:.0f} s in mode {mode}", "timeout", "return or raise")
                break

    # 4. other processes / hash seeds: same outcome, well-ranked plans, runs that end
    ch = children(specs, seeds, 2, limit=60.0 + 2.0 * len(specs) + CHILD_RUN_LIMIT)
    lean_reqs2, metas2 = [], []
    for sd, res in ch.items():
        if "child_failed" in res:
            # a child that does not answer at all: the harness cannot tell a spin from a crash here -> harness error, never a verdict
            raise RuntimeError(f"C04_dersrc child process (PYTHONHASHSEED={sd}) failed: {res}")
        for spec, outs_here, outs_child in zip(specs, results, res["out"]):
            first = pub(outs_here[0])
            ctx.case("dersrc_hashseed", {"spec": spec, "seed": sd}, "plan" in first, ds_seed=sd, ds_child_mixed=max([o.get("mix", {}).get("mixed", 0) for o in outs_child] + [0]),
                     ds_child_run=outs_child[0].get("run", "-"))  # fmt: skip
            differs = False
            for k, o in enumerate(outs_child):
                oc = {x: o[x] for x in ("plan", "rejected", "msg") if x in o}
                if oc != first and not differs:
                    differs = True
                    ctx.violation("dersrc_hashseed", {"spec": spec, "PYTHONHASHSEED": sd}, "preparing the same request (join on a derived feature group) under another hash seed gave a different outcome", oc, first)
                if "lean_plan" in o and (k == 0 or oc != first):
                    lean_reqs2.append({"op": "C04.planCheck", **o["lean_plan"]})
                    metas2.append((spec, sd, k, o))
            if outs_child and outs_child[0].get("run") == "timeout":
                ctx.violation("dersrc_terminates", {"spec": spec, "PYTHONHASHSEED": sd, "mode": "sync"},
                              f"accepted, well-ranked plan did not terminate within {CHILD_RUN_LIMIT:.0f} s (SYNC, child process)", "timeout", "return or raise")
        if res.get("partial"):
            ctx.note(f"child with hash seed {sd} stopped after a run that did not end ({len(res['out'])} of {len(specs)} requests answered)")
    for (spec, sd, k, o), lo in zip(metas2, ctx.lean.batch(lean_reqs2)):
        ctx.case("dersrc_planOK", {"plan": o["plan"], "seed": sd}, len(o["lean_plan"]["steps"]) >= 4)
        judge_plan(ctx, "dersrc_planOK", {"spec": spec, "process": f"PYTHONHASHSEED={sd}", "preparation": k}, o["lean_plan"], lo, sd, confirm)

    # 5. the model says a plan that is not well ranked never returns (C04.wait_cycle_never_returns): confirm on the real code
    done: Set[str] = set()
    # plans seen in a child are confirmed under that child's hash seed; a plan of the check process itself can only be re-planned
    # under a fresh random hash seed (the child may then get another, well-ranked plan), so those come last
    for spec, sd, lp in sorted(confirm, key=lambda c: c[1] is None):
        key = json.dumps([spec["request"], sd], sort_keys=True)
        if key in done or len(done) >= 3:
            continue
        done.add(key)
        outcome = run_in_child(spec, sd, SPIN_LIMIT)
        ctx.case("dersrc_spin_confirm", {"spec": spec, "PYTHONHASHSEED": sd}, True, ds_spin=outcome)
        if outcome == "returned" and sd is not None:
            # same hash seed, same request: if the child planned the same ill-ranked plan, the model is contradicted
            ctx.note(f"a plan that is not well ranked was seen under PYTHONHASHSEED={sd}, but a second child with that seed returned")
    S.stop_flight_server()
    ctx.extra["dersrc_wall_s"] = round(time.time() - t_start, 1)


def search(ctx: Ctx, broken: List[str]) -> None:
    run(ctx)


def replay(ctx: Ctx, body: Dict[str, Any]) -> None:
    """Re-judge the request of a recorded violation (all processes / hash seeds); without one, run the suites."""
    spec = (body.get("case") or {}).get("spec")
    if not spec or not spec.get("dersrc"):
        run(ctx)
        return
    outs = [outcome_of(spec) for _ in range(3)]
    first = pub(outs[0])
    ctx.case("dersrc_prepare", {"spec": spec}, True, ds_outcome="plan" if "plan" in first else "rejected")
    confirm: List[Any] = []
    for o in outs[1:]:
        if pub(o) != first:
            ctx.violation("dersrc_prepare", {"spec": spec}, "preparing the same request twice in one process gave different outcomes", pub(o), first)
            break
    reqs, metas = [], []
    if "plan" in first:
        reqs.append({"op": "C04.planCheck", **S.lean_plan(outs[0]["_exp"])})
        metas.append((None, 0, S.lean_plan(outs[0]["_exp"])))
    ch = children([spec], list(range(11, 23)), 2, limit=90.0)
    for sd, res in ch.items():
        if "child_failed" in res:
            raise RuntimeError(f"C04_dersrc child process (PYTHONHASHSEED={sd}) failed: {res}")
        for k, o in enumerate(res["out"][0]):
            oc = {x: o[x] for x in ("plan", "rejected", "msg") if x in o}
            if oc != first:
                ctx.violation("dersrc_hashseed", {"spec": spec, "PYTHONHASHSEED": sd}, "preparing the same request under another hash seed gave a different outcome", oc, first)
            if "lean_plan" in o:
                reqs.append({"op": "C04.planCheck", **o["lean_plan"]})
                metas.append((sd, k, o["lean_plan"]))
            if o.get("run") == "timeout":
                ctx.violation("dersrc_terminates", {"spec": spec, "PYTHONHASHSEED": sd}, "accepted, well-ranked plan did not terminate (SYNC, child process)", "timeout", "return or raise")
    for (sd, k, lp), lo in zip(metas, ctx.lean.batch(reqs)):
        ctx.case("dersrc_planOK", {"plan": lp, "seed": sd}, True)
        judge_plan(ctx, "dersrc_planOK", {"spec": spec, "process": "check" if sd is None else f"PYTHONHASHSEED={sd}", "preparation": k}, lp, lo, sd, confirm)


if __name__ == "__main__":
    child_main()
