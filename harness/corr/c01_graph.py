"""C01 extension `graph`: the dependency-graph closure (`mloda/core/prepare/graph/graph.py`, `build_graph.py`) behind the ancestor
sets that C01 / C04 take as a parameter.

Suites
  graph_fn        random DAGs (chains, diamonds, ladders, fan-in/out, forests, duplicate edges, isolated nodes) driven through the REAL
                  `Graph` methods and through the Lean model (`drivers/C01_graph.lean`); every field is compared.
  graph_malformed cycles, self loops, edges between nodes that were never added, the four passes in arbitrary order / repeated:
                  RecursionError <-> fuel exhaustion, `RuntimeError: dictionary changed size` <-> dictChanged, at the same call.
  graph_e2e       real requests (link-free DAGs, multi-framework chains, joins) prepared by the real engine; the `Graph` object is
                  snapshotted when `set_root_parents_by_direct_` returns (harness-side wrapper) and compared with the model run on
                  the real `feature_link_parents` (sets in their real iteration order).
Oracle (independent of mloda and of the model): ancestors by BFS over the edge list.
"""
from __future__ import annotations

import sys
from typing import Any, Dict, List, Optional, Set, Tuple
from uuid import UUID

from harness.core import Ctx
from harness import fgfactory as F
from harness import schedlib as S

SUITES = {"graph_fn", "graph_malformed", "graph_e2e", "graph_witness", "graph_exhaustive"}
DRIVER = "C01_graph"

ASSUMPTIONS = [
    "graph: uuids are modelled as natural numbers (renamed in first-occurrence order); iteration order of Python sets of uuids is not modelled - set values are compared as sets, "
    "and keys that exist only because a defaultdict was read (empty values) are compared as a set; all other dict key orders are compared as lists",
    "graph: fuel = number of nested frames; the interpreter's limit (1000 frames minus the caller's depth) is not modelled - dependency chains deeper than that raise RecursionError in the real code although the graph is acyclic",
    "graph: node / edge properties (feature objects, feature group classes) are not part of the graph model",
]

PASSES = {"iterate": "iterate_nodes_and_edges", "direct": "set_direct_parents_for_each_child", "all": "set_all_parents_for_each_child", "roots": "set_root_parents_by_direct_"}


# ----------------------------------------------------------------------------------------------------------------------
# canonical forms


class Ren:
    def __init__(self) -> None:
        self.ids: Dict[Any, int] = {}

    def __call__(self, u: Any) -> int:
        if u not in self.ids:
            self.ids[u] = len(self.ids)
        return self.ids[u]


def canon_dict(items: List[Tuple[int, List[int]]], keep_order_of_values: bool = False) -> Any:
    """keys with non-empty values in dict order (values sorted unless they are lists), keys with empty values as a sorted list"""
    return {"items": [[k, list(v) if keep_order_of_values else sorted(v)] for k, v in items if v], "empty": sorted(k for k, v in items if not v)}


def snapshot(g: Any, rid: Any) -> Dict[str, Any]:
    return {
        "nodes": [rid(n) for n in g.nodes],
        "edges": [[rid(p), rid(c)] for (p, c) in g.edges],
        "adj": [[rid(k), [rid(c) for c in v]] for k, v in g.adjacency_list.items()],
        "roots": [rid(n) for n in g.roots],
        "queue": [rid(n) for n in g.queue],
        "visited": sorted(rid(n) for n in getattr(g, "visited", set())),
        "pbd": canon_dict([(rid(k), [rid(x) for x in v]) for k, v in g.parents_by_direct_.items()]),
        "p2c": canon_dict([(rid(k), [rid(x) for x in v]) for k, v in g.parent_to_children_mapping.items()]),
        "cwr": canon_dict([(rid(k), [rid(x) for x in v]) for k, v in g.child_with_root.items()]),
    }


def canon_model(g: Dict[str, Any]) -> Dict[str, Any]:
    return {
        "nodes": g["nodes"],
        "edges": g["edges"],
        "adj": g["adj"],
        "roots": g["roots"],
        "queue": g["queue"],
        "visited": sorted(g["visited"]),
        "pbd": canon_dict([(k, v) for k, v in g["pbd"]]),
        "p2c": canon_dict([(k, v) for k, v in g["p2c"]]),
        "cwr": canon_dict([(k, v) for k, v in g["cwr"]]),
    }


# ----------------------------------------------------------------------------------------------------------------------
# independent oracle (plain BFS over the edge list; written from the property text)


def bfs_ancestors(edges: List[Tuple[int, int]]) -> Dict[int, Set[int]]:
    par: Dict[int, Set[int]] = {}
    for p, c in edges:
        par.setdefault(c, set()).add(p)
    out: Dict[int, Set[int]] = {}
    for c in par:
        seen: Set[int] = set()
        todo = list(par[c])
        while todo:
            x = todo.pop()
            if x in seen:
                continue
            seen.add(x)
            todo.extend(par.get(x, ()))
        out[c] = seen
    return out


def has_cycle(edges: List[Tuple[int, int]]) -> bool:
    anc = bfs_ancestors(edges)
    return any(c in a for c, a in anc.items())


def oracle(ctx: Ctx, suite: str, case: Any, nodes: List[int], edges: List[Tuple[int, int]], snap: Dict[str, Any], done: Set[str]) -> None:
    """what the property needs from the graph: roots have no incoming edge; the queue lists every node reachable from a root exactly
    once, roots first; parents_by_direct_ = the edge relation; parent_to_children_mapping = its transitive closure; child_with_root
    = the roots among the ancestors."""
    anc = bfs_ancestors(edges)
    par: Dict[int, Set[int]] = {}
    kids: Dict[int, List[int]] = {}
    for p, c in edges:
        par.setdefault(c, set()).add(p)
        kids.setdefault(p, []).append(c)
    if "iterate" in done:
        want_roots = [n for n in nodes if n not in par]
        if snap["roots"] != want_roots:
            ctx.violation(suite, case, "roots are not the nodes without an incoming edge (in node order)", snap["roots"], want_roots)
        reach: Set[int] = set()
        todo = list(want_roots)
        while todo:
            x = todo.pop()
            if x in reach:
                continue
            reach.add(x)
            todo.extend(kids.get(x, ()))
        q = snap["queue"]
        if len(q) != len(set(q)):
            ctx.violation(suite, case, "a node occurs twice in the queue", q, None)
        if set(q) != reach:
            ctx.violation(suite, case, "queue is not the set of nodes reachable from the roots", sorted(q), sorted(reach))
        if q[: len(want_roots)] != want_roots:
            ctx.violation(suite, case, "queue does not start with the roots", q, want_roots)
    as_map = lambda cd: {k: set(v) for k, v in cd["items"]}  # noqa: E731
    if "direct" in done:
        got = as_map(snap["pbd"])
        if got != {c: ps for c, ps in par.items()}:
            ctx.violation(suite, case, "parents_by_direct_ is not the edge relation", {k: sorted(v) for k, v in got.items()}, {k: sorted(v) for k, v in par.items()})
    if "all" in done and "direct" in done:
        got = as_map(snap["p2c"])
        if got != anc:
            bad = sorted(c for c in set(got) | set(anc) if got.get(c) != anc.get(c))
            ctx.violation(suite, case, f"parent_to_children_mapping is not the set of all ancestors (children {bad[:4]})", {k: sorted(got.get(k, [])) for k in bad[:4]}, {k: sorted(anc.get(k, [])) for k in bad[:4]})
    if "roots" in done and "all" in done and "direct" in done and "iterate" in done:
        got = as_map(snap["cwr"])
        rs = set(snap["roots"])
        want = {c: a & rs for c, a in anc.items() if a & rs}
        if got != want:
            ctx.violation(suite, case, "child_with_root is not the set of roots among the ancestors", {k: sorted(v) for k, v in got.items()}, {k: sorted(v) for k, v in want.items()})
        if not has_cycle(edges):
            nodeset = set(nodes)
            if all(p in nodeset and c in nodeset for p, c in edges):
                for c in par:
                    if not got.get(c):
                        ctx.violation(suite, case, f"non-root node {c} of an acyclic graph has no root ancestor in child_with_root", None, None)


# ----------------------------------------------------------------------------------------------------------------------
# generators (function level)


def gen_dag(rng: Any) -> Tuple[str, int, List[Tuple[int, int]]]:
    shape = rng.choice(["chain", "diamond", "ladder", "fanin", "fanout", "forest", "random", "random", "layered", "single"])
    e: List[Tuple[int, int]] = []
    if shape == "single":
        n = rng.randint(1, 3)
    elif shape == "chain":
        n = rng.randint(2, 9)
        e = [(i, i + 1) for i in range(n - 1)]
    elif shape == "diamond":
        w = rng.randint(2, 4)
        n = w + 2
        e = [(0, i) for i in range(1, w + 1)] + [(i, w + 1) for i in range(1, w + 1)]
        if rng.random() < 0.4:
            e.append((0, w + 1))
    elif shape == "ladder":
        k = rng.randint(1, 4)  # k diamonds in a row: 2^k paths from top to bottom
        n = 3 * k + 1
        for i in range(k):
            a = 3 * i
            e += [(a, a + 1), (a, a + 2), (a + 1, a + 3), (a + 2, a + 3)]
    elif shape == "fanin":
        n = rng.randint(3, 7)
        e = [(i, n - 1) for i in range(n - 1)]
    elif shape == "fanout":
        n = rng.randint(3, 7)
        e = [(0, i) for i in range(1, n)]
    elif shape == "forest":
        n = rng.randint(3, 10)
        e = [(rng.randrange(0, i), i) for i in range(1, n) if rng.random() < 0.7]
    elif shape == "layered":
        layers = [rng.randint(1, 3) for _ in range(rng.randint(2, 4))]
        ids: List[List[int]] = []
        n = 0
        for w in layers:
            ids.append(list(range(n, n + w)))
            n += w
        for a, b in zip(ids, ids[1:]):
            for y in b:
                for x in a:
                    if rng.random() < 0.6:
                        e.append((x, y))
    else:
        n = rng.randint(2, 9)
        pr = rng.choice([0.2, 0.35, 0.5])
        e = [(i, j) for i in range(n) for j in range(i + 1, n) if rng.random() < pr]
    return shape, n, e


def make_ops(rng: Any, n: int, e: List[Tuple[int, int]], well_formed: bool) -> List[List[Any]]:
    """add_node / add_edge calls in one of several orders, with random labels"""
    lab = list(range(n))
    rng.shuffle(lab)
    e = [(lab[p], lab[c]) for p, c in e]
    rng.shuffle(e)
    if rng.random() < 0.3 and e:  # duplicate edges
        e += [rng.choice(e) for _ in range(rng.randint(1, 2))]
    style = rng.choice(["nodes_first", "buildgraph", "interleaved"])
    ops: List[List[Any]] = []
    nodes = list(lab)
    rng.shuffle(nodes)
    if style == "nodes_first":
        ops = [["node", x] for x in nodes] + [["edge", p, c] for p, c in e]
    elif style == "buildgraph":
        by_child: Dict[int, List[int]] = {x: [] for x in nodes}
        for p, c in e:
            by_child[c].append(p)
        for c, ps in by_child.items():
            ops.append(["node", c])
            for p in ps:
                ops += [["node", p], ["edge", p, c]]
    else:
        ops = [["node", x] for x in nodes] + [["edge", p, c] for p, c in e]
        rng.shuffle(ops)
        if well_formed:
            pass  # add_node after add_edge is still a well-formed graph: every endpoint is a node in the end
    if not well_formed:
        # drop some add_node calls: endpoints that are not nodes (never roots, never visited -> defaultdict growth during iteration)
        ops = [o for o in ops if o[0] != "node" or rng.random() < 0.6]
    return ops


def in_engine_order(done: List[str]) -> Set[str]:
    """the passes whose result the oracle may judge: those executed so far form (after dropping repetitions) a prefix of the
    engine's order iterate, direct, all, roots"""
    first: List[str] = []
    for p_ in done:
        if p_ not in first:
            first.append(p_)
    return set(first) if first == ["iterate", "direct", "all", "roots"][: len(first)] else set()


def drive_real(ops: List[List[Any]], uu: Dict[int, Any]) -> Tuple[Any, Optional[Tuple[int, str]], List[str]]:
    from mloda.core.prepare.graph.graph import Graph

    g = Graph()
    done: List[str] = []
    for i, o in enumerate(ops):
        try:
            if o[0] == "node":
                g.add_node(uu[o[1]], None)  # type: ignore[arg-type]
            elif o[0] == "edge":
                g.add_edge(uu[o[1]], uu[o[2]], None)  # type: ignore[arg-type]
            else:
                getattr(g, PASSES[o[0]])()
                done.append(o[0])
        except RecursionError:
            return g, (i, "recursion"), done
        except RuntimeError as ex:
            return g, (i, "dictChanged" if "changed size" in str(ex) else "RuntimeError:" + str(ex)[:80]), done
        except Exception as ex:  # anything else is a new outcome the model does not have
            return g, (i, type(ex).__name__ + ":" + str(ex)[:80]), done
    return g, None, done


def renamed(ops: List[List[Any]]) -> Tuple[List[List[Any]], Dict[int, int]]:
    r = Ren()
    out = []
    for o in ops:
        out.append([o[0]] + [r(x) for x in o[1:]])
    return out, r.ids


def fn_cases(ctx: Ctx, n: int, malformed: bool) -> List[Tuple[str, List[List[Any]], str]]:
    rng = ctx.rng
    cases = []
    for _ in range(n):
        shape, nn, e = gen_dag(rng)
        kind = "dag"
        if malformed:
            kind = rng.choice(["cycle", "selfloop", "not_nodes", "order", "repeat", "cycle_off_root"])
            if kind == "cycle" and e:
                p, c = rng.choice(e)
                e = e + [(c, p)] if rng.random() < 0.5 else e + [(max(p, c), min(p, c))]
                if not has_cycle(e):
                    e.append((e[0][1], e[0][0]))
            elif kind == "cycle":
                e = [(0, 1 % nn), (1 % nn, 0)]
            elif kind == "selfloop":
                x = rng.randrange(nn)
                e = e + [(x, x)]
            elif kind == "cycle_off_root":
                # a cycle that no root reaches, with a leaf hanging off it
                e = e + [(nn, nn + 1), (nn + 1, nn), (nn + 1, nn + 2)]
                nn += 3
        ops = make_ops(rng, nn, e, well_formed=(kind != "not_nodes"))
        passes = ["iterate", "direct", "all", "roots"]
        if kind == "order":
            passes = [p for p in passes if rng.random() < 0.75]
            rng.shuffle(passes)
        elif kind == "repeat":
            passes = passes + [rng.choice(passes) for _ in range(rng.randint(1, 3))]
        ops, _ = renamed(ops)
        cases.append((shape if not malformed else kind, ops + [[p] for p in passes], kind))
    return cases


def run_fn(ctx: Ctx, suite: str, cases: List[Tuple[str, List[List[Any]], str]]) -> None:
    rng = ctx.rng
    reqs = []
    reals = []
    for shape, ops, kind in cases:
        ids = sorted({x for o in ops for x in o[1:]})
        uu = {i: UUID(int=rng.getrandbits(128)) for i in ids}
        rid = {v: k for k, v in uu.items()}
        g, err, done = drive_real(ops, uu)
        nn = len(ids)
        fuel = rng.choice([nn + 1, nn + 1, nn + 2, 2 * nn + 5, 60])
        reqs.append({"op": "C01_graph.ops", "fuel": fuel, "ops": ops})
        reals.append((g, err, done, rid, fuel))
    outs = ctx.driver(DRIVER).batch(reqs)
    for (shape, ops, kind), (g, err, done, rid, fuel), o in zip(cases, reals, outs):
        edges = [(x[1], x[2]) for x in ops if x[0] == "edge"]
        nodes: List[int] = []
        for x in ops:
            if x[0] == "node" and x[1] not in nodes:
                nodes.append(x[1])
        case = {"ops": ops, "fuel": fuel}
        nontrivial = len(set(edges)) >= 2 and (err is not None or len(set(done)) == 4 or suite == "graph_malformed")
        ctx.case(suite, case, nontrivial, graph_shape=shape, graph_outcome=("ok" if err is None else err[1]))
        if err is None:
            impl: Any = {"ok": True, "g": snapshot(g, lambda u: rid[u])}
            model: Any = {"ok": True, "g": canon_model(o["g"])} if o.get("ok") else o
        else:
            impl = {"ok": False, "at": err[0], "err": err[1]}
            model = o if not o.get("ok") else {"ok": True}
        if impl != model:
            ctx.disagree(suite, case, impl, model)
        if err is None:
            oracle(ctx, suite, case, nodes, edges, impl["g"], in_engine_order(done))
        elif not has_cycle(edges) and err[1] == "recursion":
            ctx.violation(suite, case, "RecursionError on an acyclic graph", err, None)
        elif kind in ("dag",):
            # a well-formed acyclic graph driven in the engine's order must be processed
            ctx.violation(suite, case, f"well-formed acyclic graph was not processed: {err}", err, "ok")


def exhaustive_cases(n: int) -> List[Tuple[str, List[List[Any]], str]]:
    """every directed graph on n labelled nodes (self loops included): all 2^(n*n) edge sets, nodes added first, engine pass order"""
    pairs = [(p_, c) for p_ in range(n) for c in range(n)]
    cases = []
    for m in range(1 << len(pairs)):
        e = [pairs[i] for i in range(len(pairs)) if m >> i & 1]
        ops: List[List[Any]] = [["node", i] for i in range(n)] + [["edge", p_, c] for p_, c in e] + [["iterate"], ["direct"], ["all"], ["roots"]]
        cases.append((f"all{n}", ops, "exhaustive" if has_cycle(e) else "dag"))
    return cases


# ----------------------------------------------------------------------------------------------------------------------
# closed witnesses of the Lean side, replayed on the real code


def witness_suite(ctx: Ctx) -> None:
    suite = "graph_witness"
    nodes3 = [["node", 0], ["node", 1], ["node", 2]]
    passes = [["iterate"], ["direct"], ["all"], ["roots"]]
    ws = [
        # C01.graph_cycle_exhausts_fuel_witness
        ("cycle", nodes3 + [["edge", 0, 1], ["edge", 1, 2], ["edge", 2, 1]] + passes, {"ok": False, "at": 7, "err": "recursion"}),
        # C01.graph_queue_not_topological_witness: diamond 0 -> 1 -> 3, 0 -> 2 -> 3: the queue is [0, 1, 3, 2]
        ("diamond_queue", nodes3 + [["node", 3], ["edge", 0, 1], ["edge", 0, 2], ["edge", 1, 3], ["edge", 2, 3]] + passes, {"queue": [0, 1, 3, 2]}),
        # C01.graph_dict_changed_witness: set_direct without iterate
        ("direct_before_iterate", [["node", 0], ["node", 1], ["edge", 0, 1], ["direct"]], {"ok": False, "at": 3, "err": "dictChanged"}),
        # self loop
        ("selfloop", [["node", 0], ["edge", 0, 0]] + passes, {"ok": False, "at": 3, "err": "recursion"}),
    ]
    reqs = [{"op": "C01_graph.ops", "fuel": 50, "ops": ops} for _, ops, _ in ws]
    outs = ctx.driver(DRIVER).batch(reqs)
    for (name, ops, want), o in zip(ws, outs):
        ids = sorted({x for op in ops for x in op[1:]})
        uu = {i: UUID(int=i + 1) for i in ids}
        rid = {v: k for k, v in uu.items()}
        g, err, done = drive_real(ops, uu)
        ctx.case(suite, {"witness": name, "ops": ops}, True, graph_witness=name)
        if "queue" in want:
            impl = {"queue": [rid[u] for u in g.queue]} if err is None else {"err": err}
            model = {"queue": o.get("g", {}).get("queue")}
        else:
            impl = {"ok": False, "at": err[0], "err": err[1]} if err else {"ok": True}
            model = o if not o.get("ok") else {"ok": True}
        if impl != want or model != want:
            ctx.disagree(suite, {"witness": name, "ops": ops}, impl, model)
    # the cost of following every path (observation, not a property violation): k diamonds in a row make 2^k calls per level, a
    # "Fibonacci" DAG (every feature depends on the two before it) makes fib(n) calls - the planner is exponential in such requests
    from mloda.core.prepare.graph.graph import Graph

    calls = [0]

    class Counting(Graph):
        def get_direct_parents_for_each_child(self, parent: Any, children: Any) -> None:
            calls[0] += 1
            Graph.get_direct_parents_for_each_child(self, parent, children)

    def count_calls(n: int, edges: List[Tuple[int, int]]) -> Optional[int]:
        calls[0] = 0
        cg = Counting()
        for i in range(n):
            cg.add_node(i, None)  # type: ignore[arg-type]
        for p_, c in edges:
            cg.add_edge(p_, c, None)  # type: ignore[arg-type]
        try:
            cg.iterate_nodes_and_edges()
            cg.set_direct_parents_for_each_child()
        except BaseException as ex:
            ctx.violation(suite, {"witness": "call_count", "n": n, "edges": edges}, f"well-formed acyclic graph was not processed: {type(ex).__name__}: {ex}"[:200])
            return None
        return calls[0]

    k = 8
    ladder = [e for i in range(k) for e in [(3 * i, 3 * i + 1), (3 * i, 3 * i + 2), (3 * i + 1, 3 * i + 3), (3 * i + 2, 3 * i + 3)]]
    n_l = count_calls(3 * k + 1, ladder)
    ctx.case(suite, {"witness": "ladder8_calls"}, True, graph_witness="ladder")
    if n_l is not None:
        ctx.tag("graph_ladder8_direct_calls", n_l)
        if n_l < 2**k:
            ctx.note(f"graph: ladder of {k} diamonds needed only {n_l} calls of get_direct_parents_for_each_child (expected >= 2^{k}: every path is followed)")
    nf = 18
    n_f = count_calls(nf, [(i, i + 1) for i in range(nf - 1)] + [(i, i + 2) for i in range(nf - 2)])
    ctx.case(suite, {"witness": "fib18_calls"}, True, graph_witness="fib")
    if n_f is not None:
        ctx.tag("graph_fib18_direct_calls", n_f)

    # fuel really is the interpreter's frame budget: a dependency chain longer than the recursion limit raises RecursionError in
    # `dfs` although the graph is acyclic; the model agrees when given that budget, and succeeds with its own bound |nodes| + 1
    limit = sys.getrecursionlimit()
    n = limit + 200
    ops: List[List[Any]] = [["node", i] for i in range(n)] + [["edge", i, i + 1] for i in range(n - 1)] + [["iterate"]]
    uu = {i: UUID(int=i + 1) for i in range(n)}
    g, err, done = drive_real(ops, uu)
    outs = ctx.driver(DRIVER).batch([{"op": "C01_graph.ops", "fuel": limit, "ops": ops}, {"op": "C01_graph.ops", "fuel": n + 1, "ops": ops}])
    ctx.case(suite, {"witness": "deep_chain", "n": n}, True, graph_witness="deep_chain")
    impl = {"ok": False, "at": err[0], "err": err[1]} if err else {"ok": True}
    model_limit = outs[0] if not outs[0].get("ok") else {"ok": True}
    want = {"ok": False, "at": len(ops) - 1, "err": "recursion"}
    if impl != want or model_limit != want or not outs[1].get("ok") or outs[1]["g"]["queue"] != list(range(n)):
        ctx.disagree(suite, {"witness": "deep_chain", "n": n}, impl, {"fuel=limit": model_limit, "fuel=n+1": bool(outs[1].get("ok"))})
    ctx.tag("graph_deep_chain_real", err[1] if err else "ok")


# ----------------------------------------------------------------------------------------------------------------------
# end to end: the Graph object of a real preparation

_CAPT: Dict[str, Any] = {"installed": False, "flp": None, "snap": None, "graph": None}


def install_capture() -> None:
    if _CAPT["installed"]:
        return
    from mloda.core.prepare.graph.build_graph import BuildGraph
    from mloda.core.prepare.graph.graph import Graph

    orig_build = BuildGraph.build_graph_from_feature_links
    orig_roots = Graph.set_root_parents_by_direct_

    def build(self: Any) -> None:
        # parent sets in their real iteration order (the sets are not modified between this listing and the loop in BuildGraph)
        _CAPT["flp"] = [(c, list(ps)) for c, ps in self.feature_link_parents.items()]
        _CAPT["snap"] = None
        _CAPT["graph"] = self.graph
        orig_build(self)

    def roots(self: Any) -> None:
        orig_roots(self)
        if self is _CAPT["graph"]:
            r = Ren()
            for c, ps in _CAPT["flp"]:
                r(c)
                for p_ in ps:
                    r(p_)
            _CAPT["ren"] = r
            _CAPT["snap"] = snapshot(self, r)

    BuildGraph.build_graph_from_feature_links = build  # type: ignore[method-assign]
    Graph.set_root_parents_by_direct_ = roots  # type: ignore[method-assign]
    _CAPT["installed"] = True


def gen_request(rng: Any) -> Tuple[str, Dict[str, Any]]:
    k = rng.random()
    if k < 0.45:
        return "dag", S.gen_spec(rng, max_feats=rng.choice([3, 5, 8, 10]), frameworks=("pa",))
    if k < 0.6:
        return "dag_interleaved", S.gen_spec(rng, max_feats=rng.choice([5, 8]), frameworks=("pa",), interleave=True)
    if k < 0.75:
        return "chain", S.gen_chain_spec(rng)
    if k < 0.9:
        return "join_dag", S.gen_join_dag_spec(rng)
    return "link", S.gen_link_spec(rng, frameworks=("pa", "pd"), jointypes=("inner", "left", "outer"))


def e2e_suite(ctx: Ctx, n: int) -> None:
    from mloda.core.prepare.execution_plan import ExecutionPlan  # noqa: F401
    from mloda.core.core.step.feature_group_step import FeatureGroupStep

    install_capture()
    suite = "graph_e2e"
    reqs, metas = [], []
    for _ in range(n):
        kind, spec = gen_request(ctx.rng)
        _CAPT["flp"] = _CAPT["snap"] = _CAPT["graph"] = None
        try:
            if "sources" in spec:
                sess = S.prepare_link(spec)
            else:
                sess = S.prepare(spec, S.build_classes(spec))
        except RecursionError as ex:
            ctx.case(suite, {"kind": kind, "spec": spec}, False, graph_e2e_kind=kind, graph_e2e_outcome="RecursionError")
            ctx.violation(suite, {"kind": kind, "spec": spec}, f"preparing an acyclic request raised RecursionError: {ex!r}"[:200])
            continue
        except Exception as ex:
            # rejected for reasons outside the graph (link planner ...): still compare the graph if it got that far
            sess = None
            ctx.tag("graph_e2e_prepare_rejected", type(ex).__name__)
            if "sources" not in spec:
                ctx.case(suite, {"kind": kind, "spec": spec}, False, graph_e2e_kind=kind, graph_e2e_outcome="rejected")
                ctx.violation(suite, {"kind": kind, "spec": spec}, f"link-free acyclic request rejected at prepare: {ex!r}"[:300])
                continue
        if _CAPT["flp"] is None or _CAPT["snap"] is None:
            ctx.case(suite, {"kind": kind, "spec": spec}, False, graph_e2e_kind=kind, graph_e2e_outcome="no_graph")
            continue
        r: Ren = _CAPT["ren"]
        flp = [[r(c), [r(p_) for p_ in ps]] for c, ps in _CAPT["flp"]]
        snap = _CAPT["snap"]
        steps = []
        if sess is not None:
            for st in sess.engine.execution_planner:
                if isinstance(st, FeatureGroupStep):
                    steps.append({"outs": sorted(r(f.uuid) for f in st.features.features), "req": sorted(r(u) for u in st.required_uuids if u in r.ids)})
        reqs.append({"op": "C01_graph.flp", "fuel": 0, "flp": flp})
        metas.append((kind, spec, flp, snap, steps))
    outs = ctx.driver(DRIVER).batch(reqs)
    for (kind, spec, flp, snap, steps), o in zip(metas, outs):
        edges = [(p_, c) for c, ps in flp for p_ in ps]
        nodes = snap["nodes"]
        case = {"kind": kind, "flp": flp}
        anc = bfs_ancestors(edges)
        depth = max((len(a) for a in anc.values()), default=0)
        ctx.case(suite, case, len(edges) >= 2 and depth >= 2, graph_e2e_kind=kind, graph_e2e_outcome="ok", graph_e2e_nodes=min(len(nodes), 12))
        impl = {"ok": True, "g": snap}
        model = {"ok": True, "g": canon_model(o["g"])} if o.get("ok") else {k_: v for k_, v in o.items() if k_ != "g0"}
        if impl != model:
            ctx.disagree(suite, case, impl, model)
        oracle(ctx, suite, case, nodes, edges, snap, {"iterate", "direct", "all", "roots"})
        # the plan waits for every ancestor: required_uuids of each FeatureGroupStep contains all ancestors of its features
        for st in steps:
            need: Set[int] = set()
            for f in st["outs"]:
                need |= anc.get(f, set())
            missing = sorted(need - set(st["req"]) - set(st["outs"]))
            if missing:
                ctx.violation(suite, {**case, "step": st}, f"FeatureGroupStep computing {st['outs']} does not require its ancestors {missing}", st["req"], sorted(need))


def run(ctx: Ctx) -> None:
    ctx.extra["rule"] = (ctx.extra.get("rule", "") + " || graph: add_node/add_edge sequences (chains, diamonds, ladders, fan-in/out, forests, layered and random DAGs, duplicate edges, isolated nodes; "
        "malformed: cycles, self loops, endpoints that are no nodes, passes permuted / repeated; exhaustive: every digraph on 3 (thorough: 4) nodes) on the real Graph class vs the Lean model, every field compared; real requests prepared by the engine, Graph "
        "snapshotted after set_root_parents_by_direct_ vs model run on the real feature_link_parents; oracle = BFS ancestors, required_uuids of each FeatureGroupStep contain all ancestors; non-trivial = >=2 distinct edges")  # fmt: skip
    witness_suite(ctx)
    run_fn(ctx, "graph_exhaustive", exhaustive_cases(3 if ctx.quick else 4))
    ctx.tag("graph_exhaustive_nodes", 3 if ctx.quick else 4)
    run_fn(ctx, "graph_fn", fn_cases(ctx, ctx.budget(400, 20000), malformed=False))
    run_fn(ctx, "graph_malformed", fn_cases(ctx, ctx.budget(250, 8000), malformed=True))
    e2e_suite(ctx, ctx.budget(120, 6000))


def search(ctx: Ctx, broken: List[str]) -> None:
    witness_suite(ctx)
    run_fn(ctx, "graph_exhaustive", exhaustive_cases(3))
    run_fn(ctx, "graph_fn", fn_cases(ctx, 1500, malformed=False))
    run_fn(ctx, "graph_malformed", fn_cases(ctx, 800, malformed=True))
    e2e_suite(ctx, 300)


def replay(ctx: Ctx, body: Dict[str, Any]) -> None:
    case = body.get("case") or {}
    if body.get("suite") in ("graph_fn", "graph_malformed") and isinstance(case, dict) and "ops" in case:
        run_fn(ctx, body["suite"], [("replay", case["ops"], "dag" if body["suite"] == "graph_fn" else "replay")])
    else:
        run(ctx)
