"""C03 - the result contains exactly the requested features' columns.

Parent process: generates cases with ctx.rng, ships them to child interpreters started with different PYTHONHASHSEED
values (the hash-seed dimension of the property cannot be varied inside one interpreter), feeds the children's
observations (including the *real* set iteration orders) to the Lean model, diffs, and evaluates the independent oracle.

Child process (`python -m harness.corr.c03 --child`): executes the real mloda code only.
"""
from __future__ import annotations

import itertools
import json
import os
import subprocess
import sys
import traceback
from concurrent.futures import ThreadPoolExecutor
from typing import Any, Dict, List, Optional, Sequence, Tuple

ASSUMPTIONS = [
    "Python compares/sorts str by code point (checked by the 'sort' suite against the model's lexLe on every run)",
    "end-to-end model scenario: one compute framework per run, features without options / domains "
    "(Feature.__eq__ then distinguishes name and child_options only); declared data types only on whole features of "
    "PyArrow worlds without filters / links whose base name is requested once (so types never decide feature equality); "
    "other planner behaviour is C04/C10/C15",
    "the column names present in a step's data are observed from the generated group's calculate_feature result and "
    "passed to the model (what the planner puts on a compute framework is not modelled here)",
    "iteration order of the `_selected_feature_names` set (ordering=None) is not modelled; results compared as sets",
    "filters are placed on root-group columns only (a filter on a derived feature can leave it without its inputs)",
    "table order of get_results() is not part of the property; tables are compared as multisets; across request orders / "
    "hash seeds the returned columns (with multiplicity) are compared, not their distribution over tables (with declared "
    "data types an untyped feature joins whichever typed feature set comes first in set-iteration order)",
]

CLS_REQORDER = "request_order-with-≥2-features-in-one-step"
CLS_SUBCOL = "subcolumn-request-on-feature_names_supported-base"
CLS_AUX = "requested-feature-is-filter-or-linked-index-feature-and-follows-same-group-feature"
CLS_DUP = "request_order-with-feature-and-its-own-unnormalised-subcolumn-both-requested"

MARK = "@@C03RESULT@@"
ORDERINGS: List[Optional[str]] = [None, "alphabetical", "request_order"]


def enc(s: str) -> List[int]:
    return [ord(ch) for ch in s]


def dec(l: Sequence[int]) -> str:
    return "".join(chr(x) for x in l)


def encs(l: Sequence[str]) -> List[List[int]]:
    return [enc(s) for s in l]


def decs(l: Sequence[Sequence[int]]) -> List[str]:
    return [dec(x) for x in l]


# ======================================================================================
# child side: real mloda only
# ======================================================================================


def _err_enum(e: BaseException) -> str:
    msg = str(e)
    if "Invalid ordering" in msg or "column_ordering must be" in msg:
        return "invalidOrdering"
    if "No columns found" in msg:
        return "noColumns"
    if "Data cannot be empty" in msg:
        return "emptyData"
    if "No feature groups found" in msg or "Multiple feature groups found" in msg:
        return "noGroup"
    if "same feature as string twice" in msg or "Duplicate feature setup" in msg:
        return "duplicate"
    return "other:" + type(e).__name__ + ":" + msg[:120]


def ch_identify(c: Dict[str, Any]) -> Dict[str, Any]:
    from mloda.core.abstract_plugins.components.feature_name import FeatureName
    from mloda.core.abstract_plugins.components.parallelization_modes import ParallelizationMode
    from mloda_plugins.compute_framework.base_implementations.pyarrow.table import PyArrowTable

    cfw = PyArrowTable(ParallelizationMode.SYNC, frozenset())
    req_set = {FeatureName(n) for n in c["req"]}
    col_set = set(c["cols"])
    out: Dict[str, Any] = {"req_order": [f.name for f in req_set], "col_order": list(col_set)}
    try:
        r = cfw.identify_naming_convention(req_set, col_set, c["order"])
        out["res"] = {"ok": list(r), "is_set": isinstance(r, set)}
    except ValueError as e:
        out["res"] = {"err": _err_enum(e)}
    return out


def ch_select(c: Dict[str, Any]) -> Dict[str, Any]:
    import pyarrow as pa
    import pandas as pd
    from harness import fgfactory as F
    from mloda.core.abstract_plugins.components.feature_name import FeatureName
    from mloda.core.abstract_plugins.components.parallelization_modes import ParallelizationMode

    fw = c["fw"]
    cfw = F.FW_SHORT[fw](ParallelizationMode.SYNC, frozenset())
    req_set = {FeatureName(n) for n in c["req"]}
    if fw == "pa":
        data: Any = pa.table({col: [1, 2] for col in c["cols"]})
    elif fw == "pd":
        data = pd.DataFrame({col: [1, 2] for col in c["cols"]})
    else:
        data = [{k: i for k in row} for i, row in enumerate(c["rows"])]
    out: Dict[str, Any] = {"req_order": [f.name for f in req_set]}
    try:
        r = cfw.select_data_by_column_names(data, req_set, column_ordering=c["order"])
        if fw == "pa":
            out["res"] = {"ok": list(r.column_names)}
        elif fw == "pd":
            out["res"] = {"ok": [str(x) for x in r.columns]}
        else:
            out["res"] = {"ok": [list(row.keys()) for row in r]}
    except ValueError as e:
        out["res"] = {"err": _err_enum(e)}
    return out


def ch_sfn(c: Dict[str, Any]) -> Dict[str, Any]:
    from harness import fgfactory as F
    from mloda.core.abstract_plugins.components.feature_name import FeatureName
    from mloda.core.abstract_plugins.components.options import Options
    from mloda.core.abstract_plugins.feature_group import FeatureGroup

    g = F.make_group(F.uniq("S03_"), root_data={n: [0] for n in c["supported"]})
    out = g().set_feature_name(Options({}), FeatureName(c["name"]))
    return {"name": str(out), "base": FeatureGroup.get_column_base_feature(c["name"])}


_WORLDS: Dict[int, Dict[str, Any]] = {}  # child: world specs by id (shipped once per batch)
_BUILT: Dict[int, Tuple[List[Any], Dict[int, List[Any]]]] = {}  # child: generated classes per world (built once)


def build_world(world: Dict[str, Any]) -> Tuple[List[Any], Any, Any, Dict[int, List[Any]]]:
    """world spec -> (classes, fresh links or None, fresh global filter or None, observation sink)"""
    from harness import fgfactory as F
    from mloda.core.abstract_plugins.components.link import JoinSpec, Link
    from mloda.core.filter.global_filter import GlobalFilter

    fw = F.FW_SHORT[world["fw"]]
    if world["id"] not in _BUILT:
        obs_cols: Dict[int, List[Any]] = {}
        classes: List[Any] = []
        for gi, g in enumerate(world["groups"]):

            def after(cls: Any, data: Any, features: Any, result: Any, gi: int = gi, obs_cols: Dict[int, List[Any]] = obs_cols) -> None:
                obs_cols.setdefault(gi, []).append([sorted(features.get_all_names()), F.columns_of(result)])

            extra: Dict[str, Any] = {}
            if g.get("nosup"):
                extra["feature_names_supported"] = classmethod(lambda cls: set())
            if g["kind"] == "root":
                cls = F.make_group(
                    F.uniq("W03r_"), root_data=g["data"], multi=g.get("multi") or None, frameworks={fw},
                    index_columns=[tuple(i) for i in g["index"]] if g.get("index") else None, hooks={"after_calc": after}, extra=extra or None,
                )  # fmt: skip
            else:
                cls = F.make_group(F.uniq("W03d_"), derived=g["derived"], multi=g.get("multi") or None, frameworks={fw}, hooks={"after_calc": after})
            classes.append(cls)
        _BUILT[world["id"]] = (classes, obs_cols)
    classes, obs_cols = _BUILT[world["id"]]
    obs_cols.clear()
    links = None
    if world.get("links"):
        links = {Link.inner(JoinSpec(classes[a], ka), JoinSpec(classes[b], kb)) for a, ka, b, kb in world["links"]}
    gf = None
    if world.get("filters"):
        gf = GlobalFilter()
        for name, ftype, param in world["filters"]:
            gf.add_filter(name, ftype, param)
    return classes, links, gf, obs_cols


def ch_e2e(c: Dict[str, Any]) -> Dict[str, Any]:
    from copy import deepcopy
    from harness import fgfactory as F
    from mloda.user import mloda
    from mloda.core.core.step.feature_group_step import FeatureGroupStep

    world = _WORLDS[c["wid"]]
    classes, links, gf, obs_cols = build_world(world)
    gidx = {cls: i for i, cls in enumerate(classes)}
    kwargs: Dict[str, Any] = dict(compute_frameworks={F.FW_SHORT[world["fw"]]}, plugin_collector=F.collector(set(classes)), column_ordering=c["order"])
    if links is not None:
        kwargs["links"] = links
    if gf is not None:
        kwargs["global_filter"] = gf
    out: Dict[str, Any] = {}
    try:
        types = c.get("types") or {}
        if types:
            from mloda.user import Feature

            req_objs: List[Any] = [Feature(n, data_type=_dtype(types[n])) if n in types else n for n in c["request"]]
        else:
            req_objs = list(c["request"])
        session = mloda.prepare(req_objs, **kwargs)
    except Exception as e:
        return {"stage": "prepare", "err": _err_enum(e) if isinstance(e, ValueError) else "other:" + type(e).__name__ + ":" + str(e)[:120]}
    out["entries"] = sorted(
        [gidx[cls], f.name.name, f.child_options is not None, bool(f.initial_requested_data)]
        for cls, fs in session.engine.feature_group_collection.items()
        for f in fs
    )
    plan = deepcopy(session.engine.execution_planner)  # the run works on such a copy; same construction -> same set layout
    steps = []
    for st in plan:
        if isinstance(st, FeatureGroupStep):
            steps.append({"g": gidx[st.feature_group], "flagged": [fn.name for fn in st.features.get_initial_requested_features()], "names": sorted(st.features.get_all_names())})
    out["steps"] = steps
    try:
        res = session.run()
        out["tables"] = [F.columns_of(r) for r in res]
    except Exception as e:
        out["stage"] = "run"
        out["err"] = "other:" + type(e).__name__ + ":" + (str(e)[-160:])
    out["obs"] = {str(k): v for k, v in obs_cols.items()}
    return out


DTYPE_TAGS = {"i32": "INT32", "i64": "INT64", "flt": "FLOAT", "dbl": "DOUBLE", "str": "STRING", "bool": "BOOLEAN"}
DTYPE_ID = {"i32": 1, "i64": 2, "flt": 3, "dbl": 4, "str": 5, "bool": 6}


def _dtype(tag: str) -> Any:
    from mloda.core.abstract_plugins.components.data_types import DataType

    return DataType[DTYPE_TAGS[tag]]


def ch_grouping(c: Dict[str, Any]) -> Dict[str, Any]:
    """the real ExecutionPlan.group_features_by_compute_framework_and_options on a set of typed / untyped features"""
    from mloda.user import Feature
    from mloda.core.prepare.execution_plan import ExecutionPlan

    fs = set()
    ident: Dict[int, List[Any]] = {}
    for name, opt, tag in c["feats"]:
        f = Feature(name, options={"x": opt} if opt else {}, data_type=_dtype(tag) if tag else None)
        fs.add(f)
        ident[id(f)] = [name, opt, tag]
    order = [ident[id(f)] for f in fs]
    res = ExecutionPlan(None, None).group_features_by_compute_framework_and_options(fs)
    return {"order": order, "buckets": [sorted((ident[id(f)] for f in group), key=lambda t: t[0]) for group in res.values()]}


CHILD = {"identify": ch_identify, "select": ch_select, "sfn": ch_sfn, "e2e": ch_e2e, "grouping": ch_grouping}


def child_main() -> None:
    import logging

    logging.disable(logging.CRITICAL)
    batch = json.load(sys.stdin)
    for w in batch["worlds"]:
        _WORLDS[w["id"]] = w
    outs = []
    for c in batch["cases"]:
        try:
            o = CHILD[c["kind"]](c)
        except BaseException:
            o = {"crash": traceback.format_exc()[-600:]}
        o["seed"] = os.environ.get("PYTHONHASHSEED")
        outs.append(o)
    sys.stdout.write("\n" + MARK + json.dumps(outs) + "\n")
    sys.stdout.flush()


# ======================================================================================
# parent side
# ======================================================================================


def run_children(batches: Dict[int, List[Dict[str, Any]]], worlds: List[Dict[str, Any]], workers: int) -> Dict[int, List[Dict[str, Any]]]:
    from harness.core import env_for_subprocess, VERIF

    def one(seed: int) -> Tuple[int, List[Dict[str, Any]]]:
        env = env_for_subprocess()
        env["PYTHONHASHSEED"] = str(seed)
        p = subprocess.run(["/venv/bin/python", "-m", "harness.corr.c03", "--child"], input=json.dumps({"worlds": worlds, "cases": batches[seed]}), cwd=str(VERIF), env=env,
                           stdout=subprocess.PIPE, stderr=subprocess.PIPE, text=True, timeout=1500)  # fmt: skip
        if MARK not in p.stdout:
            raise RuntimeError(f"C03 child (seed {seed}) produced no result rc={p.returncode}\n{p.stderr[-1500:]}")
        return seed, json.loads(p.stdout.split(MARK, 1)[1])

    with ThreadPoolExecutor(max_workers=workers) as ex:
        return dict(ex.map(one, sorted(batches)))


# ---- generators -------------------------------------------------------------------------

ALPHA = ["a", "b", "ab", "t", "k", "x", "y", "~", "}", "\x7f", "1", "0", "é", "中", "A"]


def gen_name(rng: Any, maxlen: int = 3) -> str:
    return "".join(rng.choice(ALPHA) for _ in range(rng.randint(1, maxlen)))


def gen_identify_case(rng: Any) -> Dict[str, Any]:
    nreq = rng.randint(1, 4)
    req = []
    while len(req) < nreq:
        n = gen_name(rng) if rng.random() < 0.5 else rng.choice(["a", "b", "ab", "mc", "t", "a~1", "é"])
        if n not in req:
            req.append(n)
    cols = set()
    for q in req:
        r = rng.random()
        if r < 0.6:
            cols.add(q)
        if r > 0.4:
            for _ in range(rng.randint(1, 3)):
                cols.add(q + "~" + rng.choice(["0", "1", "2", "x", "~", "1~y", ""]))
        if rng.random() < 0.4:
            cols.add(q + rng.choice(["b", "}", "\x7f", "0", "~"[:0] + "_"]))  # near misses: prefix without "~"
        if rng.random() < 0.2 and len(q) > 1:
            cols.add(q[:-1])
    for _ in range(rng.randint(0, 3)):
        cols.add(gen_name(rng))
    if rng.random() < 0.05:
        cols = {gen_name(rng) + "zz"}
    order = rng.choice(ORDERINGS + ORDERINGS + ["Alphabetical", "", "sorted"])
    return {"kind": "identify", "req": req, "cols": sorted(cols), "order": order}


BASES = ["a", "ab", "b", "ba", "t", "k", "x", "xy", "y", "q", "n1", "n10", "é", "éa", "u", "v"]


def pick_names(rng: Any, n: int, with_prefix_pair: bool = True) -> List[str]:
    names: List[str] = []
    if with_prefix_pair and n >= 2:
        stem = rng.choice(["a", "x", "n1", "é", "k"])
        names += [stem, stem + rng.choice(["b", "0", "y", "a"])]
    pool = [b for b in BASES if b not in names]
    rng.shuffle(pool)
    while len(names) < n:
        names.append(pool.pop())
    rng.shuffle(names)
    return names


def gen_world(rng: Any, wid: int, typed: bool = False) -> Dict[str, Any]:
    """A world = graph spec for the child + bookkeeping for oracle and model.
    typed=True: a world for requests that declare data types (PyArrow only: typed features on the other frameworks fail in
    DataTypeValidator, C17 finding; no filters / links: their untyped aux features would differ from typed request features)"""
    template = rng.choice(["single", "single", "chain", "chain", "join", "join", "nosup"]) if not typed else rng.choice(["single", "chain", "chain"])
    fw = rng.choice(["pa", "pd", "py"]) if not typed else "pa"
    groups: List[Dict[str, Any]] = []
    links: List[List[Any]] = []
    used: List[str] = []

    def fresh(n: int, pair: bool = True) -> List[str]:
        while True:
            ns = pick_names(rng, n, pair)
            if not (set(ns) & set(used)):
                used.extend(ns)
                return ns

    def root(ncols: int, nmulti: int = 0, index: Optional[List[str]] = None, nosup: bool = False) -> Dict[str, Any]:
        cols = fresh(ncols)
        data = {c: [rng.randint(1, 9) for _ in range(3)] for c in cols}
        multi = {c: rng.randint(2, 3) for c in rng.sample(cols, nmulti)}
        g = {"kind": "root", "data": data, "multi": multi, "index": [[i] for i in index] if index else [], "nosup": nosup}
        if index:
            for i in index:
                g["data"][i] = [1, 2, 3]
                used.append(i)
        return g

    if template in ("single", "nosup"):
        groups.append(root(rng.randint(4 if typed else 3, 5), rng.randint(0, 2) if template == "single" else 1, nosup=(template == "nosup")))
    elif template == "chain":
        r = root(rng.randint(3, 4), rng.randint(0, 1))
        groups.append(r)
        plain = [c for c in r["data"] if c not in r["multi"]]
        z, w, m = fresh(3, pair=False)
        # sometimes make a derived name a prefix of (or prefixed by) one of its parent columns
        if rng.random() < 0.5:
            p0 = plain[0]
            cand = p0 + "b" if rng.random() < 0.5 else (p0[:-1] if len(p0) > 1 else p0 + "0")
            if cand not in used and cand:
                used.append(cand)
                z = cand
        der: Dict[str, Any] = {
            z: {"parents": [plain[0]], "expr": ["add", ["col", plain[0]], ["const", 1]]},
            w: {"parents": [z, plain[1]], "expr": ["add", ["col", z], ["col", plain[1]]]},
        }
        dmulti = {}
        if rng.random() < 0.5:
            der[m] = {"parents": [plain[0]], "expr": ["col", plain[0]]}
            dmulti[m] = 2
        groups.append({"kind": "derived", "derived": der, "multi": dmulti})
        if rng.random() < 0.4:
            (v,) = fresh(1, pair=False)
            groups.append({"kind": "derived", "derived": {v: {"parents": [w], "expr": ["mul", ["col", w], ["const", 2]]}}, "multi": {}})
    else:  # join
        ka, kb = "j" + rng.choice(["a", "1", "é"]), "l" + rng.choice(["b", "2", "x"])
        a = root(rng.randint(1, 2), 0, index=[ka])
        b = root(rng.randint(1, 2), 0, index=[kb])
        groups += [a, b]
        xa = [c for c in a["data"] if c != ka][0]
        yb = [c for c in b["data"] if c != kb][0]
        (s,) = fresh(1, pair=False)
        groups.append({"kind": "derived", "derived": {s: {"parents": [xa, yb], "expr": ["add", ["col", xa], ["col", yb]]}}, "multi": {}})
        links.append([0, ka, 1, kb])
    filters: List[List[Any]] = []
    if not typed and rng.random() < 0.45:
        rootcols = [c for g in groups if g["kind"] == "root" for c in g["data"] if c not in g["multi"]]
        for c in rng.sample(rootcols, rng.randint(1, min(2, len(rootcols)))):
            filters.append([c, "min", {"value": 0}])
    return {"id": wid, "template": template, "fw": fw, "groups": groups, "links": links, "filters": filters, "typed": typed}


def world_info(world: Dict[str, Any]) -> Dict[str, Any]:
    """Derived facts used by the oracle / finding predicates / model request (all from the spec, not from the code)."""
    owner: Dict[str, int] = {}
    multi: Dict[str, int] = {}
    parents: Dict[str, List[str]] = {}
    supported: Dict[int, List[str]] = {}
    criteria: Dict[int, List[str]] = {}
    for gi, g in enumerate(world["groups"]):
        names = list(g["data"].keys()) if g["kind"] == "root" else list(g["derived"].keys())
        criteria[gi] = names
        supported[gi] = [] if g.get("nosup") else names
        for n in names:
            owner[n] = gi
        for n, k in (g.get("multi") or {}).items():
            multi[n] = k
        if g["kind"] == "derived":
            for n, d in g["derived"].items():
                parents[n] = list(d["parents"])
    linked_index: Dict[int, List[str]] = {gi: [] for gi in range(len(world["groups"]))}
    for a, ka, b, kb in world.get("links") or []:
        linked_index[a].append(ka)
        linked_index[b].append(kb)
    aux: Dict[int, List[str]] = {gi: list(linked_index[gi]) for gi in linked_index}
    for name, _, _ in world.get("filters") or []:
        base = name.split("~")[0]
        for gi in criteria:
            if base in criteria[gi]:
                aux[gi].append(base if (base != name and base in supported[gi]) else name)

    def touched(n: str, seen: Optional[set] = None) -> set:
        base = n.split("~")[0]
        out = set()
        if base in owner:
            out.add(owner[base])
            for p in parents.get(base, []):
                out |= touched(p)
        return out

    requestable: List[str] = []
    for gi, g in enumerate(world["groups"]):
        for n in criteria[gi]:
            requestable.append(n)
            if n in multi:
                requestable += [f"{n}~{i}" for i in range(multi[n])]
    return {"owner": owner, "multi": multi, "parents": parents, "supported": supported, "criteria": criteria, "aux": aux, "linked_index": linked_index,
            "touched": touched, "requestable": requestable}  # fmt: skip


def expected_cols(info: Dict[str, Any], r: str) -> List[str]:
    if "~" in r:
        return [r]
    if r in info["multi"]:
        return [f"{r}~{i}" for i in range(info["multi"][r])]
    return [r]


def model_world(world: Dict[str, Any], info: Dict[str, Any]) -> Dict[str, Any]:
    groups = []
    for gi, g in enumerate(world["groups"]):
        groups.append({
            "criteria": encs(info["criteria"][gi]),
            "supported": encs(info["supported"][gi]),
            "parents": [[enc(n), encs(d["parents"])] for n, d in (g.get("derived") or {}).items()],
            "index": encs(info["linked_index"][gi]),
        })  # fmt: skip
    return {"groups": groups, "filters": encs([f[0] for f in world.get("filters") or []])}


# ---- oracle (from the property text) -----------------------------------------------------


def aux_predicate(info: Dict[str, Any], request: List[str]) -> List[str]:
    """requested features that are also a filter / linked-index feature of their group and are preceded in the request by a
    feature that makes the engine touch that group (input class of the third finding)"""
    hit = []
    for i, r in enumerate(request):
        base = r.split("~")[0]
        if base not in info["owner"]:
            continue
        g = info["owner"][base]
        norm = base if (base != r and base in info["supported"][g]) else r
        if norm in info["aux"][g] and any(g in info["touched"](r2) for r2 in request[:i]):
            hit.append(r)
    return hit


def oracle_case(info: Dict[str, Any], request: List[str], order: Optional[str], tables: Optional[List[List[str]]], err: Optional[str]) -> List[Dict[str, Any]]:
    """violations of the property text on one execution; each with a kind used for narrow finding classification"""
    v: List[Dict[str, Any]] = []
    if tables is None:
        v.append({"kind": "failed", "what": f"well-formed request failed: {err}"})
        return v
    allowed = set()
    for r in request:
        allowed |= set(expected_cols(info, r))
    for r in request:
        exp = expected_cols(info, r)
        with_all = [i for i, t in enumerate(tables) if all(c in t for c in exp)]
        with_any = [i for i, t in enumerate(tables) if any(c in t for c in exp)]
        if len(with_all) != 1 or with_any != with_all:
            v.append({"kind": "missing" if not with_any else "not-exactly-one", "feature": r, "what": f"requested feature {r!r} (columns {exp}) is in tables {with_any} (complete in {with_all}); must be exactly one"})
    for ti, t in enumerate(tables):
        extra = [c for c in t if c not in allowed]
        if extra:
            v.append({"kind": "foreign", "cols": extra, "what": f"table {ti} contains columns {extra} of features that were not requested (request {request})"})
        if len(set(t)) != len(t):
            v.append({"kind": "duplicate", "what": f"table {ti} contains a column twice: {t}"})
        if order == "alphabetical" and t != sorted(t):
            v.append({"kind": "unsorted", "what": f"column_ordering='alphabetical' but table {ti} columns are {t}"})
        if order == "request_order":
            idx = []
            for c in t:
                own = [i for i, r in enumerate(request) if c in expected_cols(info, r)]
                if own:
                    idx.append(own[0])
            if idx != sorted(idx):
                v.append({"kind": "not-request-order", "nfeat": len(set(idx)), "what": f"column_ordering='request_order', request {request}, but table {ti} columns are {t}"})
    return v


def classify(info: Dict[str, Any], request: List[str], order: Optional[str], viol: Dict[str, Any], model_agrees: bool) -> Optional[str]:
    """narrow input class of a known finding, or None (= new violation). A class is only assigned when the as-is model
    predicts exactly what the implementation returned."""
    if not model_agrees:
        return None
    k = viol["kind"]
    if k == "not-request-order" and order == "request_order" and viol.get("nfeat", 0) >= 2:
        return CLS_REQORDER
    if k == "foreign":
        subs = [r for r in request if "~" in r and r.split("~")[0] in info["owner"] and r.split("~")[0] in info["supported"][info["owner"][r.split("~")[0]]]]
        if subs and all(any(c.startswith(r.split("~")[0] + "~") for r in subs) for c in viol["cols"]):
            return CLS_SUBCOL
    if k == "missing" and viol.get("feature") in aux_predicate(info, request):
        return CLS_AUX
    if k == "duplicate" and order == "request_order":
        # q and q~s both requested and the sub-column name is not normalised away (base not in feature_names_supported)
        for r in request:
            base = r.split("~")[0]
            if "~" in r and base in request and base in info["owner"] and base not in info["supported"][info["owner"][base]]:
                return CLS_DUP
    return None


# ---- the run -------------------------------------------------------------------------------


def canon_tables(tables: List[List[str]], as_sets: bool) -> List[List[str]]:
    return sorted([sorted(t) if as_sets else list(t) for t in tables])


def run(ctx: Any) -> None:
    rng = ctx.rng
    ctx.extra["rule"] = (
        "identify_fn/select_fn/set_feature_name_fn: generated inputs run on the real functions in child interpreters with "
        "different PYTHONHASHSEED, real set iteration orders passed to the model; e2e: generated graphs (root, derived, "
        "multi-column, index+link, global-filter features) x request subsets x permutations x column_ordering x hash seeds "
        "(also requests mixing features with several declared data types and untyped features of one group, PyArrow) "
        "through mloda.prepare + session.run; grouping_fn: ExecutionPlan.group_features_by_compute_framework_and_options on "
        "generated typed/untyped feature sets vs the model's groupByType (real set iteration order passed in); non-trivial = >=2 requested features or a multi-column/sub-column/aux feature"
    )
    seeds = list(range(ctx.budget(6, 12)))
    batches: Dict[int, List[Dict[str, Any]]] = {s: [] for s in seeds}
    meta: Dict[int, List[Dict[str, Any]]] = {s: [] for s in seeds}

    def ship(seed: int, case: Dict[str, Any], m: Dict[str, Any]) -> None:
        batches[seed].append(case)
        meta[seed].append(m)

    # ---- function level ---------------------------------------------------------------------
    for _ in range(ctx.budget(4000, 30000)):
        c = gen_identify_case(rng)
        ship(rng.choice(seeds), c, {"suite": "identify_fn"})
    for _ in range(ctx.budget(1500, 9000)):
        c = gen_identify_case(rng)
        fw = rng.choice(["pa", "pd", "py"])
        c["kind"] = "select"
        c["fw"] = fw
        if c["order"] not in ORDERINGS and rng.random() < 0.7:
            c["order"] = rng.choice(ORDERINGS)
        if fw == "py":
            cols = c["cols"]
            rows = []
            for _ in range(rng.randint(0 if rng.random() < 0.1 else 1, 3)):
                row = [k for k in cols if rng.random() < 0.8]
                rng.shuffle(row)
                rows.append(row)
            c["rows"] = rows
        ship(rng.choice(seeds), c, {"suite": "select_fn"})
    for _ in range(ctx.budget(300, 3000)):
        sup = sorted({gen_name(rng, 2) for _ in range(rng.randint(0, 3))} | ({""} if rng.random() < 0.1 else set()))
        if rng.random() < 0.7 and sup:
            name = rng.choice(sup) + rng.choice(["~1", "~", "~1~2", "", "1", "~x"])
        else:
            name = gen_name(rng, 4)
        ship(rng.choice(seeds), {"kind": "sfn", "supported": sorted(sup), "name": name}, {"suite": "set_feature_name_fn"})

    # ---- end to end -------------------------------------------------------------------------
    worlds: List[Dict[str, Any]] = []
    infos: List[Dict[str, Any]] = []
    nworlds = ctx.budget(90, 160)
    for wid in range(nworlds):
        w = gen_world(rng, wid)
        worlds.append(w)
        infos.append(world_info(w))
    ntyped = ctx.budget(30, 70)
    for wid in range(nworlds, nworlds + ntyped):
        w = gen_world(rng, wid, typed=True)
        worlds.append(w)
        infos.append(world_info(w))
    max_sub = 4 if ctx.quick else 5
    TAGS = ["i64", "i32", "dbl", "flt"]  # integer root data: every numeric declaration passes the (lenient) type check
    for w, info in zip(worlds, infos):
        if not w.get("typed"):
            continue
        # requests that declare data types: >= 2 different declared types and >= 1 untyped feature of one group (directed),
        # one declared type + untyped, all typed, random mixes; optionally with a derived feature on top
        rootnames = [n for n in info["requestable"] if info["owner"].get(n.split("~")[0]) == 0]
        derived = [n for n in info["requestable"] if info["owner"].get(n.split("~")[0]) != 0 and "~" not in n]
        plain = [n for n in rootnames if "~" not in n]
        typed_cases: List[Tuple[Tuple[str, ...], Dict[str, str]]] = []
        for _ in range(ctx.budget(3, 8)):
            k = rng.randint(3, min(4, len(plain)))
            sub = rng.sample(plain, k)
            t1, t2 = rng.sample(TAGS, 2)
            types = {sub[0]: t1, sub[1]: t2}
            for extra in sub[2:-1]:
                if rng.random() < 0.5:
                    types[extra] = rng.choice(TAGS)
            if derived and rng.random() < 0.5:
                d = rng.choice(derived)
                sub = sub + [d]
                if rng.random() < 0.3:
                    types[d] = rng.choice(TAGS)
            typed_cases.append((tuple(sub), types))
        for _ in range(ctx.budget(3, 8)):
            k = rng.randint(2, min(max_sub, len(info["requestable"])))
            sub = rng.sample(info["requestable"], k)
            types = {n: rng.choice(TAGS) for n in sub if rng.random() < 0.55}
            typed_cases.append((tuple(sub), types))
        # a declared type is put on whole features only, and the same base feature is not requested a second time next to
        # it (two request features that normalise to one name but differ in data type are distinct planned features; that
        # interaction with the sub-column normalisation finding is outside the modelled scenario)
        cleaned = []
        for sub, types in typed_cases:
            types = {n: t for n, t in types.items() if "~" not in n and sum(1 for m in sub if m.split("~")[0] == n) == 1}
            cleaned.append((sub, types))
        typed_cases = cleaned
        seen_t = set()
        for sub, types in typed_cases:
            key = (frozenset(sub), json.dumps(types, sort_keys=True))
            if key in seen_t:
                continue
            seen_t.add(key)
            perms = list(itertools.permutations(sub))
            if len(perms) > 6:
                perms = rng.sample(perms, 6 if ctx.quick else 12)
            for order in ORDERINGS:
                for perm in perms:
                    for seed in rng.sample(seeds, 2):
                        ship(seed, {"kind": "e2e", "wid": w["id"], "request": list(perm), "order": order, "types": types}, {"suite": "e2e", "wid": w["id"]})
    # the grouping function itself
    for _ in range(ctx.budget(600, 6000)):
        names = rng.sample(BASES, rng.randint(1, 6))
        feats = [[n, rng.choice([0, 0, 0, 1]), rng.choice([None, None, "i64", "i32", "dbl", "str", "bool"])] for n in names]
        ship(rng.choice(seeds), {"kind": "grouping", "feats": feats}, {"suite": "grouping_fn"})
    for w, info in zip(worlds, infos):
        if w.get("typed"):
            continue
        reqable = info["requestable"]
        subsets: List[Tuple[str, ...]] = []
        # directed subsets: aux features together with another feature of the same group, sub-column requests, everything of a group
        for g, auxn in info["aux"].items():
            for a in auxn:
                mates = [n for n in info["criteria"][g] if n != a]
                if mates:
                    subsets.append((a, rng.choice(mates)))
                der = [n for n in reqable if n not in info["criteria"][g] and g in info["touched"](n) and "~" not in n]
                if der:
                    subsets.append((a, rng.choice(der)))
        subs = [n for n in reqable if "~" in n]
        if subs:
            subsets.append((rng.choice(subs),))
            subsets.append((rng.choice(subs), rng.choice([n for n in reqable if "~" not in n])))
        for _ in range(ctx.budget(5, 14)):
            k = rng.randint(1, min(max_sub, len(reqable)))
            subsets.append(tuple(rng.sample(reqable, k)))
        seen = set()
        for sub in subsets:
            if len(set(sub)) != len(sub) or frozenset(sub) in seen:
                continue
            seen.add(frozenset(sub))
            perms = list(itertools.permutations(sub))
            if len(perms) > 6:
                perms = rng.sample(perms, 6 if ctx.quick else 24)
            for order in ORDERINGS:
                for perm in perms:
                    for seed in rng.sample(seeds, 2 if ctx.quick else 3):
                        ship(seed, {"kind": "e2e", "wid": w["id"], "request": list(perm), "order": order}, {"suite": "e2e", "wid": w["id"]})
    # malformed stream: unknown feature, duplicate string, invalid ordering
    for w, info in zip(worlds[: ctx.budget(12, 60)], infos):
        good = rng.choice([n for n in info["requestable"] if "~" not in n])
        for req, order in (([good, "zz_unknown"], None), ([good, good], None), ([good], "Alphabetical"), (["zz_unknown~1"], "alphabetical")):
            ship(rng.choice(seeds), {"kind": "e2e", "wid": w["id"], "request": req, "order": order}, {"suite": "e2e_malformed", "wid": w["id"]})

    results = run_children(batches, worlds, workers=min(len(seeds), ctx.budget(6, 12)))

    # ---- model requests -----------------------------------------------------------------------
    reqs: List[Dict[str, Any]] = []
    slots: List[Tuple[int, int, str]] = []  # (seed, index, what)
    for s in seeds:
        for i, (c, o) in enumerate(zip(batches[s], results[s])):
            if "crash" in o:
                raise RuntimeError("C03 child crashed on case " + json.dumps(c)[:300] + "\n" + o["crash"])
            k = c["kind"]
            if k == "identify":
                reqs.append({"op": "C03.identify", "req": encs(o["req_order"]), "cols": encs(o["col_order"]), "order": c["order"]})
                slots.append((s, i, "identify"))
            elif k == "select":
                if c["fw"] == "py":
                    reqs.append({"op": "C03.selectDict", "rows": [encs(r) for r in c["rows"]], "req": encs(o["req_order"]), "order": c["order"]})
                else:
                    reqs.append({"op": "C03.select", "fw": c["fw"], "req": encs(o["req_order"]), "cols": encs(c["cols"]), "order": c["order"]})
                slots.append((s, i, "select"))
            elif k == "grouping":
                reqs.append({"op": "C03.grouping", "feats": [[enc(n), o_, DTYPE_ID[t] if t else None] for n, o_, t in o["order"]]})
                slots.append((s, i, "grouping"))
            elif k == "sfn":
                reqs.append({"op": "C03.setFeatureName", "supported": encs(c["supported"]), "name": enc(c["name"])})
                slots.append((s, i, "sfn"))
                reqs.append({"op": "C03.baseName", "name": enc(c["name"])})
                slots.append((s, i, "base"))
            elif k == "e2e":
                info = infos[c["wid"]]
                mw = model_world(worlds[c["wid"]], info)
                reqs.append({"op": "C03.flags", **mw, "request": encs(c["request"]), "fuel": 16, "order": c["order"]})
                slots.append((s, i, "flags"))
                if "steps" in o:
                    steps = []
                    for st in o["steps"]:
                        rec = [r for r in o["obs"].get(str(st["g"]), []) if r[0] == st["names"]]
                        cols = rec[0][1] if rec else []
                        steps.append({"flagged": encs(st["flagged"]), "cols": encs(cols)})
                    reqs.append({"op": "C03.tables", "fw": worlds[c["wid"]]["fw"], "order": c["order"], "steps": steps})
                    slots.append((s, i, "tables"))
    outs = ctx.lean.batch(reqs)
    model: Dict[Tuple[int, int, str], Any] = {sl: o for sl, o in zip(slots, outs)}

    # ---- compare + oracle ---------------------------------------------------------------------
    groups_perm: Dict[Tuple[int, frozenset, Optional[str]], List[Tuple[List[str], Any, bool]]] = {}
    groups_seed: Dict[Tuple[int, Tuple[str, ...]], List[Tuple[Any, Any, bool]]] = {}
    for s in seeds:
        for i, (c, o, m) in enumerate(zip(batches[s], results[s], meta[s])):
            k = c["kind"]
            suite = m["suite"]
            if k == "identify":
                mo = model[(s, i, "identify")]
                impl = o["res"]
                valid = c["order"] in ORDERINGS
                ctx.case(suite, [c["req"], c["cols"], c["order"]], valid and "ok" in impl and len(c["req"]) >= 2, ordering=str(c["order"]), outcome=("ok" if "ok" in impl else impl["err"]))
                as_set = c["order"] is None
                if "ok" in impl:
                    a = sorted(impl["ok"]) if as_set else impl["ok"]
                    b = (sorted(decs(mo["ok"])) if as_set else decs(mo["ok"])) if "ok" in mo else mo
                    if a != b or impl["is_set"] != as_set:
                        ctx.disagree(suite, c, impl, b)
                else:
                    if mo.get("err") != impl["err"]:
                        ctx.disagree(suite, c, impl, mo)
                # oracle on the function: exact set, sortedness, validity of the ordering argument
                expect_set = sorted(col for col in c["cols"] if any(col == q or col.startswith(q + "~") for q in c["req"]))
                if not valid:
                    if impl.get("err") != "invalidOrdering":
                        ctx.violation(suite, c, f"invalid ordering {c['order']!r} not rejected: {impl}", impl, "invalidOrdering")
                elif not expect_set:
                    if impl.get("err") != "noColumns":
                        ctx.violation(suite, c, f"no matching column but result {impl}", impl, "noColumns")
                else:
                    got = impl.get("ok")
                    if got is None or sorted(set(got)) != expect_set:
                        ctx.violation(suite, c, f"selected columns {got} but the columns of the requested features are {expect_set}", impl, expect_set)
                    elif c["order"] == "alphabetical" and got != sorted(got):
                        ctx.violation(suite, c, f"alphabetical ordering returned {got}", impl, sorted(got))
            elif k == "select":
                mo = model[(s, i, "select")]
                impl = o["res"]
                ctx.case(suite, [c["fw"], c["req"], c.get("rows", c["cols"]), c["order"]], "ok" in impl, fw=c["fw"], ordering=str(c["order"]))
                as_set = c["order"] is None
                if "ok" in impl and "ok" in mo:
                    if c["fw"] == "py":
                        a = [sorted(r) if as_set else r for r in impl["ok"]]
                        b = [sorted(decs(r)) if as_set else decs(r) for r in mo["ok"]]
                    else:
                        a = sorted(impl["ok"]) if as_set else impl["ok"]
                        b = sorted(decs(mo["ok"])) if as_set else decs(mo["ok"])
                    if a != b:
                        ctx.disagree(suite, c, impl, b)
                elif impl.get("err") != mo.get("err") or "err" not in impl:
                    ctx.disagree(suite, c, impl, mo)
                if "ok" in impl and c["order"] == "alphabetical":
                    tabs = impl["ok"] if c["fw"] == "py" else [impl["ok"]]
                    for t in tabs:
                        if t != sorted(t):
                            ctx.violation(suite, c, f"alphabetical ordering on {c['fw']} returned {t}", impl, sorted(t))
                if "ok" in impl and c["order"] in ORDERINGS:
                    have = set(c["cols"]) if c["fw"] != "py" else set(k2 for r in c["rows"] for k2 in r)
                    expect = sorted(col for col in have if any(col == q or col.startswith(q + "~") for q in c["req"]))
                    got_all = sorted(set(impl["ok"])) if c["fw"] != "py" else sorted(set(k2 for r in impl["ok"] for k2 in r))
                    if got_all != expect:
                        ctx.violation(suite, c, f"{c['fw']} select returned columns {got_all}, columns of the requested features are {expect}", impl, expect)
            elif k == "grouping":
                mo = [sorted([[dec(f[0]), f[1], f[2]] for f in b], key=lambda t: t[0]) for b in model[(s, i, "grouping")]]
                impl_b = [[[f[0], f[1], DTYPE_ID[f[2]] if f[2] else None] for f in b] for b in o["buckets"]]
                ntypes = len({f[2] for f in c["feats"] if f[2]})
                ctx.case(suite, c["feats"], ntypes >= 1 and any(f[2] is None for f in c["feats"]), ntypes=ntypes, untyped=sum(1 for f in c["feats"] if f[2] is None))
                if impl_b != mo:
                    ctx.disagree(suite, c, impl_b, mo)
                # oracle: a partition into feature sets that share options and (for declared features) the data type
                flat = [tuple(f) for b in o["buckets"] for f in b]
                if sorted(flat, key=str) != sorted((tuple(f) for f in c["feats"]), key=str):
                    dup = sorted({f[0] for f in flat if flat.count(f) > 1})
                    ctx.violation(suite, c, f"features {c['feats']} are split into feature sets {o['buckets']}: every feature must be in exactly one feature set "
                                  f"(= one step, one result table); in several: {dup}", o["buckets"], "partition")  # fmt: skip
                for b in o["buckets"]:
                    if len({f[1] for f in b}) > 1 or len({f[2] for f in b if f[2]}) > 1:
                        ctx.violation(suite, c, f"feature set {b} mixes options or declared data types", o["buckets"], "homogeneous")
            elif k == "sfn":
                impl = o
                mo_n, mo_b = dec(model[(s, i, "sfn")]), dec(model[(s, i, "base")])
                ctx.case(suite, [c["supported"], c["name"]], "~" in c["name"], normalised=(o["name"] != c["name"]))
                if impl["name"] != mo_n or impl["base"] != mo_b:
                    ctx.disagree(suite, c, impl, {"name": mo_n, "base": mo_b})
            elif k == "e2e":
                info = infos[c["wid"]]
                world = worlds[c["wid"]]
                c = dict(c, world=world)  # full case for reports / replays
                request, order = c["request"], c["order"]
                mf = model[(s, i, "flags")]
                malformed = suite == "e2e_malformed"
                multi_or_aux = any(("~" in r) or (r in info["multi"]) or any(r in a for a in info["aux"].values()) for r in request)
                ctx.case(suite, [c["world"]["id"], c["world"]["template"], request, order, o["seed"]], len(request) >= 2 or multi_or_aux,
                         fw=c["world"]["fw"], ordering=str(order), template=c["world"]["template"], nreq=len(request),
                         filters=bool(c["world"]["filters"]), links=bool(c["world"]["links"]),
                         declared_types=len(set((c.get("types") or {}).values())), untyped=sum(1 for r in request if r not in (c.get("types") or {})))  # fmt: skip
                # -- model vs implementation
                model_agrees = True
                if o.get("stage") == "prepare":
                    if mf.get("err") != o["err"]:
                        ctx.disagree(suite, c, o, mf)
                        model_agrees = False
                else:
                    if "ok" not in mf:
                        ctx.disagree(suite, c, o.get("entries"), mf)
                        model_agrees = False
                    else:
                        ment = sorted([e[0], dec(e[1]), e[2], e[3]] for e in mf["ok"])
                        if ment != o["entries"]:
                            ctx.disagree(suite, c, o["entries"], ment)
                            model_agrees = False
                        # flagged names per group as the steps see them
                        by_g: Dict[int, set] = {}
                        for st in o["steps"]:
                            by_g.setdefault(st["g"], set()).update(st["flagged"])
                        for gi, fl in enumerate(mf["flagged"]):
                            if set(decs(fl)) != by_g.get(gi, set()):
                                ctx.disagree(suite, c, {g2: sorted(v2) for g2, v2 in by_g.items()}, {"group": gi, "model_flagged": decs(fl)})
                                model_agrees = False
                    mt = model.get((s, i, "tables"))
                    if "tables" in o:
                        as_set = order is None
                        if mt is None or "ok" not in mt or canon_tables(o["tables"], as_set) != canon_tables([decs(t) for t in mt["ok"]], as_set):
                            ctx.disagree(suite, c, o["tables"], mt)
                            model_agrees = False
                    else:
                        # the run failed: the model must fail too (e.g. noColumns when a flagged feature has no column)
                        if mt is not None and "ok" in mt:
                            ctx.disagree(suite, c, o.get("err"), mt)
                            model_agrees = False
                # -- oracle
                if malformed:
                    if "tables" in o:
                        ctx.violation(suite, c, f"malformed request {request} / ordering {order!r} was executed and returned {o['tables']}", o["tables"], "error")
                    continue
                viols = oracle_case(info, request, order, o.get("tables"), o.get("err"))
                for vv in viols:
                    cls = classify(info, request, order, vv, model_agrees)
                    if vv["kind"] == "failed" and aux_predicate(info, request) and model_agrees:
                        cls = CLS_AUX
                    ctx.violation(suite, c, vv["what"], o.get("tables", o.get("err")), "property C03", finding_class=cls)
                # what must not depend on request order / hash seed: which columns are returned (with multiplicity). How the
                # planner distributes them over tables is not part of the property: with declared data types an untyped
                # feature joins the first typed feature set in set-iteration order (any one is fine, see C03.grouping_partition)
                outcome = [sorted(c2 for t in o["tables"] for c2 in t)] if "tables" in o else "error"
                tkey = json.dumps(c.get("types") or {}, sort_keys=True)
                groups_perm.setdefault((c["world"]["id"], frozenset(request), order, tkey), []).append((request, outcome, model_agrees))
                if order == "request_order":
                    groups_seed.setdefault((c["world"]["id"], tuple(request), tkey), []).append((o["seed"], canon_tables(o["tables"], False) if "tables" in o else "error", model_agrees))

    # ---- order / seed independence (needs several executions of the same request) ----------------
    for (wid, sub, order, _tkey), runs in groups_perm.items():
        info = infos[wid]
        outs_ = {json.dumps(r[1]) for r in runs}
        ctx.case("e2e_order_independence", [wid, sorted(sub), order], len(runs) >= 2)
        if len(outs_) > 1:
            a = runs[0]
            b = next(r for r in runs if json.dumps(r[1]) != json.dumps(a[1]))
            agrees = all(r[2] for r in runs)
            # narrow class: the runs differ only in the presence of requested features that are filter / linked-index
            # features of their group, and at least one run has such a feature behind another feature of that group
            susceptible = set()
            for r_ in sub:
                base = r_.split("~")[0]
                if base in info["owner"]:
                    g_ = info["owner"][base]
                    norm = base if (base != r_ and base in info["supported"][g_]) else r_
                    if norm in info["aux"][g_]:
                        susceptible |= set(expected_cols(info, r_))
            reduced = set()
            for req_, out_, _ in runs:
                if out_ == "error":
                    if not aux_predicate(info, req_):
                        reduced.add("error")
                    continue
                reduced.add(json.dumps(sorted(t2 for t2 in ([c2 for c2 in t if c2 not in susceptible] for t in out_) if t2)))
            some_aux = any(aux_predicate(info, r[0]) for r in runs)
            cls = CLS_AUX if (agrees and some_aux and len(reduced) <= 1) else None
            ctx.violation("e2e_order_independence", {"world": worlds[wid], "order": order, "request_a": a[0], "request_b": b[0]},
                          f"same features, different request order / hash seed, different result: {a[0]} -> {a[1]} but {b[0]} -> {b[1]}", a[1], b[1], finding_class=cls)  # fmt: skip
    for (wid, req, _tkey), runs in groups_seed.items():
        ctx.case("e2e_seed_independence", [wid, list(req)], len({r[0] for r in runs}) >= 2)
        outs_ = {json.dumps(r[1]) for r in runs}
        if len(outs_) > 1:
            a = runs[0]
            b = next(r for r in runs if json.dumps(r[1]) != json.dumps(a[1]))
            multi_feat = a[1] != "error" and any(len(t) >= 2 for t in a[1])
            cls = CLS_REQORDER if (all(r[2] for r in runs) and multi_feat and len(req) >= 2) else None
            ctx.violation("e2e_seed_independence", {"world": worlds[wid], "request": list(req), "seeds": [a[0], b[0]]},
                          f"column_ordering='request_order', request {list(req)}: PYTHONHASHSEED={a[0]} -> {a[1]}, PYTHONHASHSEED={b[0]} -> {b[1]}", a[1], b[1], finding_class=cls)  # fmt: skip

    # ---- sort suite: Python's str ordering is the model's lexLe -----------------------------------
    sreqs, simpl = [], []
    for _ in range(ctx.budget(200, 2000)):
        names = sorted({gen_name(rng, 4) for _ in range(rng.randint(0, 6))})
        rng.shuffle(names)
        sreqs.append({"op": "C03.sort", "names": encs(names)})
        simpl.append(sorted(names))
    for rq, im, mo in zip(sreqs, simpl, ctx.lean.batch(sreqs)):
        ctx.case("sort", rq["names"], len(im) >= 2)
        if im != decs(mo):
            ctx.disagree("sort", rq, im, decs(mo))
    ctx.extra["hash_seeds"] = seeds


def search(ctx: Any, broken: List[str]) -> None:
    run(ctx)


def replay(ctx: Any, body: Dict[str, Any]) -> None:
    run(ctx)


if __name__ == "__main__":
    if "--child" in sys.argv:
        child_main()
