"""C20 - extenders see every wrapped call, in priority order, without changing results.

Suites
  composite   exhaustive small scope on the REAL `_CompositeExtender` (all lists of <=3 / <=4 extenders x every priority
              function incl. ties x every raise pattern x wrapped-function kinds) vs `Extender.compositeCall`
  cfw         exhaustive/enumerated on a REAL ComputeFramework object: `get_function_extender` and the three real
              `run_*` methods with a stub feature group (declared-hook subsets x priorities x raise patterns) vs
              `Extender.getFunctionExtender` / `runHook`, in the set's real iteration order
  hooks       Gen/Hooks table vs a fresh probe of the run_* methods
  e2e         generated multi-step plans through mloda.run_all in SYNC / THREADING / MULTIPROCESSING with file-logging
              extenders, with and without extenders; per-step trace vs `Extender.runCalculation`
Every suite also evaluates the oracle written from the property text (functions `oracle_*`), which does not use the model.
"""
from __future__ import annotations

import itertools
import json
import logging
import multiprocessing
import os
import re
import tempfile
import threading
import time
from typing import Any, Dict, Iterable, List, Optional, Sequence, Set, Tuple
from uuid import uuid4

from harness.core import Ctx
from harness import fgfactory as F

from mloda.core.abstract_plugins.function_extender import Extender, ExtenderHook, _CompositeExtender

ASSUMPTIONS = [
    "extender behaviours are the three modelled ones (pass / raise before calling through / raise after); an extender that "
    "alters arguments or results, or raises BaseException, is outside the model",
    "CPython: sorted() is stable; set iteration order is read from the very set object handed to mloda (SYNC) or "
    "existentially matched among the orders of equal priorities (pickled copies in THREADING / MULTIPROCESSING)",
    "logging.error calls of the composite are observed through a handler on the root logger",
    "transform / join steps are not wrapped by any hook (ExtenderHook has exactly the members in Gen/Hooks)",
]

HOOKS = [h.name for h in ExtenderHook]
CALC, VIN, VOUT = "FEATURE_GROUP_CALCULATE_FEATURE", "VALIDATE_INPUT_FEATURE", "VALIDATE_OUTPUT_FEATURE"
KIND_OF_FN = {"calculate_feature": CALC, "validate_input_features": VIN, "validate_output_features": VOUT}
RAISE_AFTER_CLASS = "chain-extender-raises-after-call-through-and-wrapped-function-not-idempotent"

# --------------------------------------------------------------------------------------
# recording extender (module level so that it pickles into worker processes)

_SINK: Optional[List[str]] = None  # in-process trace sink for the function-level suites


class Boom(Exception):
    pass


class VExt(Extender):
    """`beh`: pass | rb (raise before calling through) | ra (raise after)."""

    def __init__(self, ident: int, prio: Optional[int], wraps: Iterable[str], beh: str) -> None:
        self.name = str(ident)  # `_CompositeExtender` logs `ext.name`
        self.ident = ident
        if prio is not None:
            self._priority = prio
        self._wraps = {ExtenderHook[w] for w in wraps}
        self.beh = beh

    def wraps(self) -> Set[ExtenderHook]:
        return self._wraps

    def _log(self, tag: str, func: Any, a: Any) -> None:
        if _SINK is not None:
            _SINK.append(f"{tag}{self.ident}")
        if os.environ.get(F.LOG_ENV):
            feats = None
            if len(a) > 1 and hasattr(a[1], "get_all_names"):
                feats = sorted(a[1].get_all_names())
            F.log_event(ev=tag, ext=self.ident, fn=getattr(func, "__name__", None), feats=feats, tid=threading.get_ident())

    def __call__(self, func: Any, *a: Any, **kw: Any) -> Any:
        self._log("E", func, a)
        if self.beh == "rb":
            raise Boom(f"boom-before-{self.ident}")
        r = func(*a, **kw)
        if self.beh == "ra":
            raise Boom(f"boom-after-{self.ident}")
        self._log("X", func, a)
        return r


class _PlainBase(Extender):
    """An extender that implements ONLY the documented interface (wraps / __call__ / the priority property) - in
    particular it has no `name` attribute.  One subclass per id (`PExt<id>`), so the composite's log line
    "<class name> <name or ''> <exception>" still identifies it."""

    IDENT = 0

    def configure(self, prio: Optional[int], wraps: Iterable[str], beh: str) -> "_PlainBase":
        if prio is not None:
            self.priority = prio  # the documented setter
        self._wr = {ExtenderHook[w] for w in wraps}
        self._beh = beh
        return self

    @property
    def ident(self) -> int:
        return type(self).IDENT

    @property
    def beh(self) -> str:
        return self._beh

    def wraps(self) -> Set[ExtenderHook]:
        return self._wr

    _log = VExt._log

    def __call__(self, func: Any, *a: Any, **kw: Any) -> Any:
        self._log("E", func, a)
        if self._beh == "rb":
            raise Boom(f"boom-before-{self.ident}")
        r = func(*a, **kw)
        if self._beh == "ra":
            raise Boom(f"boom-after-{self.ident}")
        self._log("X", func, a)
        return r


PLAIN: Dict[int, Any] = {}
for _i in range(1, 9):
    PLAIN[_i] = type(f"PExt{_i}", (_PlainBase,), {"IDENT": _i, "__module__": __name__})
    globals()[f"PExt{_i}"] = PLAIN[_i]  # module attribute: picklable into worker processes


def mk_ext(e: Dict[str, Any], wraps: Optional[Iterable[str]] = None) -> Any:
    """The real Extender instance of an extender spec; `plain` = class without a `name` attribute."""
    wr = list(wraps if wraps is not None else e["wraps"])
    if e.get("plain"):
        return PLAIN[e["id"]]().configure(e["prio"], wr, e["beh"])
    return VExt(e["id"], e["prio"], wr, e["beh"])


class _LogHandler(logging.Handler):
    """Turns the composite wrapper's error record ("VExt <id> <msg>" / "PExt<id>  <msg>") into an `L<id>` event."""

    PAT = re.compile(r"^(?:VExt |PExt)(\d+) ")

    def emit(self, rec: logging.LogRecord) -> None:
        try:
            m = self.PAT.match(rec.getMessage())
        except Exception:
            return
        if not m:
            return
        if _SINK is not None:
            _SINK.append(f"L{m.group(1)}")
        if os.environ.get(F.LOG_ENV):
            F.log_event(ev="L", ext=int(m.group(1)), msg=rec.getMessage()[:160], tid=threading.get_ident())


class _Logging:
    """Enable ERROR records for the duration of the suites (core.run_check disables all logging)."""

    def __enter__(self) -> "_Logging":
        self.h = _LogHandler(level=logging.ERROR)
        self.root = logging.getLogger()
        self.prev_disable = self.root.manager.disable
        self.root.addHandler(self.h)
        logging.disable(logging.WARNING)
        # mloda's thread_worker re-raises inside the worker thread; keep those tracebacks off stderr
        self.prev_hook = threading.excepthook
        threading.excepthook = lambda args: None
        return self

    def __exit__(self, *a: Any) -> None:
        self.root.removeHandler(self.h)
        logging.disable(self.prev_disable)
        threading.excepthook = self.prev_hook


def make_wrapped(outs: List[Optional[int]], tag: str = "C", as_bool: bool = False) -> Any:
    """Wrapped function: k-th call returns outs[k] (last entry repeats); None = raises.  Appends `C` to the sink."""
    state = {"k": 0}

    def func(*a: Any, **kw: Any) -> Any:
        k = state["k"]
        state["k"] += 1
        if _SINK is not None:
            _SINK.append(tag)
        o = outs[k] if k < len(outs) else outs[-1]
        if o is None:
            raise ValueError(f"wrapped-raises-{k}")
        return True if as_bool else o  # validate_* must return None/True, anything else is a validation failure

    func.state = state  # type: ignore[attr-defined]
    return func


def call_outcome(fn: Any) -> Tuple[Optional[Any], Optional[str]]:
    try:
        return fn(), None
    except Exception as e:  # noqa: BLE001 - the outcome class is what is compared
        return None, type(e).__name__


# --------------------------------------------------------------------------------------
# oracle from the property text (independent of the Lean model)


def oracle_trace(exts: List[Dict[str, Any]], trace: List[str], chain_protected: bool, wrapped_ok: bool = True) -> List[str]:
    """`exts`: the extenders that declare the kind of this wrapped call ({"id","prio","beh"}); `trace`: observed events of
    ONE wrapped call (E<id> X<id> L<id> C).  `chain_protected`: >= 2 matching extenders (the property's "chain").
    Returns the list of broken clauses."""
    bad: List[str] = []
    ids = {e["id"] for e in exts}
    prio = {e["id"]: e["prio"] for e in exts}
    ent = [(i, int(t[1:])) for i, t in enumerate(trace) if t[0] == "E"]
    # every declared extender is invoked
    for e in exts:
        if not any(x == e["id"] for _, x in ent):
            if chain_protected or len(exts) == 1:
                bad.append(f"extender {e['id']} declares the kind but was not invoked")
    for _, x in ent:
        if x not in ids:
            bad.append(f"extender {x} was invoked for a kind it does not declare")
    # nesting in ascending priority: when b is entered every lower-priority extender has been entered before
    seen: Set[int] = set()
    for _, b in ent:
        if b in prio:
            for a in ids:
                if prio[a] < prio[b] and a not in seen:
                    bad.append(f"extender {b} (priority {prio[b]}) entered before extender {a} (priority {prio[a]})")
        seen.add(b)
    raisers = [e for e in exts if e["beh"] != "pass"]
    if chain_protected:
        # an exception of one extender of a chain is logged and skipped without losing the wrapped call
        if "C" not in trace:
            bad.append("the wrapped call was lost")
        for e in raisers:
            if f"L{e['id']}" not in trace:
                bad.append(f"raising extender {e['id']} was not logged")
    if not raisers and "C" in trace and wrapped_ok:
        # pure pass-through: strict nesting enter(asc) - call - exit(desc), wrapped function called once
        if trace.count("C") == 1:
            c = trace.index("C")
            before, after = trace[:c], trace[c + 1 :]
            eb = [int(t[1:]) for t in before]
            xa = [int(t[1:]) for t in after]
            if any(t[0] != "E" for t in before) or any(t[0] != "X" for t in after):
                bad.append("pass-through chain: unexpected events around the wrapped call")
            elif sorted(eb) != sorted(ids) or [prio[x] for x in eb] != sorted(prio[x] for x in eb):
                bad.append(f"pass-through chain: entry order {eb} is not ascending in priority over all declared extenders")
            elif xa != eb[::-1]:
                bad.append(f"pass-through chain: exits {xa} do not mirror entries {eb}")
    return bad


def oracle_result(exts: List[Dict[str, Any]], outs: List[Optional[int]], got: Tuple[Optional[Any], Optional[str]], ncalls: int) -> Tuple[List[str], Optional[str]]:
    """Result clause.  Returns (broken clauses, finding class or None)."""
    bad: List[str] = []
    cls = None
    base: Tuple[Optional[Any], Optional[str]] = (outs[0], None) if outs[0] is not None else (None, "ValueError")
    raisers = [e for e in exts if e["beh"] != "pass"]
    protected = len(exts) >= 2
    if not raisers:
        if outs[0] is not None:
            if got != base:
                bad.append(f"pass-through extenders changed the result: {got} instead of {base}")
            if ncalls != 1:
                bad.append(f"pass-through extenders called the wrapped function {ncalls} times")
    elif protected:
        if ncalls < 1:
            bad.append("the wrapped call was lost")
        if outs[0] is not None and got != base:
            bad.append(f"a raising extender of a chain changed the result: {got} instead of {base}")
            idem = all(o == outs[0] for o in outs)
            if any(e["beh"] == "ra" for e in exts) and not idem and ncalls >= 2:
                cls = RAISE_AFTER_CLASS
    return bad, cls


# --------------------------------------------------------------------------------------
# suite: composite (function level, exhaustive)

W_KINDS: List[List[Optional[int]]] = [[7], list(range(20)), [None], [None, 5], [3, None]]


def weak_orderings(n: int) -> List[Tuple[int, ...]]:
    """priority functions [n] -> {0..m-1} that are onto an initial segment = all weak orderings of n items."""
    out = []
    for f in itertools.product(range(n), repeat=n):
        if n == 0 or set(f) == set(range(max(f) + 1)):
            out.append(f)
    return out


def run_composite_case(case: Dict[str, Any]) -> Dict[str, Any]:
    global _SINK
    exts = [mk_ext(e, [CALC]) for e in case["exts"]]
    _SINK = []
    try:
        comp = _CompositeExtender(list(exts), ExtenderHook[CALC])
        func = make_wrapped(case["w"])
        out, err = call_outcome(lambda: comp(func, "data", "features"))
        trace = list(_SINK)
        return {"trace": trace, "calls": func.state["k"], "out": out, "err": err, "sorted": [e.ident for e in comp.extenders], "wraps": sorted(h.name for h in comp.wraps())}
    finally:
        _SINK = None


def suite_composite(ctx: Ctx, nmax: int) -> None:
    cases: List[Dict[str, Any]] = []
    for n in range(0, nmax + 1):
        for prios in itertools.product(range(n), repeat=n):
            for behs in itertools.product(["pass", "rb", "ra"], repeat=n):
                for w in W_KINDS:
                    # every case with every assignment of extender classes: with a `name` attribute (VExt) / implementing
                    # only the documented interface (PExt<i>); for n = 4 the two uniform and two random assignments
                    masks = list(itertools.product([False, True], repeat=n))
                    if n >= 4:
                        masks = [masks[0], masks[-1]] + ctx.rng.sample(masks[1:-1], 2)
                    for mask in masks:
                        cases.append({"exts": [{"id": i + 1, "prio": prios[i], "beh": behs[i], "plain": mask[i]} for i in range(n)], "w": w})
    for i in range(0, len(cases), 100000):
        check_composite(ctx, cases[i : i + 100000])


def check_composite(ctx: Ctx, cases: List[Dict[str, Any]]) -> None:
    # the model does not depend on which class an extender is: one request per distinct (priorities, behaviours, w)
    from harness.core import cjson

    uniq: Dict[str, int] = {}
    reqs: List[Dict[str, Any]] = []
    idx: List[int] = []
    for c in cases:
        r = {"op": "C20.composite", "exts": [{"id": e["id"], "prio": e["prio"], "beh": e["beh"], "wraps": [CALC]} for e in c["exts"]], "w": c["w"], "n": 0}
        k = cjson(r)
        if k not in uniq:
            uniq[k] = len(reqs)
            reqs.append(r)
        idx.append(uniq[k])
    uouts = ctx.lean.batch(reqs) if ctx.lean else None
    outs = [uouts[i] if uouts is not None else None for i in idx]
    for c, o in zip(cases, outs):
        impl = run_composite_case(c)
        n = len(c["exts"])
        pr = [e["prio"] for e in c["exts"]]
        nontriv = n >= 2 or any(e["beh"] != "pass" for e in c["exts"])
        ctx.case("composite", c, nontriv, n_ext=n, ties=len(set(pr)) < n, raisers=sum(e["beh"] != "pass" for e in c["exts"]), nameless=sum(bool(e.get("plain")) for e in c["exts"]))
        if o is not None:
            m = {"trace": o["trace"], "calls": o["calls"], "out": o["out"]}
            i = {"trace": impl["trace"], "calls": impl["calls"], "out": impl["out"]}
            if m != i or (impl["err"] is None) != (o["out"] is not None):
                ctx.disagree("composite", c, impl, o)
        # oracle; `_CompositeExtender` always protects (n >= 1 is a chain as far as this class is concerned)
        if n >= 1:
            bad = oracle_trace(c["exts"], impl["trace"], chain_protected=(n >= 2), wrapped_ok=c["w"][0] is not None)
            rb, cls = oracle_result(c["exts"], c["w"], (impl["out"], impl["err"]), impl["calls"])
            for b in bad:
                ctx.violation("composite", c, "_CompositeExtender: " + b, impl["trace"])
            for b in rb:
                ctx.violation("composite", c, "_CompositeExtender: " + b, impl, finding_class=cls)
        if impl["wraps"] != [CALC]:
            ctx.violation("composite", c, f"_CompositeExtender.wraps() = {impl['wraps']} for a composite built for {CALC}")


# --------------------------------------------------------------------------------------
# suite: cfw (real ComputeFramework.get_function_extender and run_* with a stub feature group)

WRAP_OPTS_SMALL = [[], [CALC], [VIN, VOUT], [CALC, VIN, VOUT]]
WRAP_OPTS_ALL = [list(s) for r in range(4) for s in itertools.combinations([CALC, VIN, VOUT], r)]
PRIO_VALUES = [-10, 0, 3, 100, 101, 10**9]


class _StubFG:
    """Stub feature group: the three wrapped functions log `C` and behave per `w`."""

    funcs: Dict[str, Any] = {}

    @classmethod
    def get_class_name(cls) -> str:
        return "StubFG"

    @classmethod
    def calculate_feature(cls, data: Any, features: Any) -> Any:
        return cls.funcs[CALC](data, features)

    @classmethod
    def validate_input_features(cls, data: Any, features: Any) -> Any:
        return cls.funcs[VIN](data, features)

    @classmethod
    def validate_output_features(cls, data: Any, features: Any) -> Any:
        return cls.funcs[VOUT](data, features)


def _mk_cfw(exts: Set[Extender]) -> Any:
    import pyarrow as pa
    from mloda.core.abstract_plugins.components.parallelization_modes import ParallelizationMode

    cfw = F.PyArrowTable(ParallelizationMode.SYNC, frozenset(), uuid4(), function_extender=exts)
    cfw.data = pa.table({"x": [1, 2]})
    return cfw


def run_cfw_case(case: Dict[str, Any]) -> Dict[str, Any]:
    """Returns the real iteration order and, per hook, selection + outcome of the real run_* method."""
    global _SINK
    from mloda.core.abstract_plugins.components.feature import Feature
    from mloda.core.abstract_plugins.components.feature_set import FeatureSet

    objs = {e["id"]: mk_ext(e) for e in case["exts"]}
    extset = set(objs.values())
    cfw = _mk_cfw(extset)
    order = [x.ident for x in cfw.function_extender]
    # a registered extender that is not in the set any more (instances comparing equal collapse) can never be invoked
    lost = sorted(set(objs) - set(order))
    fs = FeatureSet()
    fs.add(Feature("x"))
    res: Dict[str, Any] = {"order": order, "lost": lost, "prio": {str(i): o.priority for i, o in objs.items()}, "hooks": {}}
    for hk in HOOKS:
        sel = cfw.get_function_extender(ExtenderHook[hk])
        if sel is None:
            s: Dict[str, Any] = {"kind": "none"}
        elif isinstance(sel, _CompositeExtender):
            s = {"kind": "composite", "ids": [x.ident for x in sel.extenders]}
            if sel.function_type != ExtenderHook[hk]:
                s["function_type"] = str(sel.function_type)
        elif isinstance(sel, (VExt, _PlainBase)) and sel is objs.get(sel.ident):
            s = {"kind": "bare", "ids": [sel.ident]}
        else:
            s = {"kind": "other:" + type(sel).__name__}
        outs = case["w"][hk]
        func = make_wrapped(outs, as_bool=(hk != CALC))
        _StubFG.funcs = {hk: func}
        _SINK = []
        try:
            if hk == CALC:
                out, err = call_outcome(lambda: cfw.run_calculate_feature(_StubFG, fs))
            elif hk == VIN:
                out, err = call_outcome(lambda: cfw.run_validate_input_features(_StubFG, fs))
            else:
                out, err = call_outcome(lambda: cfw.run_validate_output_features(_StubFG, fs))
            trace = list(_SINK)
        finally:
            _SINK = None
        res["hooks"][hk] = {"sel": s, "trace": trace, "calls": func.state["k"], "out": out, "err": err}
    return res


def cfw_cases(ctx: Ctx) -> Iterable[Dict[str, Any]]:
    def mk(n: int, lev: Sequence[int], wraps: Sequence[List[str]], behs: Sequence[str]) -> Dict[str, Any]:
        vals = sorted(ctx.rng.sample(PRIO_VALUES, max(lev) + 1)) if n else []
        exts = []
        for i in range(n):
            p: Optional[int] = vals[lev[i]]
            if p == 100 and ctx.rng.random() < 0.5:
                p = None  # leave `_priority` unset: the default 100 applies
            exts.append({"id": i + 1, "prio": p, "wraps": list(wraps[i]), "beh": behs[i], "plain": ctx.rng.random() < 0.5})
        wk = {VIN: ctx.rng.choice([[1], [1], [None]]), VOUT: ctx.rng.choice([[1], [1], [None]]), CALC: ctx.rng.choice(W_KINDS)}
        return {"exts": exts, "w": wk}

    yield mk(0, [], [], [])
    full = [1, 2] if ctx.quick else [1, 2, 3]
    for n in full:
        for lev in weak_orderings(n):
            for wr in itertools.product(WRAP_OPTS_ALL, repeat=n):
                for bh in itertools.product(["pass", "rb", "ra"], repeat=n):
                    yield mk(n, lev, wr, bh)
    big = [3] if ctx.quick else [4]
    for n in big:
        opts = WRAP_OPTS_SMALL if ctx.quick else [[CALC], [CALC, VOUT], [CALC, VIN, VOUT]]
        allc = [(lev, wr, bh) for lev in weak_orderings(n) for wr in itertools.product(opts, repeat=n) for bh in itertools.product(["pass", "rb", "ra"], repeat=n)]
        k = ctx.budget(6000, 150000)
        if len(allc) > k:
            allc = ctx.rng.sample(allc, k)
            ctx.note(f"cfw suite: n={n} sampled {k} of the enumerated combinations")
        for lev, wr, bh in allc:
            yield mk(n, lev, wr, bh)


def check_cfw(ctx: Ctx, cases: List[Dict[str, Any]]) -> None:
    impls = [run_cfw_case(c) for c in cases]
    reqs = []
    for c, im in zip(cases, impls):
        by = {e["id"]: e for e in c["exts"]}
        # the model gets the set's real iteration order and the priority the real object reports
        exts = [{"id": i, "prio": im["prio"][str(i)], "wraps": by[i]["wraps"], "beh": by[i]["beh"]} for i in im["order"]]
        for hk in HOOKS:
            reqs.append({"op": "C20.hook", "exts": exts, "hook": hk, "w": c["w"][hk], "n": 0})
            reqs.append({"op": "C20.getfe", "exts": exts, "hook": hk})
    outs = ctx.lean.batch(reqs) if ctx.lean else None
    k = 0
    for c, im in zip(cases, impls):
        n = len(c["exts"])
        nm = {hk: sum(hk in e["wraps"] for e in c["exts"]) for hk in HOOKS}
        ctx.case("cfw", c, max(nm.values(), default=0) >= 2 or any(e["beh"] != "pass" for e in c["exts"]), cfw_n_ext=n, max_matching=max(nm.values(), default=0))
        if im.get("lost"):
            ctx.violation("cfw", c, f"registered extender(s) {im['lost']} never invoked: {n} distinct Extender instances were registered, the set holds {len(im['order'])}", im["order"])
        for hk in HOOKS:
            h = im["hooks"][hk]
            if outs is not None:
                mres, msel = outs[k], outs[k + 1]
                k += 2
                # run_validate_* return None on success: only success/failure is comparable for them
                if hk == CALC:
                    same = mres["trace"] == h["trace"] and mres["calls"] == h["calls"] and mres["out"] == h["out"] and ((h["err"] is None) == (mres["out"] is not None))
                else:
                    same = mres["trace"] == h["trace"] and mres["calls"] == h["calls"] and ((h["err"] is None) == (mres["out"] is not None))
                if not same or msel != h["sel"]:
                    ctx.disagree("cfw", {"case": c, "hook": hk, "order": im["order"]}, h, {"res": mres, "sel": msel})
            # oracle
            decl = [{"id": e["id"], "prio": im["prio"][str(e["id"])], "beh": e["beh"]} for e in c["exts"] if hk in e["wraps"]]
            bad = oracle_trace(decl, h["trace"], chain_protected=len(decl) >= 2, wrapped_ok=c["w"][hk][0] is not None)
            out_for_oracle = h["out"] if hk == CALC else (1 if h["err"] is None else None)
            rb, cls = oracle_result(decl, c["w"][hk], (out_for_oracle, h["err"]), h["calls"])
            for b in bad:
                ctx.violation("cfw", {"case": c, "hook": hk}, f"ComputeFramework run_* for {hk}: {b}", h)
            for b in rb:
                ctx.violation("cfw", {"case": c, "hook": hk}, f"ComputeFramework run_* for {hk}: {b}", h, finding_class=cls)


# --------------------------------------------------------------------------------------
# suite: hooks table


def suite_hooks(ctx: Ctx) -> None:
    from harness.extractors.c20 import probe_run_methods

    names, table, _ = probe_run_methods()
    outs = ctx.lean.batch([{"op": "C20.hookNames"}] + [{"op": "C20.consults", "method": m} for m in sorted(table)]) if ctx.lean else None
    ctx.case("hooks", {"members": names}, True)
    if outs is not None and outs[0] != names:
        ctx.disagree("hooks", "members", names, outs[0])
    for i, m in enumerate(sorted(table)):
        impl = [[h, fn] for h, fn in table[m]]
        ctx.case("hooks", {"method": m}, bool(impl))
        if outs is not None and outs[i + 1] != impl:
            ctx.disagree("hooks", m, impl, outs[i + 1])
    # property text: calculation, input validation, output validation are the kinds; run_calculation wraps each
    got = [h for h, _ in table.get("run_calculation", [])]
    for hk in HOOKS:
        if got.count(hk) != 1:
            ctx.violation("hooks", {"method": "run_calculation"}, f"run_calculation consults {hk} {got.count(hk)} times (extenders declaring it are not invoked exactly once per step)", got)
    for hk, fn in table.get("run_calculation", []):
        if KIND_OF_FN.get(fn) != hk:
            ctx.violation("hooks", {"method": "run_calculation"}, f"hook {hk} wraps {fn}", table["run_calculation"])


# --------------------------------------------------------------------------------------
# suite: e2e

_COUNTER = {"n": 0}


def _tid() -> int:
    return threading.get_ident()


def _vin(cls: Any, data: Any, features: Any) -> Any:
    F.log_event(ev="C", kind=VIN, feats=sorted(features.get_all_names()), group=cls.__name__, tid=_tid())
    return True


def _vout(cls: Any, data: Any, features: Any) -> Any:
    F.log_event(ev="C", kind=VOUT, feats=sorted(features.get_all_names()), group=cls.__name__, tid=_tid())
    return None


def _before_calc(cls: Any, data: Any, features: Any) -> None:
    F.log_event(ev="C", kind=CALC, feats=sorted(features.get_all_names()), group=cls.__name__, tid=_tid())


def _stateful_after(cls: Any, data: Any, features: Any, result: Any) -> Any:
    """Non-idempotent calculate_feature: adds the number of previous calls (in this process) to every value."""
    k = _COUNTER["n"]
    _COUNTER["n"] += 1
    cols = F.to_columns(result)
    return F.from_columns({c: [None if v is None else v + k for v in vs] for c, vs in cols.items()}, F._fw_of(features))


def gen_plan(ctx: Ctx, stateful: bool = False, mp: bool = False) -> Dict[str, Any]:
    rng = ctx.rng
    nlin = rng.choice([1, 1, 2])
    lineages = []
    for li in range(nlin):
        depth = rng.choice([1, 2, 2, 3]) if not stateful else rng.choice([0, 1])
        nrows = rng.randint(1, 4)
        fw = rng.choice(["pa", "pa", "pd", "py"])
        # direct transformer pairs only (chains are C14's subject); in MULTIPROCESSING a transform step *from* a non-Arrow
        # framework fails on the unchanged tree (the downloaded pa.Table is fed to the pandas->arrow hop: C14 finding), so
        # those plans would only produce failing baselines here
        switchable = {"pa": ["pd", "py"], "pd": [] if mp else ["pa"], "py": [] if mp else ["pa"]}
        cols = {f"a{li}": [rng.randint(-5, 9) for _ in range(nrows)], f"b{li}": [rng.randint(-5, 9) for _ in range(nrows)]}
        steps = []
        prev = [f"a{li}", f"b{li}"]
        cur_fw = fw
        used = {fw}
        for d in range(depth):
            name = f"d{li}_{d}"
            if len(prev) >= 2 and rng.random() < 0.6:
                parents = prev[:2]
                expr = [rng.choice(["add", "sub", "mul"]), ["col", parents[0]], ["col", parents[1]]]
            else:
                parents = [prev[-1]]
                expr = [rng.choice(["add", "mul"]), ["col", parents[0]], ["const", rng.randint(1, 3)]]
            if rng.random() < 0.2 and not stateful:
                # never back to a framework this lineage already used: mloda then re-uses the older cfw object, whose
                # data lacks the newer columns, and the plan fails even without extenders (not C20's subject)
                cur_fw = rng.choice([f for f in switchable[cur_fw] if f not in used] or [cur_fw])
                used.add(cur_fw)
            steps.append({"feature": name, "parents": parents, "expr": expr, "fw": cur_fw})
            prev = [name]
        lineages.append({"root_cols": cols, "root_fw": fw, "steps": steps})
    req = []
    for li, l in enumerate(lineages):
        names = [s["feature"] for s in l["steps"]]
        if names:
            req.append(names[-1])
            if len(names) > 1 and rng.random() < 0.4:
                req.append(rng.choice(names[:-1]))
        if not names or rng.random() < 0.3:
            req.append(f"a{li}")
    return {"lineages": lineages, "request": req, "stateful": stateful}


def gen_exts(ctx: Ctx, allow_raise: bool, allow_unprotected: bool = False) -> List[Dict[str, Any]]:
    rng = ctx.rng
    n = rng.choice([1, 2, 2, 3, 3, 4])
    vals = rng.sample(PRIO_VALUES, rng.randint(1, min(n, 3)))
    exts = []
    for i in range(n):
        p: Optional[int] = rng.choice(vals)
        if p == 100 and rng.random() < 0.5:
            p = None
        wr = rng.choice(WRAP_OPTS_ALL[1:] + [[CALC, VIN, VOUT]] * 3)
        beh = rng.choice(["pass", "pass", "rb", "ra"]) if allow_raise else "pass"
        exts.append({"id": i + 1, "prio": p, "wraps": list(wr), "beh": beh, "plain": rng.random() < 0.5})
    if not allow_unprotected:
        # a single matching extender is called without try/except (model fact `single_extender_unprotected`): keep
        # raisers only on kinds where they are part of a chain
        for hk in HOOKS:
            m = [e for e in exts if hk in e["wraps"]]
            if len(m) == 1 and m[0]["beh"] != "pass":
                m[0]["beh"] = "pass"
    return exts


def build_groups(plan: Dict[str, Any]) -> Tuple[Set[Any], Dict[str, Dict[str, Any]], Set[Any]]:
    """Returns (classes, {group class name: {"feats": [...], "derived": bool}}, frameworks)."""
    classes: Set[Any] = set()
    info: Dict[str, Dict[str, Any]] = {}
    fws: Set[Any] = set()
    extra = {"validate_input_features": classmethod(_vin), "validate_output_features": classmethod(_vout)}
    for l in plan["lineages"]:
        hooks: Dict[str, Any] = {"before_calc": _before_calc}
        if plan.get("stateful"):
            hooks["after_calc"] = _stateful_after
        rfw = F.FW_SHORT[l["root_fw"]]
        fws.add(rfw)
        r = F.make_group(F.uniq("R20_"), root_data=l["root_cols"], frameworks={rfw}, hooks=hooks, extra=dict(extra))
        classes.add(r)
        info[r.__name__] = {"derived": False, "cols": sorted(l["root_cols"])}
        for s in l["steps"]:
            fw = F.FW_SHORT[s["fw"]]
            fws.add(fw)
            g = F.make_group(F.uniq("D20_"), derived={s["feature"]: {"parents": s["parents"], "expr": s["expr"]}}, frameworks={fw}, hooks={"before_calc": _before_calc}, extra=dict(extra))
            classes.add(g)
            info[g.__name__] = {"derived": True, "cols": [s["feature"]]}
    return classes, info, fws


_FLIGHT: Dict[str, Any] = {}


def flight_server() -> Any:
    if "srv" not in _FLIGHT:
        from harness.flight import start_private_flight_server

        _FLIGHT["srv"] = start_private_flight_server()
    return _FLIGHT["srv"]


def stop_flight_server() -> None:
    srv = _FLIGHT.pop("srv", None)
    if srv is not None:
        try:
            srv.end_flight_server_process()
        except Exception:
            pass


RUN_TIMEOUT = 60.0
FLAKES = {"hangs_retried": 0}


def kill_stray_children() -> None:
    """Terminate child processes left behind by a run that did not end (manager, workers) - everything except this
    check's own flight server."""
    srv = _FLIGHT.get("srv")
    keep = srv.flight_server_process.pid if (srv is not None and srv.flight_server_process is not None) else None
    for ch in multiprocessing.active_children():
        if ch.pid != keep:
            try:
                ch.terminate()
                ch.join(2)
                if ch.is_alive():
                    ch.kill()
            except Exception:
                pass


def read_settled_log(log: str) -> List[Dict[str, Any]]:
    """The API call has returned or raised; wait until the event file stops growing (writers in worker processes that
    are being torn down), then read it."""
    last = -1
    for _ in range(100):
        size = os.path.getsize(log) if os.path.exists(log) else 0
        if size == last:
            break
        last = size
        time.sleep(0.03)
    events = []
    if os.path.exists(log):
        with open(log) as fh:
            for line in fh:
                try:
                    events.append(json.loads(line))
                except Exception:
                    pass
        try:
            os.remove(log)
        except OSError:
            pass
    return events


def run_plan_once(plan: Dict[str, Any], mode: str, exts: Optional[List[Dict[str, Any]]], logdir: str) -> Dict[str, Any]:
    from harness import schedlib as S
    from mloda.user import mloda
    from mloda.core.abstract_plugins.components.feature import Feature
    from mloda.core.abstract_plugins.components.parallelization_modes import ParallelizationMode

    # transformers register themselves by being imported
    import mloda_plugins.compute_framework.base_implementations.pandas.pandaspyarrowtransformer  # noqa: F401
    import mloda_plugins.compute_framework.base_implementations.python_dict.python_dict_pyarrow_transformer  # noqa: F401

    classes, info, fws = build_groups(plan)
    log = os.path.join(logdir, f"ev_{uuid4().hex}.log")
    extset = None
    order = None
    if exts is not None:
        objs = [mk_ext(e) for e in exts]
        extset = set(objs)
        order = [x.ident for x in extset]
    _COUNTER["n"] = 0
    fsrv = flight_server() if mode == "MULTIPROCESSING" else None

    def call() -> Dict[str, Any]:
        try:
            res = mloda.run_all(
                [Feature(n) for n in plan["request"]],
                compute_frameworks=set(fws),
                plugin_collector=F.collector(classes),
                parallelization_modes={ParallelizationMode[mode]},
                function_extender=extset,
                flight_server=fsrv,
            )
            return {"ok": True, "tables": sorted((F.to_columns(r) for r in res), key=lambda t: sorted(t.keys()))}
        except Exception as e:  # noqa: BLE001
            return {"ok": False, "err": (repr(e) + str(e))[-int(os.environ.get("VERIF_ERRLEN", "400")) :]}

    os.environ[F.LOG_ENV] = log
    try:
        fin, out = S.guarded(call, RUN_TIMEOUT)
    finally:
        os.environ.pop(F.LOG_ENV, None)
    if not fin or not isinstance(out, dict):
        out = {"ok": False, "hang": True, "err": f"run did not end within {RUN_TIMEOUT:.0f} s"}
    out["events"] = read_settled_log(log)
    out["order"] = order
    out["info"] = info
    if extset is not None:
        out["prio"] = {str(o.ident): o.priority for o in objs}
        out["lost"] = sorted({o.ident for o in objs} - set(order or []))
    return out


def run_plan(plan: Dict[str, Any], mode: str, exts: Optional[List[Dict[str, Any]]], logdir: str) -> Dict[str, Any]:
    """One mloda run under a watchdog.  A run that does not end is repeated once after the stray children were removed:
    a fork of the manager / worker processes from a multi-threaded parent can deadlock the child under load (an OS-level
    hazard that does not reproduce); only a hang that happens twice in a row is handed on (`hang`)."""
    out = run_plan_once(plan, mode, exts, logdir)
    if out.get("hang"):
        kill_stray_children()
        FLAKES["hangs_retried"] += 1
        out = run_plan_once(plan, mode, exts, logdir)
        if out.get("hang"):
            kill_stray_children()
    return out


def blocks_of(events: List[Dict[str, Any]]) -> List[Dict[str, Any]]:
    """Per (pid, tid): consecutive events with the same feature-name key form the block of one step execution.
    `L` events (from the logging handler) carry no key and join the current block of their thread."""
    per: Dict[Tuple[int, int], List[Dict[str, Any]]] = {}
    for e in events:
        if e.get("ev") not in ("E", "X", "L", "C"):
            continue
        per.setdefault((e["pid"], e.get("tid", 0)), []).append(e)
    blocks: List[Dict[str, Any]] = []
    for th, evs in per.items():
        cur: Optional[Dict[str, Any]] = None
        for e in evs:
            key = tuple(e["feats"]) if e.get("feats") is not None else None
            if e["ev"] == "L":
                if cur is not None:
                    cur["items"].append(f"L{e['ext']}")
                else:
                    blocks.append({"key": None, "items": [f"L{e['ext']}"], "thread": th, "group": None})
                continue
            if cur is None or cur["key"] != key:
                cur = {"key": key, "items": [], "thread": th, "group": None, "kinds": []}
                blocks.append(cur)
            if e["ev"] == "C":
                cur["items"].append("C")
                cur["kinds"].append(e["kind"])
                cur["group"] = e.get("group")
            else:
                cur["items"].append(f"{e['ev']}{e['ext']}")
    return blocks


def segments_of(block: Dict[str, Any]) -> List[Tuple[str, List[str]]]:
    """Split a block into wrapped-call segments [(kind, events)] using the kinds of the C events: a segment ends with
    the last event before the first enter that follows a C of a different upcoming kind.  Implemented without the model:
    walk the items; the kind of an item is the kind of the next C event at or after it, except for X/L items, which
    belong to the kind of the previous C when no E intervenes."""
    items = block["items"]
    kinds = block["kinds"]
    # index of the C event each position looks forward to
    cpos = [i for i, t in enumerate(items) if t == "C"]
    segs: List[Tuple[str, List[str]]] = []
    if not cpos:
        return [("?", list(items))]
    # boundaries: after the last C of a run of equal kinds, the segment extends over following X/L items and over
    # E items only if another C of the same kind follows before a C of a different kind
    ckind = {p: kinds[j] for j, p in enumerate(cpos)}
    runs: List[Tuple[str, int, int]] = []  # (kind, first C pos, last C pos) for maximal runs of equal kinds
    for p in cpos:
        if runs and runs[-1][0] == ckind[p]:
            runs[-1] = (runs[-1][0], runs[-1][1], p)
        else:
            runs.append((ckind[p], p, p))
    start = 0
    for ri, (kind, first, last) in enumerate(runs):
        end = len(items)
        if ri + 1 < len(runs):
            # the next run's segment starts at the first E after `last` (its enters precede its C); if there is no E
            # (no extender on that kind) it starts at its own first C
            nxt_first = runs[ri + 1][1]
            end = nxt_first
            for i in range(last + 1, nxt_first):
                if items[i][0] == "E":
                    end = i
                    break
        segs.append((kind, items[start:end]))
        start = end
    return segs


def oracle_e2e(ctx: Ctx, case: Dict[str, Any], run: Dict[str, Any], base: Dict[str, Any]) -> None:
    exts = case["exts"]
    info = run["info"]
    pr = run["prio"]
    ex = [{"id": e["id"], "prio": pr[str(e["id"])], "beh": e["beh"], "wraps": e["wraps"]} for e in exts]
    nm = {hk: [e for e in ex if hk in e["wraps"]] for hk in HOOKS}
    unprotected = any(len(nm[hk]) == 1 and nm[hk][0]["beh"] != "pass" for hk in HOOKS)
    if run.get("lost"):
        ctx.violation("e2e", case, f"{case['mode']}: registered extender(s) {run['lost']} never invoked: {len(exts)} distinct Extender instances were registered, the set handed to run_all holds {len(run['order'])}", run["order"])
    if not base["ok"]:
        ctx.note("e2e baseline run failed: " + base.get("err", "")[-200:])
        return
    if unprotected:
        return  # outside the property's chain; only the model comparison applies
    what = lambda s: f"{case['mode']}: {s}"  # noqa: E731
    if not run["ok"]:
        ctx.violation("e2e", case, what("run with chain-protected / pass-through extenders failed: " + run.get("err", "")[-200:]), run.get("err"))
        return
    # results identical to the run without extenders
    if run["tables"] != base["tables"]:
        cls = None
        if case["plan"].get("stateful") and any(e["beh"] == "ra" and len(nm[CALC]) >= 2 and CALC in e["wraps"] for e in ex):
            cls = RAISE_AFTER_CLASS
        ctx.violation("e2e", case, what("results differ from the run without extenders"), run["tables"], base["tables"], finding_class=cls)
    blocks = [b for b in blocks_of(run["events"]) if b["key"] is not None]
    by_group: Dict[str, List[Dict[str, Any]]] = {}
    for b in blocks:
        by_group.setdefault(b["group"] or "?", []).append(b)
    # number of wrapped calls known from the plan: every group runs once; validate_input only on derived groups
    for g, gi in info.items():
        bl = by_group.get(g, [])
        if len(bl) != 1:
            ctx.violation("e2e", case, what(f"group {g} has {len(bl)} step executions in the log, plan says 1"), [b["items"] for b in bl])
            continue
        b = bl[0]
        segs = segments_of(b)
        kinds_seen = [k for k, _ in segs]
        exp_kinds = ([VIN] if gi["derived"] else []) + [CALC, VOUT]
        if kinds_seen != exp_kinds:
            ctx.violation("e2e", case, what(f"group {g}: wrapped-call kinds {kinds_seen}, plan says {exp_kinds}"), b["items"], exp_kinds)
            continue
        for kind, seg in segs:
            decl = [{"id": e["id"], "prio": e["prio"], "beh": e["beh"]} for e in nm[kind]]
            bad = oracle_trace(decl, seg, chain_protected=len(decl) >= 2)
            ncalls = seg.count("C")
            if not any(e["beh"] == "ra" for e in decl) and ncalls != 1:
                bad.append(f"{ncalls} calls of the wrapped function, plan says 1")
            for m in bad:
                ctx.violation("e2e", case, what(f"group {g} kind {kind}: {m}"), seg)
    for g in by_group:
        if g not in info:
            ctx.violation("e2e", case, what(f"extender/wrapped events for unknown group {g}"), None)


def model_mismatches(case: Dict[str, Any], run: Dict[str, Any], cands: Dict[bool, List[Any]]) -> List[Tuple[Any, Any, Any]]:
    """Compare one run with the model: `cands[derived]` are the model's step results (one per candidate iteration order
    of the extender set) for a root / derived group.  Returns (case description, impl, model) triples."""
    out: List[Tuple[Any, Any, Any]] = []
    ex = case["exts"]
    unprot = any(sum(hk in e["wraps"] for e in ex) == 1 and any(hk in e["wraps"] and e["beh"] != "pass" for e in ex) for hk in HOOKS)
    if run.get("hang"):
        return out  # reported by the oracle as 'did not end'
    pred_fail = False
    for b in [b for b in blocks_of(run["events"]) if b["key"] is not None]:
        gi = run["info"].get(b["group"] or "?")
        if gi is None:
            continue
        cs = cands[bool(gi["derived"])]
        flat = [sum((s["trace"] for s in o["segs"]), []) for o in cs]
        if b["items"] not in flat:
            out.append(({"case": case, "group": b["group"], "run_ok": run["ok"], "err": run.get("err", "")[-200:]}, b["items"], flat[:3]))
        if any(not o["ok"] for o in cs):
            pred_fail = True
    if run["ok"] and pred_fail:
        out.append((case, "run ok", "model: a step fails (unprotected single raising extender)"))
    if (not run["ok"]) and not unprot:
        out.append((case, "run failed: " + run.get("err", "")[-200:], "model: all steps complete"))
    return out


def check_e2e(ctx: Ctx, cases: List[Dict[str, Any]], logdir: str) -> None:
    base_cache: Dict[str, Dict[str, Any]] = {}

    def baseline(case: Dict[str, Any], fresh: bool = False) -> Dict[str, Any]:
        bk = json.dumps([case["plan"], case["mode"]], sort_keys=True)
        if fresh or bk not in base_cache:
            base_cache[bk] = run_plan(case["plan"], case["mode"], None, logdir)
            ctx.evaluations += 1
        return base_cache[bk]

    # pass 1: every case once
    runs = []
    for case in cases:
        baseline(case)
        runs.append(run_plan(case["plan"], case["mode"], case["exts"], logdir))
    # the model's candidates per case: SYNC - the iteration order of the very set that was passed; other modes - every
    # order (each cfw object holds its own unpickled copy of the set); they do not depend on the run, so re-runs reuse them
    reqs: List[Dict[str, Any]] = []
    spans: List[Tuple[int, int]] = []
    for case, run in zip(cases, runs):
        by = {e["id"]: e for e in case["exts"]}
        prio = run.get("prio") or {str(e["id"]): (100 if e["prio"] is None else e["prio"]) for e in case["exts"]}
        orders = [run["order"]] if case["mode"] == "SYNC" else [list(p) for p in itertools.permutations(sorted(by))]
        spans.append((len(reqs), len(orders)))
        for derived in (False, True):
            for od in orders:
                exts = [{"id": i, "prio": prio[str(i)], "wraps": by[i]["wraps"], "beh": by[i]["beh"]} for i in od]
                reqs.append({"op": "C20.step", "exts": exts, "dataBefore": derived, "dataAfter": True})
    outs = ctx.lean.batch(reqs) if ctx.lean is not None else None
    for ci, (case, run) in enumerate(zip(cases, runs)):
        base = baseline(case)
        cands = None
        if outs is not None:
            k0, n = spans[ci]
            cands = {False: outs[k0 : k0 + n], True: outs[k0 + n : k0 + 2 * n]}
        problems = model_mismatches(case, run, cands) if cands else []
        # THREADING / MULTIPROCESSING runs are subject to scheduling: a case whose trace no model trace matches (or whose
        # baseline failed) is re-run up to 2 more times and counted as a disagreement only if it never matches
        tries = 0
        first_problem = None
        while case["mode"] != "SYNC" and tries < 2 and (problems or not base["ok"]) and not (run.get("hang") or base.get("hang")):
            if first_problem is None:
                first_problem = problems[0][1] if problems else "baseline failed: " + base.get("err", "")[-160:]
            tries += 1
            if not base["ok"]:
                base = baseline(case, fresh=True)
            run = run_plan(case["plan"], case["mode"], case["exts"], logdir)
            ctx.evaluations += 1
            problems = model_mismatches(case, run, cands) if cands else []
        if tries and not problems and base["ok"] and len(ctx.notes) < 12:
            ctx.note(f"e2e {case['mode']} case matched the model only after {tries} re-run(s); first attempt: {str(first_problem)[:260]}")
        ex = case["exts"]
        nsteps = len(run["info"])
        nm = {hk: sum(hk in e["wraps"] for e in ex) for hk in HOOKS}
        ctx.case("e2e", case, nsteps >= 2 and (max(nm.values()) >= 2 or any(e["beh"] != "pass" for e in ex)), mode=case["mode"], steps=nsteps, e2e_n_ext=len(ex), e2e_raisers=sum(e["beh"] != "pass" for e in ex), e2e_reruns=tries)
        if run.get("hang") or base.get("hang"):
            ctx.violation("e2e", case, f"{case['mode']}: run did not end (twice in a row, {RUN_TIMEOUT:.0f} s each; {'with' if run.get('hang') else 'without'} extenders)", None)
            continue
        if any(e.get("ev") == "E" for e in base["events"]):
            ctx.violation("e2e", case, "extender events in a run without extenders", None)
        oracle_e2e(ctx, case, run, base)
        for c, i, m in problems:
            ctx.disagree("e2e", c, i, m)
    if FLAKES["hangs_retried"]:
        ctx.tag("e2e_hangs_retried", "runs", FLAKES["hangs_retried"])
        FLAKES["hangs_retried"] = 0


def gen_e2e_cases(ctx: Ctx, n: int) -> List[Dict[str, Any]]:
    cases = []
    n_mp = max(2, n // 8)
    n_th = max(2, n // 3)
    modes = ["MULTIPROCESSING"] * n_mp + ["THREADING"] * n_th
    modes += ["SYNC"] * max(1, n - len(modes))
    for i, mode in enumerate(modes):
        r = ctx.rng.random()
        plan = gen_plan(ctx, mp=(mode == "MULTIPROCESSING"))
        if r < 0.35:
            exts = gen_exts(ctx, allow_raise=False)
        elif r < 0.93:
            exts = gen_exts(ctx, allow_raise=True)
        else:
            exts = gen_exts(ctx, allow_raise=True, allow_unprotected=True)
        cases.append({"plan": plan, "mode": mode, "exts": exts})
    # deterministic witnesses -------------------------------------------------------------
    three = [{"id": 1, "prio": 10, "wraps": [CALC, VIN, VOUT], "beh": "pass"}, {"id": 2, "prio": 5, "wraps": [CALC, VIN, VOUT], "beh": "rb"},
             {"id": 3, "prio": 10, "wraps": [CALC, VOUT], "beh": "ra"}, {"id": 4, "prio": None, "wraps": [VIN, VOUT], "beh": "pass"}]  # fmt: skip
    p0 = {"lineages": [{"root_cols": {"a0": [1, 2, 3], "b0": [4, 5, 6]}, "root_fw": "pa",
                        "steps": [{"feature": "d0_0", "parents": ["a0", "b0"], "expr": ["add", ["col", "a0"], ["col", "b0"]], "fw": "pa"},
                                  {"feature": "d0_1", "parents": ["d0_0"], "expr": ["mul", ["col", "d0_0"], ["const", 2]], "fw": "pa"}]}],
          "request": ["d0_1", "a0"], "stateful": False}  # fmt: skip
    for mode in ["SYNC", "THREADING", "MULTIPROCESSING"]:
        cases.append({"plan": p0, "mode": mode, "exts": three})
        cases.append({"plan": p0, "mode": mode, "exts": [dict(e, plain=True) for e in three]})  # documented interface only
    # the raise-after re-run on a non-idempotent calculate_feature (reproduces the function-level finding end to end)
    ps = {"lineages": [{"root_cols": {"a0": [1, 2], "b0": [3, 4]}, "root_fw": "pa", "steps": []}], "request": ["a0"], "stateful": True}
    cases.append({"plan": ps, "mode": "SYNC", "exts": [{"id": 1, "prio": 1, "wraps": [CALC], "beh": "pass"}, {"id": 2, "prio": 2, "wraps": [CALC], "beh": "ra"}]})
    cases.append({"plan": ps, "mode": "SYNC", "exts": [{"id": 1, "prio": 1, "wraps": [CALC], "beh": "pass"}, {"id": 2, "prio": 2, "wraps": [CALC], "beh": "pass"}]})
    return cases


# --------------------------------------------------------------------------------------


def run(ctx: Ctx) -> None:
    ctx.extra["rule"] = (
        "composite: every list of <=3 (quick) / <=4 (thorough) extenders x every priority function (ties incl.) x every raise "
        "pattern x 5 wrapped-function kinds on the real _CompositeExtender; cfw: declared-hook subsets x weak orderings x raise "
        "patterns on a real ComputeFramework (get_function_extender + run_* methods); e2e: generated plans x mode x extender "
        "set; non-trivial = >=2 extenders on one kind, a tie, or a raiser (e2e: and >= 2 steps)"
    )
    with _Logging():
        suite_hooks(ctx)
        suite_composite(ctx, 3 if ctx.quick else 4)
        cases = list(cfw_cases(ctx))
        for i in range(0, len(cases), 20000):
            check_cfw(ctx, cases[i : i + 20000])
        with tempfile.TemporaryDirectory(prefix="c20_") as d:
            try:
                check_e2e(ctx, gen_e2e_cases(ctx, ctx.budget(100, 1000)), d)
            finally:
                stop_flight_server()
    ctx.exhaustive = True
    ctx.extra["exhaustive_scope"] = "composite: all extender lists of length <= %d over all priority functions and raise patterns" % (3 if ctx.quick else 4)


def run_oracle_only(ctx: Ctx) -> None:
    run(ctx)


def search(ctx: Ctx, broken: List[str]) -> None:
    run(ctx)


def replay(ctx: Ctx, body: Dict[str, Any]) -> None:
    suite, case = body.get("suite"), body.get("case")
    with _Logging():
        if suite == "composite" and case:
            check_composite(ctx, [case])
        elif suite == "cfw" and case:
            check_cfw(ctx, [case.get("case", case)])
        elif suite == "e2e" and case:
            with tempfile.TemporaryDirectory(prefix="c20_") as d:
                try:
                    check_e2e(ctx, [case.get("case", case)], d)
                finally:
                    stop_flight_server()
        else:
            run(ctx)
