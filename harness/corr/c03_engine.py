"""C03 extension `engine` - the Engine's feature collection (what gets planned, what counts as requested).

Function level (`engine_fn`): generated worlds (real FeatureGroup classes: roots with DataCreator columns, derived groups whose
`input_features` return fresh `Feature` objects with own / passed-through options, contexts, domains, frameworks, declared
types, links; index columns; declared type rules; group domains; 1-2 accessible compute frameworks) x requests are handed to
the REAL `Engine` (subclass that stops after `setup_features_recursion` + `BuildGraph`, every modelled method is the real one) in
child interpreters with different PYTHONHASHSEED.  Exported: `feature_group_collection` (group, name, group options, context,
domain, frameworks, data type, child options, initial_requested_data, uuid), `feature_link_parents` (key order + parent sets), the
graph's nodes / edges, `global_filter.collection`, `links`; or the exception class.  The same world + the observed set iteration
orders (input-feature sets, `global_filter.filters`, every walk over a group's collection set, every `matched_filters` set) go to the
Lean model `EngineColl.run`; uuids are renamed canonically on both sides ((group, key) is unique in a collection).

End to end (`engine_e2e`): executable worlds through `mloda.prepare` + `session.run()`; oracle from the text of C03: every requested
feature is returned exactly once and nothing else is returned; the request must not fail.
"""
from __future__ import annotations

import json
import os
import subprocess
import sys
import traceback
from concurrent.futures import ThreadPoolExecutor
from typing import Any, Dict, List, Optional, Tuple

SUITES = {"engine_fn", "engine_e2e", "engine_witness", "engine_order"}
ASSUMPTIONS = [
    "engine: option keys / values are hashable scalars (ints) compared with ==; no option key is protected (`in_features`, "
    "`feature_chainer_parser_key`), named `domain` / `compute_framework`, or listed in `propagate_context_keys`; C15 models those",
    "engine: `feature in set` is hash-then-== and two features with different `Feature.__hash__` inputs never collide on the full 64-bit "
    "hash, so `==` (which raises on None-vs-Domain) is not evaluated for them inside set operations",
    "engine: generated feature-group classes are unrelated (no subclass filter in IdentifyFeatureGroupClass), their criteria read "
    "the base name only, `input_features` returns fresh Feature objects (never strings) and a non-root group answers every name it matches",
    "engine: filter features of the global filter carry no `child_options` and `initial_requested_data=False` (what `SingleFilter(str|Feature)` builds); "
    "requested features carry `initial_requested_data=True` exactly when built through mlodaAPI",
    "engine: iteration order of `self.links` is not passed to the model (every index feature created for one index is `==` to the first one; "
    "only fresh uuids differ) - results are compared after canonical uuid renaming",
    "engine_e2e: one compute framework (PyArrow), no options on features, filters on root columns, ordering None (the other dimensions are the main C03 suites)",
]

MARK = "@@C03ENGINE@@"
FWS = ["pa", "pd", "py"]
FW_ID = {"pa": 0, "pd": 1, "py": 2}
DT = ["INT32", "INT64", "DOUBLE", "STRING"]  # data type tags; model id = index + 1
DOMS = {"default_domain": 0, "D1": 1, "D2": 2}
JT = ["inner", "left", "outer"]

CLS_AUX = "requested-feature-is-filter-or-linked-index-feature-and-follows-same-group-feature"  # same string as harness/corr/c03.py
CLS_FDOM = "global-filter-feature-has-domain-and-meets-domainless-feature-of-a-matching-group-with-another-domain"
CLS_DMIX = "dependency-repeated-while-its-group-holds-the-same-feature-with-and-without-domain"
CLS_FLINK = "link-given-through-a-request-feature-that-is-processed-after-a-feature-touching-a-linked-group"


def enc(s: str) -> List[int]:
    return [ord(ch) for ch in s]


def dec(l: Any) -> str:
    return "".join(chr(x) for x in l)


def jopts(d: Dict[str, int]) -> List[List[int]]:
    """{"o3": 1} -> [[3, 1]] sorted by key id (the model's canonical form)"""
    return sorted([int(k[1:]), int(v)] for k, v in d.items())


# ======================================================================================
# child side: real mloda only
# ======================================================================================

_CLS_CACHE: Dict[int, Any] = {}


class _Obs:
    """iteration orders observed while the real code runs"""

    def __init__(self) -> None:
        self.inputs: Dict[str, List[int]] = {}  # "gid|base|grp|ctx" -> order of template indices in list(set)
        self.scans: List[List[int]] = []
        self.matches: List[List[int]] = []
        self.active = False


def _key_of_options(o: Any) -> str:
    return json.dumps([jopts(o.group), jopts(o.context)])


def _mk_feature(t: Dict[str, Any], classes: List[Any], options: Any = None) -> Any:
    from harness import fgfactory as F
    from mloda.core.abstract_plugins.components.feature import Feature
    from mloda.core.abstract_plugins.components.options import Options
    from mloda.core.abstract_plugins.components.data_types import DataType

    if options is None:
        options = Options(group=dict(t.get("g") or {}), context=dict(t.get("c") or {}))
    fw = F.FW_SHORT[t["f"]].get_class_name() if t.get("f") else None
    f = Feature(t["n"], options=options, domain=t.get("d"), compute_framework=fw, data_type=DataType[t["t"]] if t.get("t") else None,
                link=_mk_link(t["l"], classes) if t.get("l") else None)  # fmt: skip
    return f


def _mk_link(l: List[Any], classes: List[Any]) -> Any:
    from mloda.core.abstract_plugins.components.link import JoinSpec, Link

    jt, a, ia, b, ib = l
    return Link(jt, JoinSpec(classes[a], tuple(ia)), JoinSpec(classes[b], tuple(ib)))


def build_classes(world: Dict[str, Any], obs: _Obs) -> List[Any]:
    from harness import fgfactory as F
    from mloda.core.abstract_plugins.components.data_types import DataType

    classes: List[Any] = []
    for gi, g in enumerate(world["groups"]):
        fws = {F.FW_SHORT[x] for x in g["fws"]}
        kw: Dict[str, Any] = dict(frameworks=fws, domain=g.get("dom"))
        if g.get("index") is not None:
            kw["index_columns"] = [tuple(ix) for ix in g["index"]]
        if g.get("types"):
            kw["data_type_rule"] = lambda feature, t=g["types"]: (DataType[t[str(feature.name)]] if str(feature.name) in t else None)
        if g["kind"] == "root":
            cls = F.make_group(F.uniq("E03r_"), root_data={c: [1, 2, 3] for c in g["cols"]}, **kw)
        else:
            table = g["derived"]

            def input_features(self: Any, options: Any, feature_name: Any, table: Dict[str, Any] = table, gi: int = gi) -> Any:
                base = str(feature_name).split("~")[0]
                tmpls = table[base]
                feats = [_mk_feature(t, classes, options if t.get("pass") else None) for t in tmpls]
                s = set(feats)
                pos = {id(f): i for i, f in enumerate(feats)}
                obs.inputs[f"{gi}|{base}|{_key_of_options(options)}"] = [pos[id(f)] for f in s]
                return s

            derived = {
                n: {"parents": [t["n"].split("~")[0] for t in ts], "expr": (["col", ts[0]["n"].split("~")[0]] if ts else ["const", 1])}
                for n, ts in table.items()
            }
            cls = F.make_group(F.uniq("E03d_"), derived=derived, extra={"input_features": input_features}, **kw)
        classes.append(cls)
    return classes


def _err_enum(e: BaseException) -> str:
    if isinstance(e, RecursionError):
        return "fuel"
    msg = str(e)
    for pat, tag in (
        ("No feature groups found", "noGroup"),
        ("Multiple feature groups found", "multiGroup"),
        ("should only have one compute framework", "multiCfw"),
        ("does not support compute framework", "cfwUnsupported"),
        ("data type mismatch", "typeMismatch"),
        ("found with conflicting values", "mergeConflict"),
        ("Cannot update group: keys already exist in context", "groupCtxConflict"),
        ("Duplicate feature setup", "duplicate"),
        ("same feature as string twice", "duplicate"),
        ("Cannot compare Domain", "domainCompare"),
    ):
        if pat in msg:
            return tag
    return "other:" + type(e).__name__ + ":" + msg[:160]


def _key_json(f: Any) -> Dict[str, Any]:
    from harness import fgfactory as F

    fwid = {v: FW_ID[k] for k, v in F.FW_SHORT.items() if k in FW_ID}
    return {
        "n": enc(str(f.name)),
        "g": jopts(f.options.group),
        "c": jopts(f.options.context),
        "d": DOMS[f.domain.name] if f.domain is not None else None,
        "f": sorted(fwid[c] for c in f.compute_frameworks) if f.compute_frameworks is not None else None,
        "t": DT.index(f.data_type.value) + 1 if f.data_type is not None else None,
        "ch": jopts(f.child_options.group) if f.child_options is not None else None,
    }


def _link_json(l: Any, gidx: Dict[Any, int]) -> List[Any]:
    return [JT.index(l.jointype.value), gidx[l.left_feature_group], [enc(x) for x in l.left_index.index], gidx[l.right_feature_group], [enc(x) for x in l.right_index.index]]


class Instr:
    """patches (this interpreter only) that make the observed set iteration orders visible: the per-group sets of
    `feature_group_collection` become `LogSet`s, `identity_matched_filters` reports the order of its result set; both only while
    the outermost `setup_features_recursion` runs.  Also builds the links / the global filter of the world."""

    def __init__(self, world: Dict[str, Any], classes: List[Any], obs: _Obs) -> None:
        from mloda.core.filter.global_filter import GlobalFilter

        self.world, self.classes, self.obs = world, classes, obs
        self.gf: Any = None
        self.uu: Dict[Any, int] = {}
        self.filter_order: Optional[List[int]] = None
        if world.get("filters") is not None:
            from mloda.core.filter.single_filter import SingleFilter

            self.gf = GlobalFilter()
            for i, fl in enumerate(world["filters"]):
                sf = SingleFilter(_mk_feature(fl, classes), fl["ftype"], dict(fl["param"]))  # what GlobalFilter.add_filter builds
                self.uu[sf.uuid] = i
                self.gf.filters.add(sf)
            # order of global_filter.filters as the engine will see it, as indices into world["filters"] (equal filters collapse in the set)
            self.filter_order = [self.uu[sf.uuid] for sf in self.gf.filters]
        self.links = {_mk_link(l, classes) for l in world["links"]} if world.get("links") is not None else None

    def __enter__(self) -> "Instr":
        import collections
        import mloda.core.core.engine as E
        from mloda.core.filter.global_filter import GlobalFilter

        obs = self.obs

        class LogSet(set):  # remembers insertion positions, logs every walk
            def __init__(self, *a: Any) -> None:
                super().__init__(*a)
                self._pos: Dict[int, int] = {}

            def add(self, x: Any) -> None:
                if x not in self:
                    self._pos[id(x)] = len(self._pos)
                super().add(x)

            def __iter__(self) -> Any:
                if obs.active:
                    obs.scans.append([self._pos[id(x)] for x in set.__iter__(self)])
                return set.__iter__(self)

            def __deepcopy__(self, memo: Any) -> Any:
                import copy

                return {copy.deepcopy(x, memo) for x in set.__iter__(self)}

        def dd(factory: Any = None) -> Any:
            return collections.defaultdict(LogSet if factory is set else factory)

        self._dd, self._imf, self._sfr = E.defaultdict, GlobalFilter.identity_matched_filters, E.Engine.setup_features_recursion
        E.defaultdict = dd  # type: ignore
        depth = [0]
        orig_sfr = self._sfr

        def sfr(eng: Any, features: Any) -> None:
            depth[0] += 1
            obs.active = True
            try:
                orig_sfr(eng, features)
            finally:
                depth[0] -= 1
                if depth[0] == 0:
                    obs.active = False

        E.Engine.setup_features_recursion = sfr  # type: ignore
        if self.gf is not None:
            fpos = {wi: p for p, wi in enumerate(self.filter_order or [])}
            orig_imf, uu = self._imf, self.uu

            def imf(gfself: Any, fg: Any, feat: Any, dac: Any = None) -> Any:
                res = orig_imf(gfself, fg, feat, dac)
                got = [fpos[uu[m.uuid]] for m in res]
                rank = {p: r for r, p in enumerate(sorted(got))}
                obs.matches.append([rank[p] for p in got])
                return res

            GlobalFilter.identity_matched_filters = imf  # type: ignore
        return self

    def __exit__(self, *a: Any) -> None:
        import mloda.core.core.engine as E
        from mloda.core.filter.global_filter import GlobalFilter

        E.defaultdict = self._dd  # type: ignore
        GlobalFilter.identity_matched_filters = self._imf  # type: ignore
        E.Engine.setup_features_recursion = self._sfr  # type: ignore

    def observed(self, out: Dict[str, Any], accessible: Any, gidx: Dict[Any, int]) -> None:
        from harness import fgfactory as F

        obs = self.obs
        out["obs"] = {"inputs": obs.inputs, "scans": obs.scans, "matches": obs.matches}
        if self.filter_order is not None:
            out["filter_order"] = self.filter_order
        fwid = {v: FW_ID[k] for k, v in F.FW_SHORT.items() if k in FW_ID}
        picks = []
        if accessible is not None:
            out["acc"] = {str(gidx[g]): sorted(fwid[x] for x in s) for g, s in accessible.items() if g in gidx}
            for g, s in accessible.items():  # next(iter(frameworks)) of every accessible framework set (the very set objects the features get)
                if s:
                    picks.append([sorted(fwid[x] for x in s), fwid[next(iter(s))]])
        out["picks"] = picks


def _export_coll(eng: Any, gidx: Dict[Any, int]) -> List[Any]:
    return [[gidx[cls], _key_json(f), bool(f.initial_requested_data), str(f.uuid)] for cls, fs in eng.feature_group_collection.items() for f in set.__iter__(fs)]


def ch_probe(c: Dict[str, Any]) -> Dict[str, Any]:
    """one function-level case: the real Engine up to BuildGraph on world c["world"], request c["request"]"""
    from harness import fgfactory as F
    import mloda.core.core.engine as E
    from mloda.core.abstract_plugins.components.feature_collection import Features
    from mloda.core.prepare.graph.build_graph import BuildGraph

    world = c["world"]
    obs = _Obs()
    classes = build_classes(world, obs)
    gidx = {cls: i for i, cls in enumerate(classes)}

    class Probe(E.Engine):
        def create_setup_execution_plan(self, features: Any) -> Any:
            self.setup_features_recursion(features)
            gb = BuildGraph(self.feature_link_parents, self.feature_group_collection)
            gb.build_graph_from_feature_links()
            self.graph = gb.graph
            return None

    out: Dict[str, Any] = {}
    eng = None
    ins = Instr(world, classes, obs)
    gf = ins.gf
    req = [_mk_feature(t, classes) for t in c["request"]]
    with ins:
        try:
            feats = Features(list(req))
            for f, t in zip(feats, c["request"]):
                f.initial_requested_data = bool(t.get("r", True))
            eng = Probe(feats, {F.FW_SHORT[x] for x in world["fws"]}, ins.links, None, gf, None, F.collector(set(classes)))
        except BaseException as e:  # noqa
            out["err"] = _err_enum(e)
    acc = None
    try:
        from mloda.core.prepare.accessible_plugins import PreFilterPlugins

        acc = eng.accessible_plugins if eng is not None else PreFilterPlugins({F.FW_SHORT[x] for x in world["fws"]}, F.collector(set(classes))).get_accessible_plugins()
    except BaseException as e:  # noqa
        out["acc_err"] = str(e)[:100]
    ins.observed(out, acc, gidx)
    if eng is not None:
        out["coll"] = _export_coll(eng, gidx)
        out["group_order"] = [gidx[cls] for cls in eng.feature_group_collection.keys()]
        out["flp"] = [[str(k), sorted(str(x) for x in v)] for k, v in eng.feature_link_parents.items()]
        out["links"] = sorted(_link_json(l, gidx) for l in eng.links) if eng.links is not None else None
        out["nodes"] = [str(n) for n in eng.graph.nodes.keys()]
        out["edges"] = [[str(p), str(ch)] for (p, ch) in eng.graph.edges.keys()]
        if gf is not None:
            out["gfc"] = [
                [gidx[k[0]], enc(str(k[1])), sorted(json.dumps({**_key_json(sf.filter_feature), "tp": int(world["filters"][ins.uu[sf.uuid]]["tp"])}, sort_keys=True) for sf in v)]
                for k, v in gf.collection.items()
            ]
    return out


def ch_e2e(c: Dict[str, Any]) -> Dict[str, Any]:
    from harness import fgfactory as F
    from mloda.user import mloda

    world = c["world"]
    obs = _Obs()
    classes = build_classes(world, obs)
    gidx = {cls: i for i, cls in enumerate(classes)}
    ins = Instr(world, classes, obs)
    req = [_mk_feature(t, classes) for t in c["request"]]
    kwargs: Dict[str, Any] = dict(compute_frameworks={F.FW_SHORT[x] for x in world["fws"]}, plugin_collector=F.collector(set(classes)))
    if ins.links is not None:
        kwargs["links"] = ins.links
    if ins.gf is not None:
        kwargs["global_filter"] = ins.gf
    out: Dict[str, Any] = {}
    session = None
    with ins:
        try:
            session = mloda.prepare(req, **kwargs)
        except BaseException as e:  # noqa
            out.update({"stage": "prepare", "err": _err_enum(e)})
    acc = None
    try:
        from mloda.core.prepare.accessible_plugins import PreFilterPlugins

        acc = session.engine.accessible_plugins if session is not None else PreFilterPlugins({F.FW_SHORT[x] for x in world["fws"]}, F.collector(set(classes))).get_accessible_plugins()
    except BaseException:  # noqa
        pass
    ins.observed(out, acc, gidx)
    if session is None:
        return out
    out["coll"] = _export_coll(session.engine, gidx)
    try:
        res = session.run()
        out["tables"] = [F.columns_of(r) for r in res]
    except BaseException as e:  # noqa
        out["stage"] = "run"
        out["err"] = "other:" + type(e).__name__ + ":" + str(e)[-160:]
    return out


def ch_chain(c: Dict[str, Any]) -> Dict[str, Any]:
    """a group whose `input_features(name)` is `{Feature(name + 'q')}`: the real recursion has no bound"""
    from harness import fgfactory as F
    from mloda.core.abstract_plugins.feature_group import FeatureGroup
    from mloda.core.abstract_plugins.components.feature import Feature
    from mloda.core.abstract_plugins.components.feature_collection import Features
    import mloda.core.core.engine as E

    def input_features(self: Any, options: Any, feature_name: Any) -> Any:
        return {Feature(str(feature_name) + "q")}

    cls = type(F.uniq("E03chain_"), (FeatureGroup,), {
        "__module__": F.MODNAME, "input_features": input_features,
        "match_feature_group_criteria": classmethod(lambda cls, n, o, d=None: str(n).startswith("q")),
        "compute_framework_rule": classmethod(lambda cls: {F.PyArrowTable}),
        "calculate_feature": classmethod(lambda cls, data, features: data)})  # fmt: skip
    setattr(F.DYN, cls.__name__, cls)
    try:
        E.Engine(Features(["q"]), {F.PyArrowTable}, None, None, None, None, F.collector({cls}))
        return {"ok": True}
    except BaseException as e:  # noqa
        return {"err": _err_enum(e)}


CHILD = {"probe": ch_probe, "e2e": ch_e2e, "chain": ch_chain}


def child_main() -> None:
    import logging

    logging.disable(logging.CRITICAL)
    batch = json.load(sys.stdin)
    outs = []
    for c in batch["cases"]:
        try:
            o = CHILD[c["kind"]](c)
        except BaseException:
            o = {"crash": traceback.format_exc()[-1200:]}
        o["seed"] = os.environ.get("PYTHONHASHSEED")
        outs.append(o)
    sys.stdout.write("\n" + MARK + json.dumps(outs) + "\n")
    sys.stdout.flush()


def run_children(batches: Dict[int, List[Dict[str, Any]]], workers: int) -> Dict[int, List[Dict[str, Any]]]:
    from harness.core import env_for_subprocess, VERIF

    def one(seed: int) -> Tuple[int, List[Dict[str, Any]]]:
        if not batches[seed]:
            return seed, []
        env = env_for_subprocess()
        env["PYTHONHASHSEED"] = str(seed)
        p = subprocess.run(["/venv/bin/python", "-m", "harness.corr.c03_engine", "--child"], input=json.dumps({"cases": batches[seed]}), cwd=str(VERIF), env=env,
                           stdout=subprocess.PIPE, stderr=subprocess.PIPE, text=True, timeout=1500)  # fmt: skip
        if MARK not in p.stdout:
            raise RuntimeError(f"C03_engine child (seed {seed}) produced no result rc={p.returncode}\n{p.stderr[-1500:]}")
        return seed, json.loads(p.stdout.split(MARK, 1)[1])

    with ThreadPoolExecutor(max_workers=workers) as ex:
        return dict(ex.map(one, sorted(batches)))


# ======================================================================================
# parent side: generators
# ======================================================================================

ROOT_COLS = ["a", "b", "c", "d", "e", "f", "g", "h", "l", "r"]
IDX_COLS = ["k", "j", "i", "m", "n", "p"]
DER_NAMES = ["z", "w", "v", "u", "t", "s", "y", "x"]
OKEYS = ["o1", "o2", "o3"]
CKEYS = ["o3", "o4"]


def _opt(rng: Any, p: float, keys: List[str], avoid: Any = ()) -> Dict[str, int]:
    """a small options dictionary (never sharing a key with `avoid`: Options rejects a key in both group and context)"""
    keys = [k for k in keys if k not in avoid]
    if rng.random() >= p or not keys:
        return {}
    return {k: rng.randint(1, 2) for k in rng.sample(keys, rng.randint(1, min(2, len(keys))))}


def gen_world(rng: Any, rich: bool = True) -> Dict[str, Any]:
    """rich=False: no options / contexts / explicit frameworks (an executable world for the end-to-end suite)"""
    engine_fws = rng.choice([["pa"], ["pa"], ["pa"], ["pa", "pd"], ["pd"], ["pa", "pd", "py"]]) if rich else ["pa"]
    groups: List[Dict[str, Any]] = []
    cols = list(ROOT_COLS)
    rng.shuffle(cols)
    idxn = list(IDX_COLS)
    dern = list(DER_NAMES)
    rng.shuffle(dern)
    dmode = rng.choice(["none", "none", "none", "all", "mixed", "mixed"])  # which groups have a non-default domain
    names: List[Tuple[str, int]] = []  # (name, group)
    family: Dict[str, int] = {}  # name -> root group it is (transitively) computed from (executable worlds keep families apart: no joins needed)
    for _ in range(rng.randint(1, 3)):
        gi = len(groups)
        mine = [cols.pop() for _ in range(rng.randint(1, 3))]
        index = None
        r = rng.random()
        if r < 0.55:
            k1 = idxn.pop(0)
            index = [[k1]]
            mine.append(k1)
            if rich and rng.random() < 0.25:
                k2 = idxn.pop(0)
                mine.append(k2)
                index = rng.choice([[[k1, k2]], [[k1], [k2]], [[k1], [k1, k2]]])
        elif rich and r < 0.6:
            index = []
        g: Dict[str, Any] = {"kind": "root", "cols": mine, "index": index, "dom": None, "fws": list(engine_fws), "types": {}}
        if dmode == "all" or (dmode == "mixed" and rng.random() < 0.4):
            g["dom"] = "D1" if dmode == "all" else rng.choice(["D1", "D2"])
        if rich and rng.random() < 0.1:
            g["fws"] = sorted(set(rng.sample(FWS, rng.randint(1, 2))) | ({rng.choice(engine_fws)} if rng.random() < 0.7 else set()), key=FWS.index)
        if rng.random() < 0.25:
            if rich:
                g["types"] = {c: rng.choice(DT[:3]) for c in mine if rng.random() < 0.6}
            else:  # executable worlds: one declared type per group (differently typed features of one group are planned as separate steps that need a join)
                tt = rng.choice(DT[:3])
                g["types"] = {c: tt for c in mine}
        if rich and groups and rng.random() < 0.12:  # a column name two root groups offer (resolution: domain / framework / links decide, else "Multiple feature groups")
            mine.append(rng.choice([c for c in groups[-1]["cols"]]))
        groups.append(g)
        names += [(c, gi) for c in mine]
        for c in mine:
            family.setdefault(c, gi)
    for _ in range(rng.randint(0 if rich else 1, 3)):
        gi = len(groups)
        table: Dict[str, List[Dict[str, Any]]] = {}
        mine = [dern.pop() for _ in range(rng.randint(1, 2))]
        fam = rng.choice(sorted(set(family.values())))
        for n in mine:
            tmpls = []
            pool = [x[0] for x in names] if rich else [x[0] for x in names if family[x[0]] == fam]
            if rich and rng.random() < 0.12:
                pool = pool + mine  # self / sibling dependencies (cycles)
            for pn in rng.sample(pool, min(len(pool), rng.randint(1, 3))):
                t: Dict[str, Any] = {"n": pn, "g": {}, "c": {}, "d": None, "f": None, "t": None, "pass": False, "l": None}
                if rich:
                    t["g"] = _opt(rng, 0.3, OKEYS)
                    t["c"] = _opt(rng, 0.12, CKEYS, t["g"])
                    if rng.random() < 0.3:
                        t["pass"] = True
                        t["g"], t["c"] = {}, {}
                    if rng.random() < 0.08:
                        t["f"] = rng.choice(engine_fws + ["pd"])
                    if rng.random() < 0.05:
                        t["n"] = pn + "~1"
                own = [groups[g2].get("dom") for x, g2 in names if x == pn]
                if own and own[0] and rng.random() < 0.3:
                    t["d"] = own[0]
                elif rng.random() < (0.04 if dmode != "none" else 0.01):
                    t["d"] = rng.choice(["D1", "D2"])
                if rng.random() < 0.1:
                    t["t"] = rng.choice(DT[:3])
                tmpls.append(t)
            table[n] = tmpls if not (rich and rng.random() < 0.04) else []  # an empty input set: the feature is treated as a root
        g = {"kind": "derived", "cols": mine, "derived": table, "index": None, "dom": None, "fws": list(engine_fws), "types": {}}
        if dmode == "all" or (dmode == "mixed" and rng.random() < 0.25):
            g["dom"] = "D1" if dmode == "all" else rng.choice(["D1", "D2"])
        if rng.random() < 0.15:
            g["types"] = {c: rng.choice(DT[:3]) for c in mine}
        groups.append(g)
        names += [(c, gi) for c in mine]
        for c in mine:
            family[c] = fam
    indexed = [gi for gi, g in enumerate(groups) if g.get("index")]
    links: Optional[List[List[Any]]] = None
    if len(indexed) >= 2 and rng.random() < 0.75:
        links = []
        order = list(indexed)
        rng.shuffle(order)
        for a, b in zip(order, order[1:]):
            links.append([rng.choice(JT) if rich else "inner", a, rng.choice(groups[a]["index"]), b, rng.choice(groups[b]["index"])])
    elif indexed and rich and rng.random() < 0.05:
        links = []
    elif indexed and rich and rng.random() < 0.1:
        a = rng.choice(indexed)  # a link whose other side is a group without index columns
        others = [gi for gi in range(len(groups)) if gi != a]
        if others:
            links = [["inner", a, rng.choice(groups[a]["index"]), rng.choice(others), ["q"]]]
    filters: Optional[List[Dict[str, Any]]] = None
    if rng.random() < 0.5:
        filters = []
        rootcols = [n for n, gi in names if groups[gi]["kind"] == "root"]
        pool = rootcols if (not rich or rng.random() < 0.85) else [n for n, _ in names]
        for i, cn in enumerate(rng.sample(pool, min(len(pool), rng.randint(1, 2)))):
            fl: Dict[str, Any] = {"n": cn, "g": {}, "c": {}, "d": None, "f": None, "t": None, "ftype": rng.choice(["min", "max"]), "param": {"value": rng.randint(0, 1)}}
            if rich:
                fl["g"] = _opt(rng, 0.2, OKEYS)
                if rng.random() < 0.08:
                    fl["f"] = rng.choice(engine_fws)
            if rng.random() < (0.2 if dmode != "none" else 0.04):
                fl["d"] = rng.choice(["D1", "D2"])
            filters.append(fl)
        if rich and filters and rng.random() < 0.2:  # a second filter on the same column (same feature, other type / parameter)
            fl2 = dict(filters[0])
            fl2["ftype"], fl2["param"] = "equal", {"value": 1}
            filters.append(fl2)
        tps: Dict[str, int] = {}
        for fl in filters:
            fl["tp"] = tps.setdefault(json.dumps([fl["ftype"], fl["param"]], sort_keys=True), len(tps))
    soft = {gi: rng.choice(DT[:3]) for gi in range(len(groups))}  # executable worlds: the one data type features of a group may declare
    if not rich:
        for gi, g in enumerate(groups):
            if g.get("types"):
                soft[gi] = next(iter(g["types"].values()))
        for g in groups:
            if g["kind"] == "derived":
                for ts in g["derived"].values():
                    for t in ts:
                        if t.get("t"):
                            t["t"] = soft[[g2 for x, g2 in names if x == t["n"]][0]]
    return {"fws": engine_fws, "groups": groups, "links": links, "filters": filters, "names": names, "rich": rich, "dmode": dmode, "soft": {str(k): v for k, v in soft.items()}}


def gen_join_world(rng: Any) -> Dict[str, Any]:
    """two indexed root groups and a derived feature over both (needs the link); the link comes as `links=` or through a request feature"""
    cols = list(ROOT_COLS)
    rng.shuffle(cols)
    a = {"kind": "root", "cols": [cols.pop(), "k"], "index": [["k"]], "dom": None, "fws": ["pa"], "types": {}}
    b = {"kind": "root", "cols": [cols.pop(), "j"], "index": [["j"]], "dom": None, "fws": ["pa"], "types": {}}
    tm = lambda n: {"n": n, "g": {}, "c": {}, "d": None, "f": None, "t": None, "pass": False, "l": None}  # noqa: E731
    d = {"kind": "derived", "cols": ["s"], "derived": {"s": [tm(a["cols"][0]), tm(b["cols"][0])]}, "index": None, "dom": None, "fws": ["pa"], "types": {}}
    mode = rng.choice(["param", "feature", "feature"])
    link = ["inner", 0, ["k"], 1, ["j"]]
    names = [(c, 0) for c in a["cols"]] + [(c, 1) for c in b["cols"]] + [("s", 2)]
    return {"fws": ["pa"], "groups": [a, b, d], "links": [link] if mode == "param" else None, "filters": None, "names": names, "rich": False, "dmode": "none",
            "soft": {"0": "INT64", "1": "INT64", "2": "INT64"}, "join": {"mode": mode, "link": link}}  # fmt: skip


def gen_join_request(rng: Any, world: Dict[str, Any]) -> List[Dict[str, Any]]:
    pool = [world["groups"][0]["cols"][0], world["groups"][1]["cols"][0], "k", "j"]
    ns = ["s"] + rng.sample(pool, rng.randint(1, 2))
    rng.shuffle(ns)
    req = [{"n": n, "g": {}, "c": {}, "d": None, "f": None, "t": None, "l": None, "r": True} for n in ns]
    if world["join"]["mode"] == "feature":
        rng.choice(req)["l"] = world["join"]["link"]
    return req


def gen_request(rng: Any, world: Dict[str, Any]) -> List[Dict[str, Any]]:
    if world.get("join"):
        return gen_join_request(rng, world)
    names = world["names"]
    rich = world["rich"]
    groups = world["groups"]
    aux = [fl["n"] for fl in (world["filters"] or [])]
    for l in world["links"] or []:
        aux += [l[2][0], l[4][0]]
    aux = [n for n in aux if any(n == x for x, _ in names)]
    req: List[Dict[str, Any]] = []
    distinct = rng.random() < 0.92
    for _ in range(rng.randint(1, 4)):
        r = rng.random()
        if aux and r < 0.3:
            n = rng.choice(aux)
        elif r < 0.6:
            der = [x for x, gi in names if groups[gi]["kind"] == "derived"]
            n = rng.choice(der) if der else rng.choice(names)[0]
        else:
            n = rng.choice(names)[0]
        if distinct and any(x["n"] == n for x in req):
            continue
        t: Dict[str, Any] = {"n": n, "g": {}, "c": {}, "d": None, "f": None, "t": None, "l": None, "r": True}
        if rich:
            t["g"] = _opt(rng, 0.25, OKEYS)
            t["c"] = _opt(rng, 0.1, CKEYS, t["g"])
            if rng.random() < 0.05:
                t["f"] = rng.choice(world["fws"] + world["fws"] + ["pd"])
            if rng.random() < 0.04:
                t["n"] = n + "~1"
            if rng.random() < 0.015:
                t["n"] = "zz"
            if rng.random() < 0.04:
                t["r"] = False
            if world["links"] is None and rng.random() < 0.05:
                idx = [gi for gi, g in enumerate(groups) if g.get("index")]
                if len(idx) >= 2:
                    t["l"] = ["inner", idx[0], groups[idx[0]]["index"][0], idx[1], groups[idx[1]]["index"][0]]
        own = [groups[g2].get("dom") for x, g2 in names if x == n]
        if own and own[0] and rng.random() < 0.3:
            t["d"] = own[0]
        elif rng.random() < (0.04 if world.get("dmode") != "none" else 0.01):
            t["d"] = rng.choice(["D1", "D2"])
        if rng.random() < 0.1:
            t["t"] = rng.choice(DT[:3]) if rich else world["soft"][str([g2 for x, g2 in names if x == n][0])]
        req.append(t)
    if rich and rng.random() < 0.03 and req:
        req.append(dict(req[0]))
    return req


# ======================================================================================
# parent side: model request, canonical forms
# ======================================================================================


def m_key(t: Dict[str, Any], child: Any = None) -> Dict[str, Any]:
    return {"n": enc(t["n"]), "g": jopts(t.get("g") or {}), "c": jopts(t.get("c") or {}), "d": DOMS[t["d"]] if t.get("d") else None,
            "f": [FW_ID[t["f"]]] if t.get("f") else None, "t": DT.index(t["t"]) + 1 if t.get("t") else None, "ch": child}  # fmt: skip


def m_link(l: List[Any]) -> List[Any]:
    jt, a, ia, b, ib = l
    return [JT.index(jt), a, [enc(x) for x in ia], b, [enc(x) for x in ib]]


def m_feat(t: Dict[str, Any], uuid: int = 0, req: bool = False) -> Dict[str, Any]:
    return {**m_key(t), "r": req, "u": uuid, "l": m_link(t["l"]) if t.get("l") else None}


def model_world(world: Dict[str, Any], o: Dict[str, Any]) -> Dict[str, Any]:
    """the table world of the driver: the spec + the iteration orders observed in the real run `o`"""
    obs = o.get("obs") or {"inputs": {}, "scans": [], "matches": []}
    groups = []
    for gi, g in enumerate(world["groups"]):
        acc = sorted(FW_ID[x] for x in g["fws"] if x in world["fws"])
        orders = []
        for k, order in obs["inputs"].items():
            ggi, base, ok = k.split("|", 2)
            if int(ggi) == gi:
                og, oc = json.loads(ok)
                orders.append([enc(base), og, oc, order])
        groups.append({
            "criteria": [enc(c) for c in g["cols"]], "supported": [enc(c) for c in g["cols"]], "dom": DOMS[g["dom"]] if g.get("dom") else 0, "cfws": acc,
            "index": [[enc(x) for x in ix] for ix in g["index"]] if g.get("index") is not None else None,
            "types": [[enc(n), DT.index(t) + 1] for n, t in (g.get("types") or {}).items()],
            "inputs": [[enc(n), [{**m_feat(t), "pass": bool(t.get("pass"))} for t in ts]] for n, ts in g["derived"].items()] if g["kind"] == "derived" else None,
            "orders": orders,
        })  # fmt: skip
    filters = None
    if world.get("filters") is not None:
        order = o.get("filter_order")
        if order is None:
            order = list(range(len(world["filters"])))
        filters = [{**m_key(world["filters"][i]), "tp": world["filters"][i]["tp"]} for i in order]
    return {"groups": groups, "filters": filters, "picks": o.get("picks") or [], "scans": obs["scans"], "matches": obs["matches"]}


def model_req(world: Dict[str, Any], request: List[Dict[str, Any]], o: Dict[str, Any], fuel: int = 80) -> Dict[str, Any]:
    return {"op": "C03_engine.run", "fuel": fuel, "links": [m_link(l) for l in world["links"]] if world.get("links") is not None else None,
            "request": [m_feat(t, i, bool(t.get("r", True))) for i, t in enumerate(request)], "world": model_world(world, o)}  # fmt: skip


def _kstr(k: Dict[str, Any]) -> str:
    return json.dumps({x: k.get(x) for x in ("n", "g", "c", "d", "f", "t", "ch")}, sort_keys=True)


def canon(coll: List[List[Any]], flp: List[List[Any]], nodes: List[Any], edges: List[List[Any]], links: Any, gfc: Any) -> Dict[str, Any]:
    """canonical form of one collection state: uuids renamed to the position of their entry in the (group, key)-sorted collection"""
    ents = sorted(((e[0], _kstr(e[1]), bool(e[2]), str(e[3])) for e in coll), key=lambda t: (t[0], t[1]))
    ren = {u: i for i, (_, _, _, u) in enumerate(ents)}
    r = lambda u: ren.get(str(u), "?" + str(u))  # noqa: E731
    return {
        "coll": [[g, k, q, ren[u]] for g, k, q, u in ents],
        "dup_keys": len({(g, k) for g, k, _, _ in ents}) != len(ents),
        "flp": [[r(k), sorted((r(x) for x in v), key=str)] for k, v in flp],
        "nodes": sorted((r(n) for n in nodes), key=str),
        "edges": sorted(([r(p), r(c)] for p, c in edges), key=str),
        "links": sorted(links, key=lambda l: json.dumps(l)) if links is not None else None,
        "gfc": sorted(([g, n, sorted(v)] for g, n, v in gfc), key=lambda t: json.dumps(t[:2])) if gfc is not None else None,
    }


def canon_impl(o: Dict[str, Any]) -> Dict[str, Any]:
    return canon(o["coll"], o["flp"], o["nodes"], o["edges"], o["links"], o.get("gfc"))


def canon_model(m: Dict[str, Any], has_gf: bool) -> Dict[str, Any]:
    coll = [[e[0], e[1], e[1]["r"], e[1]["u"]] for e in m["coll"]]
    gfc = [[g, n, sorted(json.dumps({x: v.get(x) for x in ("n", "g", "c", "d", "f", "t", "ch", "tp")}, sort_keys=True) for v in vs)] for g, n, vs in m["gfc"]] if has_gf else None
    return canon(coll, m["flp"], m["nodes"], m["edges"], m["links"], gfc)


# ======================================================================================
# the oracle of the end-to-end suite (text of C03)
# ======================================================================================


def world_facts(world: Dict[str, Any]) -> Dict[str, Any]:
    owner: Dict[str, int] = {}
    for n, gi in world["names"]:
        owner.setdefault(n, gi)
    parents: Dict[str, List[str]] = {}
    for g in world["groups"]:
        if g["kind"] == "derived":
            for n, ts in g["derived"].items():
                parents[n] = [t["n"].split("~")[0] for t in ts]
    aux: Dict[int, List[str]] = {gi: [] for gi in range(len(world["groups"]))}
    for l in (world["links"] or []) + ([world["join"]["link"]] if world.get("join") else []):
        for gi, ix in ((l[1], l[2]), (l[3], l[4])):
            if world["groups"][gi].get("index") and ix in world["groups"][gi]["index"]:
                aux[gi].append(ix[0])
    for fl in world["filters"] or []:
        for gi, g in enumerate(world["groups"]):
            if fl["n"] in g["cols"]:
                aux[gi].append(fl["n"])

    def touched(n: str, seen: Optional[set] = None) -> set:
        seen = seen if seen is not None else set()
        if n in seen or n not in owner:
            return set()
        seen.add(n)
        out = {owner[n]}
        for pn in parents.get(n, []):
            out |= touched(pn, seen)
        return out

    return {"owner": owner, "parents": parents, "aux": aux, "touched": touched}


def aux_predicate(world: Dict[str, Any], facts: Dict[str, Any], request: List[Dict[str, Any]]) -> List[str]:
    """requested features that are a filter / linked-index feature of their group and are preceded in the request by a feature that
    makes the engine touch that group (input class of F-C03-aux-shadows-request)"""
    hit = []
    for i, t in enumerate(request):
        n = t["n"]
        if n not in facts["owner"]:
            continue
        g = facts["owner"][n]
        if n in facts["aux"][g] and any(g in facts["touched"](t2["n"]) for t2 in request[:i]):
            hit.append(n)
    return hit


def flink_predicate(world: Dict[str, Any], facts: Dict[str, Any], request: List[Dict[str, Any]]) -> bool:
    """a request feature carries a `link`, and an EARLIER feature of the request makes the engine touch one of the two linked groups
    (that group's index feature is then only added if the group is touched again later)"""
    for i, t in enumerate(request):
        if t.get("l"):
            linked = {t["l"][1], t["l"][3]}
            if any(linked & facts["touched"](t2["n"].split("~")[0]) for t2 in request[:i]):
                return True
    return False


def fdom_predicate(world: Dict[str, Any], facts: Dict[str, Any], request: List[Dict[str, Any]]) -> bool:
    """a filter feature with a domain whose name a group of ANOTHER domain matches, and the request touches that group with a feature
    that has no domain of its own (GlobalFilter.domain then evaluates Domain == None)"""
    for fl in world["filters"] or []:
        if not fl.get("d"):
            continue
        for gi, g in enumerate(world["groups"]):
            if fl["n"] in g["cols"] and (g.get("dom") or "default_domain") != fl["d"]:
                if any(gi in facts["touched"](t["n"]) for t in request):
                    return True
    return False


# ======================================================================================
# run
# ======================================================================================


def _sub_rng(ctx: Any, name: str) -> Any:
    import random

    return random.Random(f"C03_engine:{name}:{ctx.seed}:{ctx.tier}")


def _tm(n: str, d: Optional[str] = None) -> Dict[str, Any]:
    return {"n": n, "g": {}, "c": {}, "d": d, "f": None, "t": None, "pass": False, "l": None}


def _root(cols: List[str], index: Any = None, dom: Optional[str] = None) -> Dict[str, Any]:
    return {"kind": "root", "cols": cols, "index": index, "dom": dom, "fws": ["pa"], "types": {}}


def _der(table: Dict[str, List[Dict[str, Any]]]) -> Dict[str, Any]:
    return {"kind": "derived", "cols": list(table), "derived": table, "index": None, "dom": None, "fws": ["pa"], "types": {}}


def _flt(n: str, d: Optional[str] = None) -> Dict[str, Any]:
    return {"n": n, "g": {}, "c": {}, "d": d, "f": None, "t": None, "ftype": "min", "param": {"value": 0}, "tp": 0}


def _w(groups: List[Dict[str, Any]], links: Any = None, filters: Any = None) -> Dict[str, Any]:
    names = [[c, gi] for gi, g in enumerate(groups) for c in g["cols"]]
    return {"fws": ["pa"], "rich": False, "names": names, "groups": groups, "links": links, "filters": filters}


_AUXW = _w([_root(["x", "k"], [["k"]]), _root(["y", "j"], [["j"]])], links=[["inner", 0, ["k"], 1, ["j"]]])
_AUXW_NOLINK = _w([_root(["x", "k"], [["k"]]), _root(["y", "j"], [["j"]])])
_LNK = ["inner", 0, ["k"], 1, ["j"]]
# the closed witnesses of Props/C03_engine.lean, replayed on the real Engine: (theorem, world, request, expected)
# expected "names": the collected (group, name, flag) triples as a set; "err": the exception class; "edges": number of graph edges
WITNESSES: List[Tuple[str, Dict[str, Any], List[Dict[str, Any]], Dict[str, Any]]] = [
    ("C03.engine_aux_shadows_request_witness", _AUXW, [{"n": "x"}, {"n": "k"}], {"names": [[0, "x", True], [0, "k", False]]}),
    ("C03.engine_aux_shadows_request_witness", _AUXW, [{"n": "k"}, {"n": "x"}], {"names": [[0, "k", True], [0, "x", True]]}),
    ("C03.engine_closure_complete_witness", _w([_der({"z": [], "a": [_tm("r")]}), _root(["r"])], filters=[_flt("a")]), [{"n": "z"}, {"n": "a"}],
     {"names": [[0, "z", True], [0, "a", False]]}),
    ("C03.engine_closure_complete_witness", _w([_der({"z": [], "a": [_tm("r")]}), _root(["r"])], filters=[_flt("a")]), [{"n": "a"}, {"n": "z"}],
     {"names": [[0, "a", True], [1, "r", False], [0, "z", True]]}),
    ("C03.engine_feature_link_order_witness", _AUXW_NOLINK, [{"n": "x"}, {"n": "y", "l": _LNK}], {"names": [[0, "x", True], [1, "y", True], [1, "j", False]]}),
    ("C03.engine_feature_link_order_witness", _AUXW_NOLINK, [{"n": "y", "l": _LNK}, {"n": "x"}],
     {"names": [[1, "y", True], [1, "j", False], [0, "x", True], [0, "k", False]]}),
    ("C03.engine_filter_domain_raises_witness", _w([_root(["a", "b"])], filters=[_flt("a", "D1")]), [{"n": "b"}], {"err": "domainCompare"}),
    ("C03.engine_aux_edge_witness", _w([_root(["a", "b"]), _der({"z": [_tm("a"), _tm("b")]})], filters=[_flt("a")]), [{"n": "z"}],
     {"names": [[1, "z", True], [0, "a", False], [0, "a", False], [0, "b", False]], "edges": 3}),
    ("C03.engine_self_dependency_terminates_witness", _w([_der({"z": [_tm("z")]})]), [{"n": "z"}], {"names": [[0, "z", True], [0, "z", False]], "edges": 2}),
    ("C03.engine_edges (diamond example)", _w([_root(["a", "b"]), _der({"z": [_tm("a"), _tm("b")], "w": [_tm("z"), _tm("a")]})]), [{"n": "w"}],
     {"names": [[1, "w", True], [1, "z", False], [0, "a", False], [0, "b", False]], "edges": 4}),
]  # fmt: skip
# C03.engine_scan_order_dependent_witness: which of the two outcomes the real engine shows depends on the hash seed (every seed is run)
WITNESS_DMIX = (_w([_root(["a"], dom="D1"), _der({"c1": [_tm("a")]}), _der({"c2": [_tm("a", "D1")]}), _der({"c3": [_tm("a")]})]),
                [{"n": "c1"}, {"n": "c2"}, {"n": "c3"}])  # fmt: skip


def _plain(t: Dict[str, Any]) -> Dict[str, Any]:
    return {"n": t["n"], "g": t.get("g") or {}, "c": t.get("c") or {}, "d": t.get("d"), "f": t.get("f"), "t": t.get("t"), "l": t.get("l"), "r": t.get("r", True)}


def run(ctx: Any) -> None:
    _run(ctx, ctx.budget(2500, 40000), ctx.budget(500, 6000))


def _run(ctx: Any, n_fn: int, n_e2e: int) -> None:
    rng = _sub_rng(ctx, "gen")
    seeds = list(range(ctx.budget(4, 8)))
    batches: Dict[int, List[Dict[str, Any]]] = {s: [] for s in seeds}
    meta: Dict[int, List[Dict[str, Any]]] = {s: [] for s in seeds}

    def ship(seed: int, case: Dict[str, Any], m: Dict[str, Any]) -> None:
        batches[seed].append(case)
        meta[seed].append(m)

    # ---- function level: world x request x hash seed (the same case under two seeds now and then) ------------------
    nw = 0
    while nw < n_fn:
        world = gen_world(rng)
        for _ in range(rng.randint(1, 4)):
            request = [_plain(t) for t in gen_request(rng, world)]
            if rng.random() < 0.3 and len(request) >= 2:  # the same request in another order, too
                other = list(request)
                rng.shuffle(other)
                variants = [request, other]
            else:
                variants = [request]
            for rq in variants:
                for seed in rng.sample(seeds, 2 if rng.random() < 0.25 else 1):
                    ship(seed, {"kind": "probe", "world": world, "request": rq}, {"suite": "engine_fn"})
                    nw += 1
    # ---- closed witnesses replayed on the real engine -----------------------------------------------------------
    for thm, ww, rq, expect in WITNESSES:
        ship(seeds[len(thm) % len(seeds)], {"kind": "probe", "world": ww, "request": [_plain(t) for t in rq]}, {"suite": "engine_witness", "what": thm, "expect": expect})
    for sd in seeds:
        ship(sd, {"kind": "probe", "world": WITNESS_DMIX[0], "request": [_plain(t) for t in WITNESS_DMIX[1]]},
             {"suite": "engine_witness", "what": "C03.engine_scan_order_dependent_witness", "expect": {"either": True}})
    ship(seeds[0], {"kind": "chain"}, {"suite": "engine_witness", "what": "chain"})
    # ---- end to end ------------------------------------------------------------------------------------------------
    ne = 0
    while ne < n_e2e:
        world = gen_world(rng, rich=False) if rng.random() < 0.85 else gen_join_world(rng)
        for _ in range(rng.randint(1, 3)):
            request = [_plain(t) for t in gen_request(rng, world)]
            if len({t["n"] for t in request}) != len(request):
                continue
            perms = [request]
            if len(request) >= 2:
                other = list(request)
                rng.shuffle(other)
                if other != request:
                    perms.append(other)
            for rq in perms:
                ship(rng.choice(seeds), {"kind": "e2e", "world": world, "request": rq}, {"suite": "engine_e2e"})
                ne += 1

    results = run_children(batches, workers=min(len(seeds), 8))

    # ---- the model on every function-level case --------------------------------------------------------------------
    reqs: List[Dict[str, Any]] = []
    slots: List[Tuple[int, int]] = []
    for s in seeds:
        for i, (c, o) in enumerate(zip(batches[s], results[s])):
            if "crash" in o:
                raise RuntimeError("C03_engine child crashed on " + json.dumps(c)[:400] + "\n" + o["crash"])
            if c["kind"] == "probe":
                reqs.append(model_req(c["world"], c["request"], o))
                slots.append((s, i))
            elif c["kind"] == "e2e":
                reqs.append(model_req(c["world"], c["request"], o))
                slots.append((s, i))
    reqs.append({"op": "C03_engine.chain", "fuel": 400})
    outs = []
    for i0 in range(0, len(reqs), 4000):  # one driver process per 4000 requests
        outs += ctx.driver("C03_engine").batch(reqs[i0 : i0 + 4000])
    chain_model = outs[-1]
    model = {sl: m for sl, m in zip(slots, outs)}

    order_groups: Dict[str, List[Any]] = {}
    for s in seeds:
        for i, (c, o, mt) in enumerate(zip(batches[s], results[s], meta[s])):
            suite = mt["suite"]
            if c["kind"] == "chain":
                ctx.case(suite, "chain", True, witness="chain")
                if o.get("err") != "fuel" or chain_model.get("err") != "fuel":
                    ctx.disagree(suite, "unbounded chain q -> qq -> qqq ...", o, chain_model)
                continue
            world, request = c["world"], c["request"]
            m = model[(s, i)]
            case = {"world": world, "request": request, "seed": o.get("seed")}
            if c["kind"] == "probe":
                compare_probe(ctx, suite, case, o, m, mt)
                if suite == "engine_fn" and "coll" in o and all(t.get("r", True) for t in request):  # what mlodaAPI hands over: every request feature flagged
                    # `next(iter(frameworks))` (the framework an index feature gets) depends on the addresses of the framework classes: compare runs that saw the same picks
                    key = json.dumps([world, sorted(json.dumps(t, sort_keys=True) for t in request), o.get("picks")], sort_keys=True)
                    order_groups.setdefault(key, []).append((case, o))
            else:
                judge_e2e(ctx, suite, case, o, m)
    judge_order(ctx, order_groups)


def err_eq(impl: Optional[str], model: Optional[str]) -> bool:
    """the model tells the three raise sites of "Cannot compare Domain" apart; the real exception does not"""
    if model in ("domainScan", "domainFilter"):
        model = "domainCompare"
    return impl == model


def compare_probe(ctx: Any, suite: str, case: Dict[str, Any], o: Dict[str, Any], m: Dict[str, Any], mt: Dict[str, Any]) -> None:
    world, request = case["world"], case["request"]
    # cross-check of the harness' own reading of the spec (accessible frameworks)
    if "acc" in o:
        for gi, g in enumerate(world["groups"]):
            mine = sorted(FW_ID[x] for x in g["fws"] if x in world["fws"])
            if o["acc"].get(str(gi)) != mine:
                raise RuntimeError(f"harness: accessible frameworks of group {gi}: {o['acc'].get(str(gi))} vs {mine}")
    if "err" in o:
        ctx.case(suite, case, False, outcome=o["err"].split(":")[0], nreq=len(request))
        if o["err"].startswith("other:"):
            ctx.violation(suite, case, f"the engine raised {o['err']} (neither a collection nor a ValueError about the request)", o["err"], "collection or ValueError")
        if not err_eq(o["err"], m.get("err")):
            ctx.disagree(suite, case, {"err": o["err"]}, m if "err" in m else {"ok": "model succeeded"})
        check_witness(ctx, suite, case, o, mt)
        return
    ci = canon_impl(o)
    n = len(ci["coll"])
    ctx.case(suite, case, n >= 3, outcome="ok", nreq=len(request), entries=min(n, 12), filters=world["filters"] is not None, links=world["links"] is not None,
             scans=min(len(o["obs"]["scans"]), 5), fws=len(world["fws"]))  # fmt: skip
    # oracles on the real collection first (they do not depend on the model)
    if ci["dup_keys"]:
        ctx.violation(suite, case, "feature_group_collection holds two == features of one group", ci["coll"], "no duplicates")
    oracle_probe(ctx, suite, case, o)
    if "ok" not in m:
        ctx.disagree(suite, case, ci, m)
        check_witness(ctx, suite, case, o, mt)
        return
    cm = canon_model(m["ok"], world["filters"] is not None)
    if ci != cm:
        diff = {k: {"impl": ci[k], "model": cm[k]} for k in ci if ci[k] != cm[k]}
        ctx.disagree(suite, case, diff, "see impl/model per field")
    if m["ok"]["nscan"] != len(o["obs"]["scans"]) or (world["filters"] is not None and m["ok"]["nmatch"] != len(o["obs"]["matches"])):
        ctx.disagree(suite, case, {"scans": len(o["obs"]["scans"]), "matches": len(o["obs"]["matches"])}, {"nscan": m["ok"]["nscan"], "nmatch": m["ok"]["nmatch"]})
    # group order of the dict = order of first insertion
    first = []
    for e in m["ok"]["coll"]:
        if e[0] not in first:
            first.append(e[0])
    if first != o["group_order"]:
        ctx.disagree(suite, case, {"group_order": o["group_order"]}, {"group_order": first})
    check_witness(ctx, suite, case, o, mt)


def oracle_probe(ctx: Any, suite: str, case: Dict[str, Any], o: Dict[str, Any]) -> None:
    """properties of the REAL collection / parent sets, written from the property texts (C03: what counts as requested; C01: closure and
    edges; auxiliary features only where a link / filter asks for them) - independent of the Lean model"""
    world, request = case["world"], case["request"]
    if not all(t.get("r", True) for t in request):
        return  # a request with unflagged features is not what mlodaAPI hands to the engine; the property texts speak about API requests
    ents = [{"g": e[0], "n": dec(e[1]["n"]), "grp": e[1]["g"], "ctx": e[1]["c"], "d": e[1]["d"], "ch": e[1]["ch"], "t": e[1]["t"], "f": e[1]["f"], "req": bool(e[2]), "u": e[3]} for e in o["coll"]]
    by_u = {e["u"]: e for e in ents}
    base = lambda n: n.split("~")[0]  # noqa: E731
    facts = world_facts(world)
    links = list(world["links"] or []) + [t["l"] for t in request if t.get("l")]
    idx_heads: Dict[int, set] = {}
    for l in links:
        for gi, ix in ((l[1], l[2]), (l[3], l[4])):
            if 0 <= gi < len(world["groups"]) and ix in (world["groups"][gi].get("index") or []):
                idx_heads.setdefault(gi, set()).add(ix[0])
    filt_names = {fl["n"] for fl in (world["filters"] or [])}
    # (1) every flagged request feature is represented by a FLAGGED entry with its name / options / context / domain
    for i, t in enumerate(request):
        if not t.get("r", True):
            continue
        cands = [e for e in ents if e["n"] in (t["n"], base(t["n"])) and e["ch"] is None and e["grp"] == jopts(t.get("g") or {}) and e["ctx"] == jopts(t.get("c") or {})
                 and e["d"] == (DOMS[t["d"]] if t.get("d") else None)]  # fmt: skip
        if not any(e["req"] for e in cands):
            shadow = any(e["n"] in filt_names or e["n"] in idx_heads.get(e["g"], set()) for e in cands) and i > 0
            ctx.violation(suite, case, f"requested feature {t['n']!r} is not represented by an entry marked initial_requested_data (entries with its key: {cands})",
                          cands, "flagged entry", finding_class=CLS_AUX if shadow else None)  # fmt: skip
    # (1a) pairwise different uuids; a request / dependency that contradicts its group's declared type or its dependent's options is rejected
    if len({e["u"] for e in ents}) != len(ents):
        ctx.violation(suite, case, "two collected features share one uuid", sorted(e["u"] for e in ents), "distinct uuids")
    for t in request:
        owners = [g for g in world["groups"] if base(t["n"]) in g["cols"]]
        if t.get("t") and len(owners) == 1 and (owners[0].get("types") or {}).get(t["n"]) not in (None, t["t"]):
            ctx.violation(suite, case, f"request declares {t['n']!r} as {t['t']} but its group's return_data_type_rule says {owners[0]['types'][t['n']]}: accepted", t, "ValueError")
    for e in ents:
        g = world["groups"][e["g"]]
        if g["kind"] == "derived" and (e["req"] or e["ch"] is not None):
            mine = dict(e["grp"] + e["ctx"])
            for tm in g["derived"].get(base(e["n"])) or []:
                if tm.get("pass"):
                    continue
                for k, v in jopts(tm.get("g") or {}) + jopts(tm.get("c") or {}):
                    if k in mine and mine[k] != v:
                        ctx.violation(suite, case, f"{e['n']!r} has option o{k}={mine[k]}, its input feature {tm['n']!r} asks for o{k}={v}: accepted although the values conflict", e, "ValueError")
    # (1b) a collected feature of a group with a declared data type rule carries that type; its frameworks are accessible ones of its group
    for e in ents:
        g = world["groups"][e["g"]]
        rule = (g.get("types") or {}).get(e["n"])
        if rule and (e["req"] or e["ch"] is not None) and e["t"] != DT.index(rule) + 1:  # filter / index features do not pass set_data_type
            ctx.violation(suite, case, f"entry {e['n']!r} of group {e['g']} has data type id {e['t']}, the group's return_data_type_rule says {rule}", e, rule)
        acc = {FW_ID[x] for x in g["fws"] if x in world["fws"]}
        if e["f"] is None or not set(e["f"]) <= acc or not e["f"]:
            ctx.violation(suite, case, f"entry {e['n']!r} of group {e['g']} has compute frameworks {e['f']}, accessible are {sorted(acc)}", e, sorted(acc))
    # (2) auxiliary entries (unflagged, no child options) only where a link names that index of the group or a filter names a column of the group
    for e in ents:
        if e["req"] or e["ch"] is not None:
            continue
        g = world["groups"][e["g"]]
        ok_idx = e["n"] in idx_heads.get(e["g"], set())
        ok_flt = any(base(fn) in g["cols"] and (e["n"] in (fn, base(fn))) for fn in filt_names)
        ok_unflagged_request = any((not t.get("r", True)) and e["n"] in (t["n"], base(t["n"])) for t in request)
        if not (ok_idx or ok_flt or ok_unflagged_request):
            ctx.violation(suite, case, f"auxiliary entry {e['n']!r} in group {e['g']} although no link names that index and no filter names that column", e, "no entry")
        # a context-only option key (o4) never becomes a group option of an auxiliary (filter / index) feature
        if any(k == 4 for k, _ in e["grp"]):
            ctx.violation(suite, case, f"auxiliary entry {e['n']!r}: the context option o4 of the processed feature became a GROUP option", e, "context stays context")
    # (3) parents: for a non-auxiliary entry of a derived group exactly (the representatives of) its input features, plus auxiliary features
    flp = {k: v for k, v in o["flp"]}
    if set(flp) != set(by_u):
        ctx.violation(suite, case, "feature_link_parents keys differ from the collected uuids", sorted(flp), sorted(by_u))
        return
    aux_names = set(filt_names) | {h for hs in idx_heads.values() for h in hs}
    for e in ents:
        ps = flp[e["u"]]
        if any(p not in by_u for p in ps):
            ctx.violation(suite, case, f"a parent uuid of {e['n']!r} is not a collected feature (dangling node)", ps, "collected uuids")
            continue
        g = world["groups"][e["g"]]
        expanded = e["req"] or e["ch"] is not None
        tmpls = (g["derived"].get(base(e["n"])) or []) if (g["kind"] == "derived" and expanded) else []
        want = {base(t["n"]) for t in tmpls}
        got = {base(by_u[p]["n"]) for p in ps}
        if not want <= got:
            ctx.violation(suite, case, f"{e['n']!r} (group {e['g']}) lacks an edge from its input feature(s) {sorted(want - got)}", sorted(got), sorted(want))
        extra = {n for n in got - want if n not in aux_names}
        if extra:
            ctx.violation(suite, case, f"{e['n']!r} (group {e['g']}) has parent(s) {sorted(extra)} that are neither input features nor filter / index features", sorted(got), sorted(want))


def check_witness(ctx: Any, suite: str, case: Dict[str, Any], o: Dict[str, Any], mt: Dict[str, Any]) -> None:
    """a closed witness of Props/C03_engine.lean: the real engine must show exactly what the theorem states about the model"""
    exp = mt.get("expect")
    if not exp:
        return
    if exp.get("either"):
        if not ("coll" in o or o.get("err") == "domainCompare"):
            ctx.disagree(suite, case, o.get("err"), mt["what"] + ": collected, or 'Cannot compare Domain'")
        ctx.tag("witness_dmix", "raised" if "err" in o else "collected")
        return
    if "err" in exp:
        if o.get("err") != exp["err"]:
            ctx.disagree(suite, case, o.get("err", "collected"), {mt["what"]: exp})
        return
    if "coll" not in o:
        ctx.disagree(suite, case, o.get("err"), {mt["what"]: exp})
        return
    got = sorted([e[0], dec(e[1]["n"]), bool(e[2])] for e in o["coll"])
    if got != sorted(exp["names"]):
        ctx.disagree(suite, case, got, {mt["what"]: sorted(exp["names"])})
    if "edges" in exp and len(o["edges"]) != exp["edges"]:
        ctx.disagree(suite, case, o["edges"], {mt["what"]: exp["edges"]})


def judge_e2e(ctx: Any, suite: str, case: Dict[str, Any], o: Dict[str, Any], m: Dict[str, Any]) -> None:
    world, request = case["world"], case["request"]
    facts = world_facts(world)
    names = [t["n"] for t in request]
    ctx.case(suite, case, len(request) >= 2 or bool(world["filters"]) or bool(world["links"]), e2e_outcome=("ok" if "tables" in o else o.get("stage")), e2e_nreq=len(request),
             e2e_filters=world["filters"] is not None, e2e_links=world["links"] is not None)  # fmt: skip
    # model vs implementation on what the engine collected (flags)
    model_ok = "ok" in m
    agrees = True
    if "coll" in o:
        if not model_ok:
            ctx.disagree(suite, case, "collected", m)
            agrees = False
        else:
            a = sorted([e[0], _kstr(e[1]), bool(e[2])] for e in o["coll"])
            b = sorted([e[0], _kstr(e[1]), bool(e[1]["r"])] for e in m["ok"]["coll"])
            if a != b:
                ctx.disagree(suite, case, a, b)
                agrees = False
    elif o.get("stage") == "prepare" and o["err"] in ("noGroup", "multiGroup", "typeMismatch", "mergeConflict", "duplicate", "domainCompare", "cfwUnsupported", "groupCtxConflict"):
        if not err_eq(o["err"], m.get("err")):
            ctx.disagree(suite, case, o, m)
            agrees = False
    well_formed = all(n in facts["owner"] for n in names)
    aux_hit = aux_predicate(world, facts, request)
    fdom = fdom_predicate(world, facts, request)
    flink = flink_predicate(world, facts, request)
    if not well_formed:
        if "tables" in o:
            ctx.violation(suite, case, f"request with an unknown feature was executed: {o['tables']}", o["tables"], "error")
        return
    expected_fail = _expected_rejection(world, facts, request)
    if "tables" not in o:
        if expected_fail:
            return  # a request the documentation rejects (type / domain / framework mismatch with its group)
        cls = None
        if o.get("err") == "domainCompare" and agrees and m.get("err") == "domainFilter" and fdom:
            cls = CLS_FDOM  # raised by GlobalFilter.domain (the model names the raise site)
        elif o.get("err") == "domainCompare" and agrees and m.get("err") == "domainScan":
            cls = CLS_DMIX  # raised while walking a group's set: depends on the set's iteration order (hash seed)
        elif flink and agrees and o.get("stage") == "run":
            cls = CLS_FLINK
        elif aux_hit and agrees:
            cls = CLS_AUX
        ctx.violation(suite, case, f"well-formed request {names} failed at {o.get('stage')}: {o.get('err')}", o.get("err"), "tables with exactly the requested columns", finding_class=cls)
        return
    got = sorted(c2 for t in o["tables"] for c2 in t)
    want = sorted(names)
    if got != want:
        missing = [n for n in want if n not in got]
        cls = CLS_AUX if (agrees and missing and set(missing) <= set(aux_hit) and sorted(got + missing) == want) else None
        ctx.violation(suite, case, f"requested {want}, returned columns {got} (tables {o['tables']})", o["tables"], want, finding_class=cls)


def _expected_rejection(world: Dict[str, Any], facts: Dict[str, Any], request: List[Dict[str, Any]]) -> bool:
    """requests that name a feature with a declared type / domain its group (transitively) does not offer: rejecting them is correct"""

    def bad(n: str, d: Optional[str], t: Optional[str], seen: set) -> bool:
        if n in seen:
            return True  # a dependency cycle cannot be planned
        seen = seen | {n}
        g = world["groups"][facts["owner"][n]]
        if d and (g.get("dom") or "default_domain") != d:
            return True
        if t and g.get("types", {}).get(n) and g["types"][n] != t:
            return True
        if g["kind"] == "derived":
            for tm in g["derived"][n]:
                pn = tm["n"].split("~")[0]
                if pn not in facts["owner"] or bad(pn, tm.get("d") or d, tm.get("t"), seen):
                    return True
        return False

    return any(bad(t["n"], t.get("d"), t.get("t"), set()) for t in request)


def judge_order(ctx: Any, groups: Dict[str, List[Any]]) -> None:
    """the collected SET (group, key, flag) must not depend on the order of the request list / the hash seed"""
    for key, runs in groups.items():
        if len(runs) < 2:
            continue
        sets = []
        for case, o in runs:
            sets.append(sorted([e[0], _kstr(e[1]), bool(e[2])] for e in o["coll"]))
        ctx.case("engine_order", [runs[0][0]["world"], [t["n"] for t in runs[0][0]["request"]]], True)
        if any(s != sets[0] for s in sets[1:]):
            a, b = runs[0], next(r for r, s in zip(runs, sets) if s != sets[0])
            world = a[0]["world"]
            facts = world_facts(world)
            # known class: the runs differ only in the flag / presence of features that are filter or linked-index features
            some_aux = any(_shadowable(world, facts, r[0]["request"]) for r in runs)
            some_flink = any(flink_predicate(world, facts, r[0]["request"]) for r in runs)
            # with a link given through a request feature the index features depend on where that feature stands in the list
            diff_only_index = _differ_only_in_index_features(world, sets[0], sorted([e[0], _kstr(e[1]), bool(e[2])] for e in b[1]["coll"]))
            cls = CLS_FLINK if (some_flink and diff_only_index) else (CLS_AUX if some_aux else None)
            ctx.violation("engine_order", {"world": world, "request_a": a[0]["request"], "request_b": b[0]["request"], "seeds": [a[0]["seed"], b[0]["seed"]]},
                          "same requested features, different order / hash seed, different collected set", sets[0], sorted([e[0], _kstr(e[1]), bool(e[2])] for e in b[1]["coll"]),
                          finding_class=cls)  # fmt: skip


def _differ_only_in_index_features(world: Dict[str, Any], a: List[Any], b: List[Any]) -> bool:
    """the two collected sets differ only in unflagged, child-less entries named like the first column of an index of their group"""
    sa, sb = {json.dumps(x) for x in a}, {json.dumps(x) for x in b}
    for x in sa ^ sb:
        g, k, q = json.loads(x)
        kk = json.loads(k)
        heads = [ix[0] for ix in (world["groups"][g].get("index") or []) if ix]
        if q or kk["ch"] is not None or dec(kk["n"]) not in heads:
            return False
    return True


def _shadowable(world: Dict[str, Any], facts: Dict[str, Any], request: List[Dict[str, Any]]) -> bool:
    """some requested feature is named like a filter feature / the first column of a linked index (links of the world or carried by a request feature)"""
    auxn = {n for l in facts["aux"].values() for n in l}
    for t in request:
        if t.get("l"):
            auxn |= {t["l"][2][0], t["l"][4][0]}
    return any(t["n"].split("~")[0] in auxn for t in request)


def search(ctx: Any, broken: List[str]) -> None:
    _run(ctx, ctx.budget(2500, 12000), ctx.budget(500, 2500))


def replay(ctx: Any, body: Dict[str, Any]) -> None:
    case = body.get("case") or {}
    if not isinstance(case, dict) or "world" not in case:
        return run(ctx)
    seed = int(case.get("seed") or 0)
    kind = "e2e" if body.get("suite") == "engine_e2e" else "probe"
    reqs = [case["request"]] if "request" in case else [case["request_a"], case["request_b"]]
    batches = {seed: [{"kind": kind, "world": case["world"], "request": r} for r in reqs]}
    res = run_children(batches, 1)[seed]
    outs = ctx.driver("C03_engine").batch([model_req(case["world"], r, o) for r, o in zip(reqs, res)])
    for r, o, m in zip(reqs, res, outs):
        c = {"world": case["world"], "request": r, "seed": str(seed)}
        if kind == "probe":
            compare_probe(ctx, "engine_fn", c, o, m, {})
        else:
            judge_e2e(ctx, "engine_e2e", c, o, m)


if __name__ == "__main__":
    if "--child" in sys.argv:
        child_main()
