"""C01 extension `joinside`: derived features on the SIDES of a join.

Input class
  Two sources (left / right of one Link, same compute framework or the right one elsewhere), and between the sources and the
  consumer of the join further feature groups ("mids") whose features are derived from ONE join side only: single derived
  features, chains two or three levels deep (in separate groups or as intra-group levels), siblings on one side, mids on the
  left side, on the right side, or on both.  The consumer(s) of the join - one or two groups, one or two features each - combine a
  feature of each side, most of the time a mid feature (d <- {s, b}, s <- left.a, link left<->right); further groups may sit on top
  of the consumers, and mid features may be requested themselves.  Every request is run in SYNC, THREADING and (sampled)
  MULTIPROCESSING; in THREADING the mids' calculations are slow (seeded delays of 30-120 ms) so that a mid is still being calculated
  when both joined root feature sets are finished - the situation in which a join that does not wait for ALL inputs of its
  consumer would start too early and work on the same compute-framework object as the running calculation.

Oracle (from the property text, evaluated on the generated groups' own event log: begin/end of every calculate_feature with the
incoming columns)
  (1) every feature of the request's dependency closure is handed to a calculation exactly once (at most once in a failed run),
  (2) a calculation begins only after the calculation of every feature it transitively depends on has ended,
  (3) the columns of all its (transitive) inputs are in the data it receives (direct parents - what the calculation reads - and
      the further transitive inputs are reported separately),
  (4) a run in which no calculation failed returns (nothing is injected here), and ends within the watchdog.
Which compute-framework object a step is handed is observed by a harness-side wrapper around Step.execute (as schedlib does
for begin/end): two FEATURE-GROUP steps open at once on the SAME object in THREADING is the input class of the known lost-update
finding F-C01-thread-lost-update (decided per run on the observed objects, not on framework names); a JOIN step open together with a
calculation of an input of the join's consumer on the same object is in NO known class.
Genuine defects of the unchanged tree met on this input class (findings.d/C01_joinside.json; narrow predicates on the case, see `judge`):
  * MULTIPROCESSING, the join consumer reads a feature derived on the RIGHT side: that column is never uploaded, the consumer starts without it;
  * THREADING, a derived side feature that is requested for its own sake (no input of the join consumer) is calculated at the same time as
    the join on the same object (the plan does not order them) - only counted when no input of the join consumer overlapped the join;
  * a right-side feature that is no input of the join consumer starts / is collected after the join has run and is handed the left object.
Model side: the exported plan goes through `C01.planCheck`, the observed step trace of every run that returned through `C01.accepts`
(main driver of the property).
"""
from __future__ import annotations

import threading
import time
from typing import Any, Dict, List, Optional, Set, Tuple

from harness.core import Ctx
from harness import fgfactory as F
from harness import schedlib as S

SUITES = {"joinside_runs", "joinside_plan", "joinside_accepts"}

ASSUMPTIONS = [
    "joinside: the compute-framework object a step works on is observed by a harness-side wrapper around Step.execute (uuid of the `cfw` argument); "
    "OS thread scheduling is sampled - seeded delays inside the mids' calculate_feature make 'a derived feature of a join side is still being calculated when "
    "both joined root feature sets are finished' the common interleaving, they do not control it",
    "joinside: key sets of the two sources coincide and are unique (arithmetic on joined rows never meets a null); MULTIPROCESSING is a sampled control and "
    "inherits the known MULTIPROCESSING join/transform findings of the main suite",
]

DELAYS: Dict[str, float] = {}
KNOWN_THREAD = "threading-overlapping-steps-on-shared-cfw"
KNOWN_JOIN_FREE = "threading-join-overlaps-calculation-of-side-feature-not-input-of-join-consumer"
KNOWN_RIGHT_FREE = "join-request-with-right-side-feature-not-input-of-join-consumer"
KNOWN_MP_RIGHT_DERIVED = "multiprocessing-join-consumer-reads-derived-feature-of-right-side"


def _delay_hook(cls: Any, data: Any, features: Any) -> None:
    d = DELAYS.get(cls.__name__)
    if d:
        time.sleep(d)


# ----------------------------------------------------------------------------------------------------------------------
# observation: which compute-framework object is a step handed?

_cfw_obs_installed = False


def install_cfw_observer() -> None:
    global _cfw_obs_installed
    if _cfw_obs_installed:
        return
    _cfw_obs_installed = True
    S.install_step_observers()
    from mloda.core.core.step.feature_group_step import FeatureGroupStep
    from mloda.core.core.step.transform_frame_work_step import TransformFrameworkStep
    from mloda.core.core.step.join_step import JoinStep

    for cls in (FeatureGroupStep, TransformFrameworkStep, JoinStep):
        orig = cls.execute

        def make(orig: Any) -> Any:
            def execute(self: Any, cfw_register: Any, cfw: Any, *a: Any, **kw: Any) -> Any:
                try:
                    F.log_event(ev="cfw", step=str(self.uuid), cfw=str(getattr(cfw, "uuid", None)))
                except Exception:
                    pass
                return orig(self, cfw_register, cfw, *a, **kw)

            return execute

        cls.execute = make(orig)  # type: ignore[method-assign]


# ----------------------------------------------------------------------------------------------------------------------
# generator


def _mk(rng: Any, parents: List[str], p_const: float = 0.5) -> Dict[str, Any]:
    expr: Any = ["col", parents[0]]
    for q in parents[1:]:
        expr = [rng.choice(["add", "sub"]), expr, ["col", q]]
    if rng.random() < p_const:
        expr = ["add", expr, ["const", rng.randint(1, 5)]]
    return {"parents": list(parents), "expr": expr}


def gen_spec(rng: Any, frameworks: Tuple[str, ...] = ("pd", "pd", "pa", "py")) -> Dict[str, Any]:
    uid = F.uniq("")
    fw = rng.choice(list(frameworks))
    fw_r = fw if rng.random() < 0.7 else rng.choice([x for x in ("pd", "pa", "py") if x != fw])
    nrows = rng.randint(1, 4)
    keys = rng.sample([1, 2, 3, 4, 5, 6], nrows)
    srcs = []
    for i in range(2):
        ks = list(keys)
        rng.shuffle(ks)
        kname = f"k{uid}_{i}"
        cols: Dict[str, List[Any]] = {kname: ks}
        for j in range(rng.randint(1, 2)):
            cols[f"v{uid}_{i}{j}"] = [rng.randint(0, 9) for _ in ks]
        srcs.append({"name": f"S{uid}_{i}", "fw": fw if i == 0 else fw_r, "key": kname, "cols": cols})
    vals = [[c for c in s_["cols"] if c != s_["key"]] for s_ in srcs]

    def style(fw_: str) -> Any:
        return rng.choice([False, False, True, "series"]) if fw_ == "pd" else (rng.random() < 0.3 if fw_ == "py" else False)

    # mids: per side 0..2 chains, each 1..3 levels deep; a level is a group of its own or a further level of the previous group
    nch = rng.choice([(1, 0), (1, 0), (1, 0), (1, 0), (0, 1), (0, 1), (0, 1), (1, 1), (1, 1), (2, 0), (0, 2), (2, 1)])
    mids: List[Dict[str, Any]] = []
    mid_feats: List[List[str]] = [[], []]  # per side, all mid features
    tips: List[List[str]] = [[], []]  # per side, the last feature of every chain
    depth_max = 0
    intra = False
    k = 0
    for side in (0, 1):
        sfw = srcs[side]["fw"]
        for c in range(nch[side]):
            depth = rng.choice([1, 1, 2, 2, 3])
            depth_max = max(depth_max, depth)
            prev = rng.choice(vals[side])
            grp: Optional[Dict[str, Any]] = None
            for lvl in range(depth):
                f = f"s{uid}_{side}{c}{lvl}"
                par = [prev]
                if lvl > 0 and rng.random() < 0.3:
                    par.append(rng.choice(vals[side]))  # level n also reads a root column of its side
                d = _mk(rng, par)
                if grp is not None and rng.random() < 0.3:
                    grp["features"][f] = d  # intra-group dependency level
                    intra = True
                else:
                    grp = {"name": f"M{uid}_{k}", "fw": sfw, "side": side, "features": {f: d}, "style": style(sfw)}
                    k += 1
                    mids.append(grp)
                mid_feats[side].append(f)
                prev = f
            tips[side].append(prev)

    # consumers of the join: every feature combines one input of each side; at least one of them reads a mid feature
    ncons = rng.choice([1, 1, 1, 2])
    consumers: List[Dict[str, Any]] = []
    cons_feats: List[str] = []
    uses_mid = False
    for ci in range(ncons):
        feats: Dict[str, Any] = {}
        for j in range(rng.choice([1, 1, 2])):
            par = []
            for side in (0, 1):
                pool_mid = tips[side] if rng.random() < 0.7 else mid_feats[side]
                if pool_mid and (rng.random() < 0.85 or (not uses_mid and not mid_feats[1 - side])):
                    par.append(rng.choice(pool_mid))
                    uses_mid = True
                else:
                    par.append(rng.choice(vals[side]))
            if rng.random() < 0.25:
                extra = rng.choice(vals[0] + vals[1] + mid_feats[0] + mid_feats[1])
                if extra not in par:
                    par.append(extra)
            f = f"d{uid}_{ci}{j}"
            feats[f] = _mk(rng, par)
            cons_feats.append(f)
        consumers.append({"name": f"Z{uid}_{ci}", "fw": fw, "features": feats, "style": style(fw)})
    if not uses_mid:
        # force it: first feature of the first consumer reads the tip of some chain
        side = 0 if tips[0] else 1
        f0 = next(iter(consumers[0]["features"]))
        other = rng.choice(vals[1 - side])
        par = [tips[side][0], other] if side == 0 else [other, tips[side][0]]
        consumers[0]["features"][f0] = _mk(rng, par)

    tops: List[Dict[str, Any]] = []
    avail = list(cons_feats)
    for t in range(rng.choice([0, 0, 1, 2])):
        f = f"w{uid}_{t}"
        par = [rng.choice(avail)]
        if rng.random() < 0.3 and len(avail) > 1:
            par.append(rng.choice([a for a in avail if a not in par]))
        tops.append({"name": f"T{uid}_{t}", "fw": fw, "features": {f: _mk(rng, par)}, "style": style(fw)})
        avail.append(f)

    # request: the last feature, every consumer group through at least one feature, some more; sometimes a mid feature itself
    req = [avail[-1]]
    for cg in consumers:
        if not any(f in req for f in cg["features"]) and not any(_descends(tops, r, set(cg["features"])) for r in req):
            req.append(rng.choice(list(cg["features"])))
    req += [a for a in avail if a not in req and rng.random() < 0.3]
    mid_requested = False
    if rng.random() < 0.25:
        m = rng.choice(mid_feats[0] + mid_feats[1])
        req.append(m)
        mid_requested = True
    link = {"type": rng.choice(["inner", "left", "outer"]), "left": 0, "right": 1}
    return {
        "sources": srcs, "links": [link], "mids": mids, "consumers": consumers, "tops": tops,
        "request": [{"name": n, "options": {}} for n in req], "joinside": True,
        "shape": {"left_chains": nch[0], "right_chains": nch[1], "depth": depth_max, "intra_levels": intra, "consumers": ncons, "mid_requested": mid_requested},
    }  # fmt: skip


def _descends(tops: List[Dict[str, Any]], f: str, targets: Set[str]) -> bool:
    defs = {n: d for t in tops for n, d in t["features"].items()}
    seen: Set[str] = set()

    def go(x: str) -> bool:
        if x in targets:
            return True
        if x in seen:
            return False
        seen.add(x)
        return any(go(p_) for p_ in defs.get(x, {}).get("parents", []))

    return go(f)


def groups_of(spec: Dict[str, Any]) -> List[Dict[str, Any]]:
    return list(spec["mids"]) + list(spec["consumers"]) + list(spec["tops"])


def link_view(spec: Dict[str, Any]) -> Dict[str, Any]:
    """The spec in the shape schedlib's link helpers understand (consumer + further derived groups)."""
    gs = groups_of(spec)
    cons = spec["consumers"][0]
    rest = [g for g in gs if g is not cons]
    return {"sources": spec["sources"], "links": spec["links"], "consumer": cons, "tops": rest, "request": spec["request"], "inplace": False}


def deps_of(spec: Dict[str, Any]) -> Tuple[Dict[str, List[str]], Dict[str, Set[str]]]:
    defs = {f: list(d["parents"]) for g in groups_of(spec) for f, d in g["features"].items()}
    memo: Dict[str, Set[str]] = {}

    def anc(f: str) -> Set[str]:
        if f not in memo:
            out: Set[str] = set()
            for p_ in defs.get(f, []):
                out.add(p_)
                out |= anc(p_)
            memo[f] = out
        return memo[f]

    allf = set(defs) | {c for s_ in spec["sources"] for c in s_["cols"]}
    return defs, {f: anc(f) for f in allf}


def closure_of(spec: Dict[str, Any], anc: Dict[str, Set[str]]) -> Set[str]:
    out: Set[str] = set()
    for r in spec["request"]:
        out.add(r["name"])
        out |= anc[r["name"]]
    return out


def sides_of(spec: Dict[str, Any], anc: Dict[str, Set[str]]) -> Dict[str, Set[int]]:
    src_of = {c: i for i, s_ in enumerate(spec["sources"]) for c in s_["cols"]}
    return {f: ({src_of[f]} if f in src_of else set()) | {src_of[a] for a in a_ if a in src_of} for f, a_ in anc.items()}


# ----------------------------------------------------------------------------------------------------------------------
# oracle


def step_objects(exp: Dict[str, Any], events: List[Dict[str, Any]]) -> Dict[int, str]:
    m = exp["_step_uuid_to_idx"]
    return {m[e["step"]]: e.get("cfw") for e in events if e.get("ev") == "cfw" and e.get("step") in m}


def overlaps_on_object(exp: Dict[str, Any], events: List[Dict[str, Any]]) -> Tuple[bool, List[Tuple[int, int]]]:
    """(two feature-group steps were open at once on one compute-framework object,
        [(join step, feature-group step)] that were open at once on one object) - from the observed step events."""
    steps = exp["steps"]
    obj = step_objects(exp, events)
    open_: Set[int] = set()
    fgfg = False
    joinfg: List[Tuple[int, int]] = []
    for k, i in S.obs_of(exp, events):
        if steps[i]["kind"] not in ("fg", "join"):
            continue
        if k == "b":
            for j in open_:
                if obj.get(i) is not None and obj.get(i) == obj.get(j):
                    kinds = {steps[i]["kind"], steps[j]["kind"]}
                    if kinds == {"fg"}:
                        fgfg = True
                    elif kinds == {"fg", "join"}:
                        joinfg.append((i, j) if steps[i]["kind"] == "join" else (j, i))
            open_.add(i)
        else:
            open_.discard(i)
    return fgfg, joinfg


def free_side_features(spec: Dict[str, Any], anc: Dict[str, Set[str]], closure: Set[str]) -> Tuple[Set[str], Dict[str, Set[int]]]:
    """Derived features of the closure that descend from one join side only and are NOT an input of any feature that needs the
    join (requested for their own sake): the planner orders them neither before nor after the join."""
    sd = sides_of(spec, anc)
    srccols = {c for s_ in spec["sources"] for c in s_["cols"]}
    both = {f for f in closure if len(sd.get(f, ())) == 2}
    join_inputs: Set[str] = set()
    for f in both:
        join_inputs |= anc[f]
    return {f for f in closure if f not in srccols and len(sd.get(f, ())) == 1 and f not in join_inputs}, sd


def judge(ctx: Ctx, suite: str, spec: Dict[str, Any], exp: Dict[str, Any], mode: str, rr: S.RunResult, case: Any, known: Optional[str]) -> Dict[str, Any]:
    defs, anc = deps_of(spec)
    closure = closure_of(spec, anc)
    free, sd = free_side_features(spec, anc, closure)
    calc_b = [e for e in rr.events if e.get("ev") == "begin"]
    calc_e = [e for e in rr.events if e.get("ev") == "end"]
    calc_x = [e for e in rr.events if e.get("ev") == "fail"]
    ok_run = rr.error is None and not rr.timed_out
    steps = exp["steps"]
    fgfg, joinfg = overlaps_on_object(exp, rr.events)
    # a join open together with the calculation of a feature that IS an input of a join consumer: in no known class
    join_with_input = [(j_, y) for j_, y in joinfg if not set(steps[y]["features"]) <= free]
    join_with_free = [(j_, y) for j_, y in joinfg if set(steps[y]["features"]) <= free]
    fclass = known
    if fclass is None and mode == "thread" and join_with_free and not join_with_input:
        fclass = KNOWN_JOIN_FREE
    if fclass is None and mode == "thread" and fgfg and not join_with_input:
        fclass = KNOWN_THREAD  # (a join open together with the calculation of one of its consumer's inputs is in none of the classes)
    objs = step_objects(exp, rr.events)
    step_of = {(st.get("group"), tuple(sorted(set(st.get("features", []))))): i for i, st in enumerate(steps) if st["kind"] == "fg"}
    left_obj = next((objs.get(i) for i, st in enumerate(steps) if st["kind"] == "fg" and st.get("group") == spec["sources"][0]["name"]), None)
    derived_right = {f for f in defs if sd.get(f) == {1}}
    # steps that descend from the right source only and are no input of a join consumer: the plan orders them neither before nor
    # after the join; once the join has run, the right source's features resolve to the joined LEFT object
    right_free = {i for i, st in enumerate(steps) if st["kind"] == "fg" and set(st["features"]) <= free and all(sd.get(f) == {1} for f in st["features"])}
    m = exp["_step_uuid_to_idx"]
    s_end: Dict[int, int] = {}
    s_begin: Dict[int, int] = {}
    for e in rr.events:
        if e.get("ev") in ("send", "sfail") and e.get("step") in m:
            s_end.setdefault(m[e["step"]], e["t"])
        if e.get("ev") == "sbegin" and e.get("step") in m:
            s_begin.setdefault(m[e["step"]], e["t"])
    join_begin = min((s_begin[i] for i, st in enumerate(steps) if st["kind"] == "join" and i in s_begin), default=None)
    right_free_late = {i for i in right_free if join_begin is not None and s_end.get(i, join_begin + 1) > join_begin}  # (tag) not ended when the join began
    end_t: Dict[str, int] = {}
    for e in calc_e:
        for f in e["features"]:
            end_t.setdefault(f, e["t"])
    # (1) exactly once
    count: Dict[str, int] = {}
    for e in calc_b:
        for f in e["features"]:
            count[f] = count.get(f, 0) + 1
    for f in sorted(closure | set(count)):
        n = count.get(f, 0)
        if n > 1 or (ok_run and f in closure and n != 1):
            ctx.violation(suite, case, f"feature {f} was handed to a calculation {n} times (expected 1, mode {mode})", n, 1, finding_class=fclass)
    # (2) after all transitive inputs finished, (3) their columns are in the received data
    trans_missing = False
    right_on_left = False
    for e in calc_b:
        cols = set(e.get("cols", []))
        here = set(e["features"])
        ecls = fclass
        idx = step_of.get((e["group"], tuple(sorted(set(e["features"])))))
        if ecls is None and idx in right_free:
            # after the join the right source's features resolve to the joined LEFT object: such a step is handed the left object
            ecls = KNOWN_RIGHT_FREE
            right_on_left = right_on_left or (left_obj is not None and objs.get(idx) == left_obj)
        late: Set[str] = set()
        need_direct: Set[str] = set()
        need_trans: Set[str] = set()
        for f in e["features"]:
            for a in anc.get(f, set()):
                if a not in end_t or end_t[a] > e["t"] or a in here:
                    late.add(a)
                need_trans.add(a)
            need_direct |= set(defs.get(f, []))
        if late:
            ctx.violation(suite, case, f"{e['group']} began calculating {sorted(here)} before the calculation of its inputs {sorted(late)} had finished (mode {mode})", None, None, finding_class=ecls)
        missing = sorted(need_direct - cols)
        if missing:
            if ecls is None and mode == "mp" and set(missing) <= derived_right and len(set().union(*[sd.get(f, set()) for f in here])) == 2:
                ecls = KNOWN_MP_RIGHT_DERIVED
            ctx.violation(suite, case, f"{e['group']} began calculating {sorted(here)} without the columns {missing} of its inputs (incoming columns {sorted(cols)}, mode {mode})",
                          sorted(cols), sorted(need_direct), finding_class=ecls)  # fmt: skip
        tmissing = sorted(need_trans - need_direct - cols)
        if tmissing:
            # "... all features it (transitively) depends on have finished and their columns are present in the data it receives"
            trans_missing = True
            tcls = ecls
            if tcls is None and mode == "mp" and set(tmissing) <= derived_right and len(set().union(*[sd.get(f, set()) for f in here])) == 2:
                tcls = KNOWN_MP_RIGHT_DERIVED
            ctx.violation(suite, case, f"{e['group']} began calculating {sorted(here)} without the columns {tmissing} of its transitive inputs (incoming columns {sorted(cols)}, mode {mode})",
                          sorted(cols), sorted(need_trans), finding_class=tcls)  # fmt: skip
    # (4) termination / no failure out of nothing
    if rr.timed_out:
        ctx.violation(suite, case, f"run did not terminate within the watchdog in mode {mode}", None, None, finding_class=known)
    if rr.error is not None and not calc_x and not any(k_ == "x" for k_, _ in S.obs_of(exp, rr.events)):
        ctx.violation(suite, case, f"run raised although no step failed (mode {mode}): {rr.error[-160:]}", rr.error[-300:], "return",
                      finding_class=fclass or (KNOWN_RIGHT_FREE if right_free else None))  # fmt: skip
    return {"fgfg": fgfg, "join_with_input": bool(join_with_input), "join_with_free": bool(join_with_free), "trans_missing": trans_missing, "fclass": fclass,
            "free": bool(free), "right_on_left": right_on_left, "right_free_late": bool(right_free_late)}  # fmt: skip


def mid_running_when_sides_ready(spec: Dict[str, Any], rr: S.RunResult) -> bool:
    """A mid's calculation was still open when the calculations of both sources had ended (the moment a join that waits only for
    the two joined feature sets would become runnable)."""
    srcs = {s_["name"] for s_ in spec["sources"]}
    mids = {g["name"] for g in spec["mids"]}
    ends = [e["t"] for e in rr.events if e.get("ev") == "end" and e.get("group") in srcs]
    if len({e["group"] for e in rr.events if e.get("ev") == "end" and e.get("group") in srcs}) < 2:
        return False
    ready = max(ends)
    return any(e.get("ev") in ("end", "fail") and e.get("group") in mids and e["t"] > ready for e in rr.events)


def known_mp_class(spec: Dict[str, Any], exp: Dict[str, Any]) -> Optional[str]:
    if any(st["kind"] == "join" and "PythonDictFramework" in (st["left"], st["right"]) for st in exp["steps"]):
        return "multiprocessing-join-on-python-dict"
    if any(st["kind"] == "tfs" and st["from"] != "PyArrowTable" for st in exp["steps"]):
        return "multiprocessing-transform-step-from-non-arrow-producer"
    if S.mp_unuploaded_tfs_source(exp):
        return "multiprocessing-transform-source-not-uploaded"
    return None


# ----------------------------------------------------------------------------------------------------------------------
# suites


def set_delays(rng: Any, spec: Dict[str, Any], mode: str) -> Dict[str, float]:
    DELAYS.clear()
    S.MERGE_DELAY.clear()
    if mode == "sync":
        return {}
    for g in spec["sources"] + spec["consumers"] + spec["tops"]:
        DELAYS[g["name"]] = rng.choice([0, 0, 0.002, 0.01])
    for g in spec["mids"]:
        # slow mids: still being calculated when both joined root feature sets are finished
        DELAYS[g["name"]] = rng.choice([0.03, 0.05, 0.08, 0.12]) if (mode == "thread" and rng.random() < 0.85) else rng.choice([0, 0.002, 0.01])
    if mode == "thread" and rng.random() < 0.3:
        S.MERGE_DELAY["s"] = rng.choice([0.01, 0.03])  # the join's read-modify-write takes a while, as with large tables
    return {k: v for k, v in DELAYS.items() if v}


def run_specs(ctx: Ctx, specs: List[Dict[str, Any]], modes: List[str], p_mp: float) -> None:
    install_cfw_observer()
    lean_reqs: List[Dict[str, Any]] = []
    metas: List[Any] = []
    for spec in specs:
        view = link_view(spec)
        shape = spec["shape"]
        try:
            sess = S.prepare_link(view, hooks={"before_calc": _delay_hook})
        except Exception as e:
            # not a statement about a run (the property quantifies over runs); recorded, as the main join suite does
            ctx.case("joinside_plan", {"spec": spec}, False, joinside_prepare="rejected:" + type(e).__name__)
            continue
        exp = S.export_plan(sess)
        lp = S.lean_plan(exp)
        njoin = sum(1 for st in exp["steps"] if st["kind"] == "join")
        ntfs = sum(1 for st in exp["steps"] if st["kind"] == "tfs")
        ctx.case("joinside_plan", S.canon_plan(exp), njoin >= 1, joinside_prepare="ok", joinside_joins=njoin, joinside_tfs=ntfs)
        lean_reqs.append({"op": "C01.planCheck", **lp})
        metas.append(("planCheck", spec, exp, None))
        for mode in modes:
            if mode == "mp" and ctx.rng.random() > p_mp:
                continue
            delays = set_delays(ctx.rng, spec, mode)
            rr = S.run_session(sess, mode, timeout=60)
            DELAYS.clear()
            S.MERGE_DELAY.clear()
            obs = S.obs_of(exp, rr.events)
            case = {"spec": spec, "mode": mode, "delays": delays, "obs": obs}
            known = known_mp_class(spec, exp) if mode == "mp" else None
            if known and (rr.error or rr.timed_out):
                ctx.case("joinside_runs", {"spec": spec, "mode": mode}, True, joinside_mode=mode, joinside_outcome="known-mp")
                ctx.violation("joinside_runs", case, f"run of a join with derived side features failed in mode {mode}: {(rr.error or 'timeout')[-160:]}", (rr.error or "timeout")[-300:], "return", finding_class=known)
                continue
            j = judge(ctx, "joinside_runs", spec, exp, mode, rr, case, None)
            hit = mid_running_when_sides_ready(spec, rr)
            ctx.case(
                "joinside_runs", {"spec": spec, "mode": mode, "order": [i for k_, i in obs if k_ == "b"]}, True,
                joinside_mode=mode, joinside_outcome="error" if rr.error else ("timeout" if rr.timed_out else "ok"),
                joinside_sides=f"L{shape['left_chains']}R{shape['right_chains']}", joinside_depth=shape["depth"], joinside_intra_levels=shape["intra_levels"],
                joinside_consumers=shape["consumers"], joinside_mid_requested=shape["mid_requested"], joinside_cross_fw=spec["sources"][0]["fw"] != spec["sources"][1]["fw"],
                joinside_fw=spec["sources"][0]["fw"], joinside_jointype=spec["links"][0]["type"],
                **({"joinside_thread_mid_running_when_sides_ready": hit, "joinside_thread_fgfg_same_object": j["fgfg"]} if mode == "thread" else {}),
                joinside_join_open_with_calc_of_consumer_input_on_same_object=j["join_with_input"], joinside_join_open_with_free_side_calc_on_same_object=j["join_with_free"],
                joinside_free_side_feature=j["free"], joinside_right_only_step_on_left_object=j["right_on_left"], joinside_right_free_step_unfinished_when_join_begins=j["right_free_late"], joinside_transitive_cols_missing=j["trans_missing"],
            )  # fmt: skip
            if not rr.error and not rr.timed_out:
                lean_reqs.append({"op": "C01.accepts", "steps": lp["steps"], "obs": obs})
                metas.append(("accepts", spec, exp, mode))
    DELAYS.clear()
    if ctx.lean is None:
        return
    outs = ctx.lean.batch(lean_reqs)
    for rq, (kind, spec, exp, mode), o in zip(lean_reqs, metas, outs):
        if kind == "planCheck":
            if not (o.get("nonempty") and o.get("disjoint") and o.get("ranked") and o.get("parentsCovered")):
                ctx.disagree("joinside_plan", {"spec": spec, "plan": S.lean_plan(exp)}, "real plan", o)
        else:
            ctx.case("joinside_accepts", {"obs": rq["obs"], "mode": mode}, True)
            if not o.get("ok") or not o["state"]["returned"]:
                ctx.disagree("joinside_accepts", {"spec": spec, "mode": mode, "obs": rq["obs"]}, "observed trace of a run that returned", o)


def run(ctx: Ctx) -> None:
    ctx.extra["rule"] = ctx.extra.get("rule", "") + (
        " || joinside: two sources + one link, derived features on ONE join side each between the sources and the consumer(s) of the join (single, chains up to 3 levels, "
        "intra-group levels, siblings, left / right / both sides, one or two consumer groups, groups on top, mid features requested), prepared by the real planner and run in "
        "SYNC / THREADING (slow mids: a derived side feature is still being calculated when both joined root feature sets are finished) / sampled MULTIPROCESSING; oracle on the generated "
        "groups' begin/end events: every closure feature calculated exactly once, only after all transitive inputs ended, with the columns of all its transitive inputs in the received data"
    )
    n = ctx.budget(60, 700)
    specs = [gen_spec(ctx.rng) for _ in range(n)]
    run_specs(ctx, specs, ["sync", "thread", "mp"], 0.15 if ctx.quick else 0.4)
    S.stop_flight_server()


def search(ctx: Ctx, broken: List[str]) -> None:
    specs = [gen_spec(ctx.rng) for _ in range(120)]
    run_specs(ctx, specs, ["sync", "thread"], 0.0)


def replay(ctx: Ctx, body: Dict[str, Any]) -> None:
    case = body.get("case") or {}
    spec = case.get("spec") if isinstance(case, dict) else None
    if isinstance(spec, dict) and spec.get("joinside"):
        # the violating interleaving is sampled, not controlled: repeat the request a few times in its mode (and in SYNC as control)
        mode = case.get("mode", "thread")
        for _ in range(5):
            run_specs(ctx, [spec], ["sync", mode] if mode != "sync" else ["sync"], 1.0)
        S.stop_flight_server()
    else:
        run(ctx)
