"""C08 - a failure anywhere in a run is reported to the caller, never swallowed."""
from __future__ import annotations

import time
from typing import Any, Dict, List, Optional

from harness.core import Ctx
from harness import fgfactory as F
from harness import schedlib as S

ASSUMPTIONS = [
    "faults are Python exceptions raised inside step execution (calculation, input/output validation, declared-type check, transform step, join step, api_data lookup); "
    "death of a worker process without an exception (segfault, os._exit) is outside the property's fault kinds and outside the model",
    "the time bound is measured (30 s budget per run), not proved",
]

GROUP_FAULTS: Dict[str, str] = {}  # group class name -> kind ("calc" | "validate_input" | "validate_output")
BOUND_S = 30.0
HANG_CAP = 3


def _before_calc(cls: Any, data: Any, features: Any) -> None:
    if GROUP_FAULTS.get(cls.__name__) == "calc":
        raise RuntimeError(f"VERIF-FAULT calc {cls.__name__}")


def _extra_for(name: str) -> Dict[str, Any]:
    def validate_input_features(cls: Any, data: Any, features: Any) -> Optional[bool]:
        if GROUP_FAULTS.get(cls.__name__) == "validate_input":
            raise ValueError(f"VERIF-FAULT validate_input {cls.__name__}")
        return True

    def validate_output_features(cls: Any, data: Any, features: Any) -> Optional[bool]:
        if GROUP_FAULTS.get(cls.__name__) == "validate_output":
            raise ValueError(f"VERIF-FAULT validate_output {cls.__name__}")
        return True

    return {"validate_input_features": classmethod(validate_input_features), "validate_output_features": classmethod(validate_output_features)}


def build(spec: Dict[str, Any]) -> Dict[str, Any]:
    classes: Dict[str, Any] = {}
    hooks = {"before_calc": _before_calc}
    for r in spec["roots"]:
        classes[r["name"]] = F.make_group(r["name"], root_data=r["cols"], frameworks={F.FW_SHORT[r["fw"]]}, hooks=hooks, extra=_extra_for(r["name"]))
    for g in spec["groups"]:
        classes[g["name"]] = F.make_group(g["name"], derived=g["features"], frameworks={F.FW_SHORT[g["fw"]]}, hooks=hooks, extra=_extra_for(g["name"]))
    return classes


def upload_and_api_faults(ctx: Ctx) -> None:
    """Two more fault kinds of the property: a failing upload to the flight store (MULTIPROCESSING) and missing api_data."""
    from mloda.user import mloda
    from mloda_plugins.feature_group.input_data.api_data.api_data import ApiInputDataFeature

    S.install_step_observers()
    # (1) upload failure: every upload of the run raises; whichever step uploads first must make the call raise
    for it in range(ctx.budget(9, 40)):
        kind = ["dag", "chain", "link"][it % 3]
        try:
            if kind == "chain":
                spec = S.gen_chain_spec(ctx.rng, frameworks=("pa", "pd"))
                spec["roots"][0]["fw"], spec["groups"][0]["fw"] = "pa", spec["groups"][0]["fw"]
                sess = S.prepare(spec, build(spec))
            elif kind == "dag":
                spec = S.gen_spec(ctx.rng, max_feats=4, frameworks=("pa",), allow_options=False)
                # request an intermediate feature too, so that a requested result is uploaded while later steps still run
                names = [f for g in spec["groups"] for f in g["features"]]
                spec["request"] = [{"name": nm, "options": {}} for nm in names[:3]]
                sess = S.prepare(spec, build(spec))
            else:
                spec = S.gen_link_spec(ctx.rng, frameworks=("pa",), nsrc=2, jointypes=("inner", "left", "outer"))
                sess = S.prepare_link(spec, hooks={"before_calc": _before_calc}, extra_fn=_extra_for)
        except Exception:
            continue
        base = S.run_session(sess, "mp", timeout=BOUND_S)
        if base.error is not None or base.timed_out:
            continue
        for stream in (False, True):
            S.UPLOAD_FAULT["armed"] = True
            rr = S.run_session(sess, "mp", stream=stream, timeout=BOUND_S)
            S.UPLOAD_FAULT.clear()
            case = {"spec": spec, "kind": "upload", "mode": "mp", "stream": stream}
            ctx.case("faults_upload", case, True, stream=stream, kind=kind, outcome="timeout" if rr.timed_out else ("raise" if rr.error else "return"))
            if rr.timed_out:
                ctx.violation("faults_upload", case, f"run whose uploads fail did not end within {BOUND_S}s (hang)", "timeout", "raise")
            elif rr.error is None:
                ctx.violation("faults_upload", case, "run returned although every upload to the flight store raised", "returned", "raise")
            elif "VERIF-FAULT upload" not in rr.error:
                ctx.violation("faults_upload", case, "raised error does not carry the original message 'VERIF-FAULT upload'", rr.error[-300:], "VERIF-FAULT upload")
    S.UPLOAD_FAULT.clear()
    # (2) missing api_data: prepared with api_data A; a run given api_data that lacks what the plan needs must raise
    for _ in range(ctx.budget(6, 40)):
        uid = F.uniq("")
        cols = {f"ap{uid}_{i}": [ctx.rng.randint(0, 9) for _ in range(3)] for i in range(ctx.rng.randint(1, 2))}
        key = f"Key{uid}"
        dname = f"ad{uid}"
        c0 = next(iter(cols))
        D = F.make_group(f"AD{uid}", derived={dname: {"parents": [c0], "expr": ["add", ["col", c0], ["const", 1]]}})
        req = list(cols) + ([dname] if ctx.rng.random() < 0.5 else [])
        fw = F.FW_SHORT[ctx.rng.choice(["pa", "pd", "py"])]
        try:
            sess = mloda.prepare(list(req), compute_frameworks={fw}, plugin_collector=F.collector({D, ApiInputDataFeature}), api_data={key: cols})
        except Exception:
            continue
        for bad in ({}, {"OtherKey" + uid: cols}):
            for mode in ("sync", "thread"):
                for stream in (False, True):
                    rr = S.run_session(sess, mode, api_data=bad, stream=stream, timeout=BOUND_S)
                    case = {"prepared_api_data": {key: cols}, "run_api_data": bad, "request": req, "mode": mode, "stream": stream}
                    ctx.case("faults_api_data", case, True, mode=mode, stream=stream, empty=not bad, outcome="timeout" if rr.timed_out else ("raise" if rr.error else "return"))
                    if rr.timed_out:
                        ctx.violation("faults_api_data", case, "run with missing api_data did not end (hang)", "timeout", "raise")
                    elif rr.error is None:
                        got = len(rr.yielded) if stream else len(rr.results or [])
                        ctx.violation("faults_api_data", case, f"run returned {got} table(s) although the api_data of this run lacks what the plan reads", "returned", "raise")


def run(ctx: Ctx) -> None:
    ctx.extra["rule"] = (
        "fault enumeration: for every step of every generated plan (link-free DAGs, multi-framework DAGs with transform steps, two-source joins) x fault kind "
        "(calculation, input validation, output validation, failure at step entry incl. transform and join steps, missing api_data) x mode x {run, stream_run}: "
        "the API call must raise within the bound with the injected marker in the message and must not return; the observed trace (with the fail event) must "
        "be accepted by the Lean transition system, whose next loop head raises that step's error; non-trivial = failing step is not the first step of the plan "
        "or other steps are open when it fails"
    )
    nplans = ctx.budget(14, 120)
    lean_reqs: List[Dict[str, Any]] = []
    metas: List[Any] = []
    hangs = 0
    for k in range(nplans):
        if hangs >= HANG_CAP:
            # every reproducible hang costs attempts x BOUND_S; a few of them decide the property, more only burn the time limit
            ctx.note(f"fault enumeration stopped after {hangs} reproducible hangs")
            break
        r = ctx.rng.random()
        if r < 0.55:
            spec = S.gen_spec(ctx.rng, max_feats=5, frameworks=("pa",), allow_options=False)
            classes = build(spec)
            sess = S.prepare(spec, classes)
        elif r < 0.8:
            spec = S.gen_chain_spec(ctx.rng)
            classes = build(spec)
            sess = S.prepare(spec, classes)
        else:
            spec = S.gen_link_spec(ctx.rng, frameworks=("pa",), nsrc=2, jointypes=("inner", "left", "outer"))
            try:
                sess = S.prepare_link(spec, hooks={"before_calc": _before_calc}, extra_fn=_extra_for)
            except Exception:
                continue
        exp = S.export_plan(sess)
        lp = S.lean_plan(exp)
        idx_of_uuid = {v: u for u, v in exp["_step_uuid_to_idx"].items()}
        # baseline: without a fault the run returns
        rr0 = S.run_session(sess, "sync", timeout=BOUND_S)
        if rr0.error is not None or rr0.timed_out:
            # plans that fail on their own (known defects of other properties) are not fault-enumeration material
            ctx.tag("skipped_plans_failing_without_fault", 1)
            continue
        baseline_ok: Dict[str, bool] = {"sync": True}

        def mode_ok(mode: str) -> bool:
            # fault enumeration only in modes in which the plan runs to completion without a fault (plans that fail on their
            # own in a mode - known defects of other properties - would raise their own error first)
            if mode not in baseline_ok:
                S.FAULTS.clear()
                GROUP_FAULTS.clear()
                b = S.run_session(sess, mode, timeout=BOUND_S)
                baseline_ok[mode] = b.error is None and not b.timed_out
                if not baseline_ok[mode]:
                    ctx.tag("mode_skipped_failing_without_fault", mode)
            return baseline_ok[mode]

        for i, st in enumerate(exp["steps"]):
            kinds = ["execute"]
            if st["kind"] == "fg":
                kinds += ["calc", "validate_output"] + (["validate_input"] if st["req"] else [])
            if ctx.quick:
                kinds = ctx.rng.sample(kinds, min(2, len(kinds)))
            for kind in kinds:
                if hangs >= HANG_CAP:
                    break
                for mode in ["sync", "thread"] + (["mp"] if ctx.rng.random() < (0.12 if ctx.quick else 0.3) else []):
                    if mode != "sync" and not mode_ok(mode):
                        continue
                    for stream in ([False, True] if ctx.rng.random() < 0.5 else [False]):
                        S.FAULTS.clear()
                        GROUP_FAULTS.clear()
                        if kind == "execute":
                            S.FAULTS[idx_of_uuid[i]] = "execute"
                            marker = f"VERIF-FAULT execute {idx_of_uuid[i]}"
                        else:
                            # a group-level fault hits every step of that group; restrict to plans where the group has one step
                            if sum(1 for s2 in exp["steps"] if s2.get("group") == st["group"]) != 1:
                                continue
                            GROUP_FAULTS[st["group"]] = kind
                            marker = f"VERIF-FAULT {kind} {st['group']}"
                        t0 = time.time()
                        rr = S.run_session(sess, mode, stream=stream, timeout=BOUND_S)
                        wall = time.time() - t0
                        obs = S.obs_of(exp, rr.events)
                        open_other = False
                        open_ = set()
                        for kk, j in obs:
                            if kk == "b":
                                open_.add(j)
                            else:
                                open_.discard(j)
                                if kk == "x" and open_:
                                    open_other = True
                        case = {"plan": S.canon_plan(exp), "fail_step": i, "kind": kind, "mode": mode, "stream": stream}
                        ctx.case("faults", case, i > 0 or open_other, mode=mode, kind=kind, stream=stream, step_kind=st["kind"])
                        if rr.timed_out:
                            hangs += 1
                            ctx.violation("faults", case, f"run with a failing step did not end within {BOUND_S}s (hang)", "timeout", "raise")
                        elif rr.error is None:
                            got = len(rr.yielded) if stream else (len(rr.results) if rr.results is not None else None)
                            ctx.violation("faults", case, f"run returned ({got} tables) although step {i} raised ({kind})", "returned", "raise")
                        elif marker not in rr.error:
                            fclass = "threading-overlapping-steps-on-shared-cfw" if (mode == "thread" and S.overlap_on_shared_fw(exp, rr.events)) else None
                            ctx.violation("faults", case, f"raised error does not carry the original message {marker!r}", rr.error[-300:], marker, finding_class=fclass)
                        ctx.tag("wall_s", "<1" if wall < 1 else "<5" if wall < 5 else ">=5")
                        if obs:
                            lean_reqs.append({"op": "C08.accepts", "steps": lp["steps"], "obs": obs})
                            metas.append((case, i, rr))
    S.FAULTS.clear()
    GROUP_FAULTS.clear()
    upload_and_api_faults(ctx)
    S.stop_flight_server()
    outs = ctx.lean.batch(lean_reqs)
    for rq, (case, i, rr), o in zip(lean_reqs, metas, outs):
        ctx.case("accepts", {"case": case, "obs": rq["obs"]}, case["fail_step"] > 0, acc_mode=case["mode"])
        if not o.get("ok"):
            ctx.disagree("accepts", {"case": case, "obs": rq["obs"]}, "observed trace", o)
            continue
        st = o["state"]
        failed_obs = [j for k_, j in rq["obs"] if k_ == "x"]
        if failed_obs:
            # the model: after a fail the next loop head raises the stored error and never returns
            if st["returned"] or st["raised"] is None or st["raised"] not in failed_obs:
                ctx.disagree("accepts", {"case": case, "obs": rq["obs"]}, {"failed": failed_obs, "error": (rr.error or "")[-120:]}, st)


def search(ctx: Ctx, broken: List[str]) -> None:
    run(ctx)


def replay(ctx: Ctx, body: Dict[str, Any]) -> None:
    run(ctx)
