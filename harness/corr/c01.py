"""C01 - every feature is computed once, and only after all of its inputs."""
from __future__ import annotations

import itertools
import threading
import time
from typing import Any, Dict, List, Optional, Set
from uuid import UUID

from harness.core import Ctx
from harness import fgfactory as F
from harness import schedlib as S

ASSUMPTIONS = [
    "step begin/end/fail events are observed by harness-side wrappers around Step.execute and by the generated groups' calculate_feature (CLOCK_MONOTONIC is system wide, so events of worker processes are ordered consistently)",
    "OS thread/process scheduling is sampled (seeded delays inside calculate_feature), not controlled; the theorems cover all interleavings of the model",
    "multiprocessing.Queue FIFO order and BaseManager proxies behave as documented",
]

DELAYS: Dict[str, float] = {}


def _delay_hook(cls: Any, data: Any, features: Any) -> None:
    d = DELAYS.get(cls.__name__)
    if d:
        time.sleep(d)


def gates_suite(ctx: Ctx) -> None:
    """Exhaustive differential of the four gate methods on a real ExecutionOrchestrator over a 4-uuid universe."""
    from mloda.core.runtime.run import ExecutionOrchestrator

    orch = ExecutionOrchestrator.__new__(ExecutionOrchestrator)
    orch._step_lock = threading.Lock()
    us = [UUID(int=i + 1) for i in range(4)]
    subsets = [[j for j in range(4) if m >> j & 1] for m in range(16)]
    reqs, impls = [], []
    stride = 1 if not ctx.quick else 1
    for req in subsets:
        for outs in subsets:
            for fin in subsets:
                for run in subsets:
                    r_, o_, f_, n_ = ({us[j] for j in x} for x in (req, outs, fin, run))
                    # outs is iterated by the code (next(iter(...))): pass the set's real iteration order to the model
                    outs_order = [us.index(u) for u in o_]
                    running = set(n_)
                    can = orch._can_run_step(set(r_), set(o_), set(f_), running)
                    running_after_can = sorted(us.index(u) for u in running)
                    done = orch._is_step_done(set(o_), set(f_))
                    try:
                        cur: Optional[bool] = orch.currently_running_step(set(o_), set(n_))
                    except StopIteration:
                        cur = None
                    f2, n2 = set(f_), set(n_)
                    orch._mark_step_as_finished(set(o_), f2, n2)
                    impl = {
                        "canRun": can,
                        "isStepDone": done,
                        "currentlyRunning": cur,
                        "finished": sorted(us.index(u) for u in f2),
                        "running": sorted(us.index(u) for u in n2),
                        "runningAfterCan": running_after_can,
                    }
                    reqs.append({"op": "C01.gates", "req": req, "outs": outs_order, "fin": fin, "run": run})
                    impls.append(impl)
    outs_l = ctx.lean.batch(reqs)
    for rq, im, o in zip(reqs, impls, outs_l):
        nontriv = bool(rq["outs"]) and (im["canRun"] or im["currentlyRunning"])
        ctx.case("gates", [rq["req"], rq["outs"], rq["fin"], rq["run"]], bool(nontriv))
        model = {"canRun": o.get("canRun"), "isStepDone": o.get("isStepDone"), "currentlyRunning": o.get("currentlyRunning"),
                 "finished": sorted(o.get("finished", [])), "running": sorted(o.get("running", []))}  # fmt: skip
        exp_after = sorted(set(rq["run"]) | set(rq["outs"])) if im["canRun"] else sorted(rq["run"])
        cmp_impl = {k: im[k] for k in model}
        if cmp_impl != model or im["runningAfterCan"] != exp_after:
            ctx.disagree("gates", rq, im, model)
        # oracle (set semantics the property needs): start only when all required are finished and nothing of it runs
        want = set(rq["req"]) <= set(rq["fin"]) and not (set(rq["outs"]) & set(rq["run"]))
        if im["canRun"] != want:
            ctx.violation("gates", rq, f"_can_run_step returned {im['canRun']} but required⊆finished ∧ outs∩running=∅ is {want}", im, want)
    ctx.tag("gates_exhaustive", True, len(reqs))


def analyse_run(ctx: Ctx, suite: str, spec: Dict[str, Any], exp: Dict[str, Any], mode: str, rr: S.RunResult, case: Any) -> Optional[str]:
    """Oracle written from the property text, evaluated on the observed events only."""
    steps = exp["steps"]
    prod: Dict[int, int] = {}
    for i, st in enumerate(steps):
        for u in st["outs"]:
            prod[u] = i
    parents = {c: ps for c, ps in exp["parents"]}

    def anc(u: int, acc: Set[int]) -> Set[int]:
        for p_ in parents.get(u, []):
            if p_ not in acc:
                acc.add(p_)
                anc(p_, acc)
        return acc

    obs = S.obs_of(exp, rr.events)
    t_begin: Dict[int, List[int]] = {}
    t_end: Dict[int, List[int]] = {}
    for pos, (k, i) in enumerate(obs):
        (t_begin if k == "b" else t_end if k == "f" else {}).setdefault(i, []).append(pos)
    overlapping = S.overlap_on_shared_fw(exp, rr.events)  # two feature-group steps open at once on one framework
    fclass = "threading-overlapping-steps-on-shared-cfw" if (mode == "thread" and overlapping) else None
    ok_run = rr.error is None and not rr.timed_out
    # (1) exactly once
    for i, st in enumerate(steps):
        n = len(t_begin.get(i, []))
        if n > 1 or (ok_run and n != 1):
            ctx.violation(suite, case, f"step {i} ({st.get('group')}:{st.get('features')}) began {n} times in mode {mode}", n, 1)
    # ... and every feature (uuid) belongs to exactly one step that began
    owners: Dict[int, List[int]] = {}
    for i, st in enumerate(steps):
        if st["kind"] == "fg":
            for u in st["outs"]:
                owners.setdefault(u, []).append(i)
    for u, own in owners.items():
        nb = sum(len(t_begin.get(i, [])) for i in own)
        if nb > 1 or len(own) > 1:
            ctx.violation(suite, case, f"feature {exp['names'].get(str(u), u)} was handed to a calculation {max(nb, len(own))} times (steps {own}, mode {mode})", nb, 1)
    calc = [e for e in rr.events if e.get("ev") == "begin"]
    seen: Dict[Any, int] = {}
    for e in calc:
        key = (e["group"], tuple(e["features"]), str(e.get("opts")))
        seen[key] = seen.get(key, 0) + 1
    # (2) after all ancestors have finished
    for i, st in enumerate(steps):
        if st["kind"] != "fg" or i not in t_begin:
            continue
        b = t_begin[i][0]
        for u in st["outs"]:
            for a in anc(u, set()):
                j = prod.get(a)
                if j is None:
                    ctx.violation(suite, case, f"ancestor uuid {a} of step {i} is produced by no step", None, None)
                    continue
                if j == i:
                    continue
                e_ = t_end.get(j, [])
                if not e_ or e_[0] > b:
                    ctx.violation(suite, case, f"step {i} began before its ancestor step {j} finished (mode {mode})", obs, None)
    # (3) columns of the direct parents are present in the data the calculation receives
    defs = {f: d for g in spec["groups"] for f, d in g["features"].items()}
    for e in calc:
        need: Set[str] = set()
        for f in e["features"]:
            need |= set(defs.get(f, {}).get("parents", []))
        missing = sorted(need - set(e.get("cols", [])))
        if missing:
            ctx.violation(suite, case, f"{e['group']} received data without parent columns {missing} (mode {mode})", e.get("cols"), sorted(need), finding_class=fclass)
    if rr.timed_out:
        ctx.violation(suite, case, f"run did not terminate within the watchdog in mode {mode}", None, None)
    # a run in which no step failed must return (nothing was injected here)
    if rr.error is not None and not any(k == "x" for k, _ in obs):
        ctx.violation(suite, case, f"run raised although no step failed (mode {mode}): {rr.error[-160:]}", rr.error[-300:], "return", finding_class=fclass)
    return fclass


def runs_suite(ctx: Ctx, n: int, modes: List[str]) -> None:
    specs = []
    lean_reqs = []
    metas = []
    for k in range(n):
        spec = S.gen_spec(ctx.rng, max_feats=ctx.rng.choice([3, 5, 8, 10]), frameworks=("pa",) if ctx.rng.random() < 0.6 else (ctx.rng.choice(["pd", "py"]),))
        if spec["roots"][0]["fw"] == "pa" and ctx.rng.random() < 0.4:
            S.add_declared_types(ctx.rng, spec)  # typed / untyped mixes inside one group (PyArrow only: C17 finding elsewhere)
        classes = S.build_classes(spec, hooks={"before_calc": _delay_hook})
        try:
            sess = S.prepare(spec, classes)
        except Exception as e:
            ctx.case("prepare", spec, False, outcome="rejected")
            ctx.violation("prepare", spec, f"link-free request over one root rejected at prepare: {e!r}"[:300])
            continue
        exp = S.export_plan(sess)
        lp = S.lean_plan(exp)
        nsteps = len(exp["steps"])
        ctx.tag("plan_steps", nsteps)
        lean_reqs.append({"op": "C01.planCheck", **lp})
        metas.append(("planCheck", spec, exp, None, None))
        for mode in modes:
            if mode == "mp" and ctx.rng.random() > (0.25 if ctx.quick else 0.5):
                continue
            DELAYS.clear()
            if mode != "sync":
                for g in spec["groups"] + spec["roots"]:
                    DELAYS[g["name"]] = ctx.rng.choice([0, 0, 0.002, 0.01, 0.02])
            rr = S.run_session(sess, mode, timeout=60)
            obs = S.obs_of(exp, rr.events)
            conc = False
            open_ = 0
            for kk, _ in obs:
                open_ += 1 if kk == "b" else -1
                conc = conc or open_ >= 2
            levels = len({(s.get("group")) for s in exp["steps"]}) < nsteps
            case = {"spec": spec, "mode": mode, "obs": obs}
            ctx.case("runs", {"spec": spec, "mode": mode, "order": [i for k_, i in obs if k_ == "b"]}, conc or levels, mode=mode, outcome="error" if rr.error else "ok", concurrent=conc)
            fclass = analyse_run(ctx, "runs", spec, exp, mode, rr, case)
            lean_reqs.append({"op": "C01.accepts", "steps": lp["steps"], "obs": obs})
            metas.append(("accepts", spec, exp, mode, None if (fclass and rr.error) else rr))
            if mode == "sync":
                fails = [i for k_, i in obs if k_ == "x"]
                lean_reqs.append({"op": "C01.syncRun", "steps": lp["steps"], "fails": fails})
                metas.append(("syncRun", spec, exp, mode, rr))
    outs = ctx.lean.batch(lean_reqs)
    for rq, (kind, spec, exp, mode, rr), o in zip(lean_reqs, metas, outs):
        if kind == "planCheck":
            ctx.case("planCheck", S.canon_plan(exp), len(exp["steps"]) >= 3)
            if not (o.get("nonempty") and o.get("disjoint") and o.get("ranked") and o.get("parentsCovered")):
                ctx.disagree("planCheck", {"spec": spec, "plan": S.lean_plan(exp)}, "real plan", o)
        elif kind == "accepts":
            if not o.get("ok"):
                ctx.disagree("accepts", {"spec": spec, "mode": mode, "obs": rq["obs"]}, "observed trace", o)
            elif rr is not None:
                st = o["state"]
                impl_ret = rr.error is None and not rr.timed_out
                if st["returned"] != impl_ret and not (rr.error and st["raised"] is None and not st["returned"]):
                    ctx.disagree("accepts", {"spec": spec, "mode": mode, "obs": rq["obs"]}, {"returned": impl_ret, "error": (rr.error or "")[-200:]}, st)
                if impl_ret and rr.results is not None and len(rr.results) != len(st["results"]):
                    ctx.disagree("accepts", {"spec": spec, "mode": mode}, {"n_results": len(rr.results)}, st)
        elif kind == "syncRun":
            order = [i for k_, i in rq_obs(rr, exp) if k_ == "b"]
            if order != o.get("begun") or (rr.error is None) != bool(o.get("returned")):
                ctx.disagree("syncRun", {"spec": spec}, {"begun": order, "returned": rr.error is None}, o)


def overlap_with_join_or_transform(exp: Dict[str, Any], events: List[Dict[str, Any]]) -> bool:
    """True when a JOIN or TRANSFORM step was open at the same time as another step that writes the same compute framework's object
    (feature-group step: its framework; join: the left framework; transform: the target framework).  Input class of
    F-C01-thread-join-step-overlap: the THREADING lost update with a join / transform step as one of the two writers."""
    steps = exp["steps"]

    def target(st: Dict[str, Any]) -> Any:
        return st.get("fw") if st["kind"] == "fg" else st.get("left") if st["kind"] == "join" else st.get("to")

    open_: Set[int] = set()
    for k, i in S.obs_of(exp, events):
        if k == "b":
            for j in open_:
                if target(steps[j]) == target(steps[i]) and (steps[i]["kind"] != "fg" or steps[j]["kind"] != "fg"):
                    return True
            open_.add(i)
        else:
            open_.discard(i)
    return False


def jd_split_step_no_join(spec: Dict[str, Any], exp: Dict[str, Any]) -> bool:
    """Input class of the finding F-C01-split-step-no-join (same mechanism as C02's F-C02-cfw-split-step-no-join): the needed features of
    the consumer group descend from BOTH sources, but no needed feature descends from both - every needed feature sits over one source
    only.  The planner then attaches the link to no consumer, plans no join step, and the one consumer step (all its features share
    group, options and framework) is handed a single source's object."""
    if any(st["kind"] == "join" for st in exp["steps"]):
        return False
    sd = S.jd_sides(spec)
    defs = {f: d for g in S.link_groups(spec) for f, d in g["features"].items()}
    cons = spec["consumer"]["features"]
    needed: Set[str] = set()
    todo = [r["name"] for r in spec["request"]]
    while todo:
        f = todo.pop()
        if f in needed or f not in defs:
            continue
        needed.add(f)
        todo += defs[f]["parents"]
    need_cons = [f for f in needed if f in cons]
    return len(need_cons) >= 2 and all(len(sd[f]) == 1 for f in need_cons) and len(set().union(*[sd[f] for f in need_cons])) == 2


def join_suite(ctx: Ctx, n: int, modes: List[str]) -> None:
    """A join in the middle of the DAG: the consumer of the join computes features over both sources and over one source only,
    and further groups run on top of it - the data of the joined object must survive until its last consumer has run."""
    lean_reqs = []
    metas = []
    for k in range(n):
        spec = S.gen_join_dag_spec(ctx.rng)
        try:
            sess = S.prepare_link(spec, hooks={"before_calc": _delay_hook})
        except Exception as e:
            ctx.tag("join_rejected_at_prepare", type(e).__name__)
            continue
        exp = S.export_plan(sess)
        lp = S.lean_plan(exp)
        view = {"groups": S.link_groups(spec)}
        split = jd_split_step_no_join(spec, exp)
        for mode in modes:
            if mode == "mp" and ctx.rng.random() > (0.2 if ctx.quick else 0.5):
                continue
            if split and mode != "sync":
                continue  # the known split-step class fails deterministically; its THREADING / MP runs only cost watchdog time
            DELAYS.clear()
            if mode != "sync":
                for g in view["groups"] + spec["sources"]:
                    DELAYS[g["name"]] = ctx.rng.choice([0, 0, 0.002, 0.01, 0.02])
            # requests in a known MULTIPROCESSING input class may spin until the watchdog: a short cap is enough to see that
            mp_known_shape = mode == "mp" and (S.jd_partial_right(spec) or S.jd_top_on_right_only(spec))
            rr = S.run_session(sess, mode, timeout=15 if mp_known_shape else 60)
            obs = S.obs_of(exp, rr.events)
            case = {"spec": spec, "mode": mode, "obs": obs}
            ctx.case("join_runs", {"spec": spec, "mode": mode, "order": [i for k_, i in obs if k_ == "b"]}, bool(spec["tops"]) or len(spec["consumer"]["features"]) > 1,
                     mode=mode, outcome="error" if rr.error else "ok", tops=len(spec["tops"]), partial_right=S.jd_partial_right(spec))  # fmt: skip
            known = None
            if jd_split_step_no_join(spec, exp):
                known = "consumer-step-over-two-sources-without-a-feature-over-both"
                if rr.error is None and not rr.timed_out:
                    ctx.tag("split_step_no_join_but_ok", mode)  # not expected: would mean the class predicate is too wide
            elif S.jd_top_on_right_only(spec):
                known = "join-consumer-right-only-feature-consumed-later"
            elif mode == "mp" and S.jd_partial_right(spec):
                known = "multiprocessing-join-consumer-with-right-only-feature"
            elif mode == "mp" and any(st["kind"] == "join" and "PythonDictFramework" in (st["left"], st["right"]) for st in exp["steps"]):
                known = "multiprocessing-join-on-python-dict"
            elif mode == "mp" and any(st["kind"] == "tfs" and st["from"] != "PyArrowTable" for st in exp["steps"]):
                known = "multiprocessing-transform-step-from-non-arrow-producer"
            elif mode == "mp" and S.mp_unuploaded_tfs_source(exp):
                known = "multiprocessing-transform-source-not-uploaded"
            elif mode == "thread" and overlap_with_join_or_transform(exp, rr.events):
                known = "threading-join-or-transform-step-overlaps-a-step-on-the-same-framework"
            if known and (rr.error or rr.timed_out):
                ctx.violation("join_runs", case, f"run of a join DAG failed in mode {mode}: {(rr.error or 'timeout')[-160:]}", (rr.error or "timeout")[-300:], "return", finding_class=known)
                continue
            analyse_run(ctx, "join_runs", view, exp, mode, rr, case)
            if not rr.error and not rr.timed_out:
                lean_reqs.append({"op": "C01.accepts", "steps": lp["steps"], "obs": obs})
                metas.append((spec, mode))
    DELAYS.clear()
    outs = ctx.lean.batch(lean_reqs)
    for rq, (spec, mode), o in zip(lean_reqs, metas, outs):
        if not o.get("ok") or not o["state"]["returned"]:
            ctx.disagree("join_accepts", {"spec": spec, "mode": mode, "obs": rq["obs"]}, "observed trace of a run that returned", o)


def rq_obs(rr: S.RunResult, exp: Dict[str, Any]) -> List[List[Any]]:
    return S.obs_of(exp, rr.events)


def witness_suite(ctx: Ctx) -> None:
    """The known THREADING lost update (two sibling groups writing one shared compute-framework object), forced by delays."""
    uid = F.uniq("")
    spec = {
        "roots": [{"name": f"WR{uid}", "cols": {f"a{uid}": [1, 2, 3]}, "fw": "pa"}],
        "groups": [
            {"name": f"WM{uid}", "fw": "pa", "features": {f"m{uid}": {"parents": [f"a{uid}"], "expr": ["add", ["col", f"a{uid}"], ["const", 1]]}}},
            {"name": f"WN{uid}", "fw": "pa", "features": {f"n{uid}": {"parents": [f"a{uid}"], "expr": ["mul", ["col", f"a{uid}"], ["const", 2]]}}},
            {"name": f"WZ{uid}", "fw": "pa", "features": {f"z{uid}": {"parents": [f"m{uid}", f"n{uid}"], "expr": ["add", ["col", f"m{uid}"], ["col", f"n{uid}"]]}}},
        ],
        "request": [{"name": f"z{uid}", "options": {}}],
    }
    classes = S.build_classes(spec, hooks={"before_calc": _delay_hook})
    sess = S.prepare(spec, classes)
    exp = S.export_plan(sess)
    for mode, delays in (("sync", {}), ("thread", {f"WM{uid}": 0.15, f"WN{uid}": 0.03})):
        DELAYS.clear()
        DELAYS.update(delays)
        rr = S.run_session(sess, mode)
        ctx.case("witness", {"spec": "M,N siblings on one root, Z consumes both", "mode": mode}, True, mode=mode, outcome="error" if rr.error else "ok")
        analyse_run(ctx, "witness", spec, exp, mode, rr, {"spec": spec, "mode": mode})
    DELAYS.clear()


def run(ctx: Ctx) -> None:
    ctx.extra["rule"] = (
        "gates: every (required, outs, finished, running) over a 4-uuid universe on a real ExecutionOrchestrator (exhaustive); "
        "runs: seeded request DAGs (1-10 derived features over 1-3 generated groups + one root group, diamonds/fan-in/fan-out, intra-group levels, "
        "option variants; and joins in the middle of the DAG: two sources, a consumer with features over both / one of them, groups on top) prepared with the real planner, exported, checked by the Lean plan predicates, executed in SYNC/THREADING/MULTIPROCESSING "
        "with seeded delays; the observed step event log must be accepted by the Lean transition system and satisfy the independent oracle; "
        "non-trivial = >=2 steps open at once or an intra-group level split"
    )
    gates_suite(ctx)
    witness_suite(ctx)
    runs_suite(ctx, ctx.budget(60, 1500), ["sync", "thread", "mp"])
    join_suite(ctx, ctx.budget(30, 600), ["sync", "thread", "mp"])
    S.stop_flight_server()


def search(ctx: Ctx, broken: List[str]) -> None:
    gates_suite(ctx)
    witness_suite(ctx)
    runs_suite(ctx, 200, ["sync", "thread", "mp"])
    join_suite(ctx, 100, ["sync", "thread", "mp"])
    S.stop_flight_server()


def replay(ctx: Ctx, body: Dict[str, Any]) -> None:
    run(ctx)
