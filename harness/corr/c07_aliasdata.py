"""C07 extension `aliasdata`: the caller's data objects are MUTABLE BUFFERS that are handed to several runs.

Input class (generated from ctx.rng, never replayed from a fixed example)
  payload   api_data = {"K": {column: values}} (or, source "root", the dict a root feature group returns from buffers it owns)
            whose column values are buffers owned by the caller: python list (control), numpy array (own buffer, view into a larger
            base array, read-only array), pandas Series, pyarrow array, tuple; on the python-dict framework also the single-row shape
            (scalars / arrays as the values of ONE row); columns whose cells are lists / dicts (nested objects); on pandas also a
            DataFrame as the value of the api key.  1-3 payload objects per case (different lengths / values), some with a failing flag.
  world     1-3 feature groups on ONE compute framework (pandas / python-dict / pyarrow): G1 over an api column, optionally G2 over G1's
            output (chain) and a sibling G3 over another api column.  Every group first NORMALISES ITS WORKING TABLE and then derives
            its output column from it.  Styles: pandas  loc[mask, col] = c, iloc / at assignment, loc[:, col] = clipped column,
            fillna / replace(inplace=True), plus controls (only adds a column, replaces the column object, copies the frame first);
            python-dict  row[col] = f(row[col]), row[col] *= c, plus controls; nested cells  cell.append / cell[0] = c / cell["x"] = c;
            pyarrow (immutable tables)  set_column / append_column.  A group may raise on a flagged row before or after its write.
  history   2-6 calls: run / stream_run (exhausted or closed after k tables) on ONE prepared session - with api_data omitted (the object
            stored at prepare), with an object that an earlier call already received, with new dicts around the SAME column buffers -
            interleaved with run_all and prepare+run calls that are handed the same objects (and the same Feature objects); SYNC and
            (for chains) THREADING.

Oracle (from the property text)
  (a) after EVERY call all payload objects of the case are bit-identical to the snapshot taken before the call: container types, key
      order, object identity of the column buffers, dtype, length, values, index, writeable flag, base array of a view;
  (b) every call returns what a fresh run_all with a fresh equal copy of the arguments returns (same child interpreter, new objects
      built from the case description);
  (c) every call returns what an independent reference evaluation of the case description gives for that call's payload (plain
      Python lists, nothing shared between calls) - values, number of rows, error kind;
  (d) a result that was already handed to the caller still has the same content after all later calls of the history.
Model: for cases that fit the Session model of C07 (one api-consuming group over the integer column, flat payload) every call is also
sent to the Lean driver (C07.history) with that call's payload and compared with the implementation.

Parent: generates and judges; children (`python -m harness.corr.c07_aliasdata --child`) only execute real mloda code.
"""
from __future__ import annotations

import json
import subprocess
import sys
import traceback
from concurrent.futures import ThreadPoolExecutor
from typing import Any, Dict, List, Optional, Set, Tuple

SUITES = {"aliasdata_history", "aliasdata_call"}

ASSUMPTIONS = [
    "aliasdata: one compute framework per case, SYNC and THREADING only (MULTIPROCESSING pickles the payload into workers; nothing a worker "
    "writes can reach the caller's buffers); THREADING only when the needed groups form a chain (sibling groups on one table race on the "
    "unchanged tree: C02/C06 finding); failing or early-closed streams in SYNC only, of an early-closed stream the number of tables is judged",
    "aliasdata: a requested api column is reported with the values the payload had (its table is collected when the api step ends, "
    "before any consumer group runs); each generated group has exactly one output feature and each existing column is normalised by at "
    "most one group, so the result of a call does not depend on the order of sibling steps",
    "aliasdata: error kinds are compared as an enum (flagRaised / other); numbers are compared as python numbers (integral floats = ints, "
    "NaN = null), the dtype of RESULT columns is not judged (the dtype of the caller's buffers is)",
    "aliasdata: the fresh-run oracle (b) is not evaluated for root-sourced cases (the buffers belong to the feature group class; a fresh "
    "run_all in the same interpreter reads the same buffers) - (a), (c), (d) are",
]

MARK = "@@C07ALIASDATA@@"
KEY = "K"

CLS_PYROW = ("python-dict-framework-single-row-api-payload(non-list-column-values)-is-used-as-the-working-row-and-an-in-place-group-"
             "writes-into-the-callers-dict")  # fmt: skip
CLS_FRAME = "pandas-framework-api-value-is-already-a-DataFrame-the-working-frame-is-the-callers-object-and-a-group-writes-in-place"
CLS_CELL = "list-or-dict-cell-objects-of-an-api-column-are-shared-with-the-working-table-and-a-group-mutates-a-cell-in-place"

FLAT_KINDS = ("list", "ndarray", "ndview", "ndro", "series", "paarray", "tuple")
SINGLE_ROW_KINDS = ("scalar", "rowarray", "rowseries")  # python-dict framework: values of ONE row
PD_INPLACE = ("loc_mask", "iloc_set", "at_set", "loc_col", "fillna", "replace")
PD_CONTROL = ("add_only", "replace_col", "copy_first")
PY_INPLACE = ("row_update", "row_aug", "add_inplace")
PY_CONTROL = ("copy_rows",)
PA_STYLES = ("set_column", "add_only")
CELL_INPLACE = ("cell_append", "cell_set", "cell_key")
CELL_CONTROL = ("cell_copy",)
WRITES_EXISTING = ("loc_mask", "iloc_set", "at_set", "loc_col", "fillna", "replace", "row_update", "row_aug") + CELL_INPLACE

# ======================================================================================
# case description helpers shared by child (real objects) and parent (reference evaluation)
# ======================================================================================


def needed_groups(c: Dict[str, Any]) -> List[Dict[str, Any]]:
    """groups that run for the request (requested outputs + the groups their sources come from), in dependency order"""
    by_out = {g["out"]: g for g in c["groups"]}
    need: Set[str] = set()
    todo = list(c["request"])
    while todo:
        n = todo.pop()
        g = by_out.get(n)
        if g is None or g["out"] in need:
            continue
        need.add(g["out"])
        todo.append(g["src"])
    return [g for g in c["groups"] if g["out"] in need]


def is_chain(c: Dict[str, Any]) -> bool:
    """at most one needed group reads the api table directly and at most one reads any group's output"""
    outs = {g["out"] for g in c["groups"]}
    need = needed_groups(c)
    return sum(1 for g in need if g["src"] not in outs) <= 1


def single_row(c: Dict[str, Any]) -> bool:
    return any(k in SINGLE_ROW_KINDS for k in c["kinds"].values())


# ======================================================================================
# child side: real objects, real mloda code
# ======================================================================================


def _err_enum(e: BaseException) -> str:
    s = repr(e) + str(e)
    if "flag set" in s:
        return "flagRaised"
    return "other:" + type(e).__name__ + ":" + str(e)[-200:]


def _num(v: Any, dtype: str) -> Any:
    if v is None:
        return float("nan")
    return int(v) if dtype == "int" else float(v)


def build_buffer(kind: str, dtype: str, vals: List[Any], keep: List[Any]) -> Any:
    """one column value of the payload; `keep` collects further caller-owned objects (base arrays of views)"""
    import numpy as np
    import pandas as pd
    import pyarrow as pa

    if dtype == "cells":  # nested: always a python list of list / dict cells
        return [dict(x) if isinstance(x, dict) else list(x) for x in vals]
    xs = [_num(v, dtype) for v in vals]
    npt = "int64" if dtype == "int" else "float64"
    if kind == "list":
        return xs
    if kind == "tuple":
        return tuple(xs)
    if kind in ("ndarray", "rowarray"):
        return np.array(xs, dtype=npt)
    if kind == "ndro":
        a = np.array(xs, dtype=npt)
        a.setflags(write=False)
        return a
    if kind == "ndview":
        base = np.array([77] + xs + [88], dtype=npt)
        keep.append(base)
        return base[1:-1]
    if kind in ("series", "rowseries"):
        return pd.Series(xs, dtype=npt)
    if kind == "paarray":
        return pa.array(xs, type=pa.int64() if dtype == "int" else pa.float64())
    if kind == "scalar":
        return xs[0]
    raise ValueError(kind)


def build_payload(c: Dict[str, Any], j: int) -> Tuple[Any, List[Any]]:
    """a NEW payload object for object j of the case: (api_data, further caller-owned objects)"""
    import pandas as pd

    keep: List[Any] = []
    o = c["objs"][j]
    inner = {col: build_buffer(c["kinds"][col], c["dtypes"][col], o[col], keep) for col in c["cols"]}
    if c["container"] == "frame":
        return {KEY: pd.DataFrame(inner)}, keep
    return {KEY: inner}, keep


def snap(x: Any, depth: int = 0) -> Any:
    """typed structural snapshot of a caller-owned object graph (values, dtype, length, identity of mutable members)"""
    import math
    import numpy as np
    import pandas as pd
    import pyarrow as pa

    def val(v: Any) -> Any:
        if isinstance(v, float) and math.isnan(v):
            return "nan"
        return v

    if depth > 8:
        return "..."
    if isinstance(x, np.ndarray):
        return {"t": "ndarray", "id": id(x), "dtype": str(x.dtype), "shape": list(x.shape), "writeable": bool(x.flags.writeable), "v": [val(v) for v in x.tolist()]}
    if isinstance(x, pd.Series):
        return {"t": "Series", "id": id(x), "dtype": str(x.dtype), "name": None if x.name is None else str(x.name), "index": [str(i) for i in x.index.tolist()],
                "v": [val(v) for v in x.tolist()]}  # fmt: skip
    if isinstance(x, pd.DataFrame):
        return {"t": "DataFrame", "id": id(x), "columns": [str(k) for k in x.columns], "dtypes": [str(d) for d in x.dtypes], "index": [str(i) for i in x.index.tolist()],
                "v": {str(k): [snap(v, depth + 1) if isinstance(v, (list, dict)) else val(v) for v in x[k].tolist()] for k in x.columns}}  # fmt: skip
    if isinstance(x, (pa.Array, pa.ChunkedArray)):
        return {"t": type(x).__name__, "id": id(x), "type": str(x.type), "v": [val(v) for v in x.to_pylist()]}
    if isinstance(x, dict):
        return {"t": "dict", "id": id(x), "keys": [str(k) for k in x.keys()], "v": {str(k): snap(v, depth + 1) for k, v in x.items()}}
    if isinstance(x, (list, tuple)):
        return {"t": type(x).__name__, "id": id(x), "v": [snap(v, depth + 1) for v in x]}
    if isinstance(x, np.generic):
        return {"t": type(x).__name__, "v": val(x.item())}
    if x is None or isinstance(x, (bool, int, float, str)):
        return {"t": type(x).__name__, "v": val(x)}
    return {"t": type(x).__name__, "id": id(x)}


def canon_cell(v: Any) -> Any:
    import math
    import numpy as np
    import pandas as pd
    import pyarrow as pa

    if v is None or v is pd.NA or v is pd.NaT:
        return None
    if isinstance(v, (pa.Array, pa.ChunkedArray)):
        return [canon_cell(x) for x in v.to_pylist()]
    if isinstance(v, (np.ndarray, pd.Series)):
        return [canon_cell(x) for x in v.tolist()]
    if isinstance(v, (list, tuple)):
        return [canon_cell(x) for x in v]
    if isinstance(v, dict):
        return {str(k): canon_cell(x) for k, x in v.items()}
    if isinstance(v, np.generic):
        v = v.item()
    if isinstance(v, bool):
        return int(v)
    if isinstance(v, float):
        if math.isnan(v):
            return None
        if v == int(v) and abs(v) < 2**53:
            return int(v)
    return v


def canon_table(t: Any) -> List[Any]:
    import pyarrow as pa

    if isinstance(t, pa.Table):
        cols = {c: [canon_cell(v) for v in t.column(c).to_pylist()] for c in t.column_names}
    elif hasattr(t, "columns") and hasattr(t, "to_dict"):
        cols = {str(c): [canon_cell(v) for v in t[c].tolist()] for c in t.columns}
    elif isinstance(t, list):
        names: List[str] = []
        for r in t:
            for k in r:
                if k not in names:
                    names.append(k)
        cols = {str(k): [canon_cell(r.get(k)) for r in t] for k in names}
    else:
        raise TypeError(f"unknown result table type {type(t)}")
    return sorted([k, v] for k, v in cols.items())


def canon_tables(res: List[Any]) -> List[Any]:
    return sorted((canon_table(r) for r in res), key=lambda t: json.dumps(t, sort_keys=True, default=str))


# ---- the generated feature groups -----------------------------------------------------------------------------------


def _flagged(data: Any) -> bool:
    for t in canon_table(data):
        if t[0] == "flag":
            flat: List[Any] = []
            for cell in t[1]:
                flat += cell if isinstance(cell, list) else [cell]
            return any(v == 1 for v in flat)
    return False


def _normalise(fwn: str, style: str, data: Any, src: str, p: Dict[str, Any]) -> Any:
    """the group's in-place preparation of its working table (returns the table it goes on with)"""
    if fwn == "pd":
        if style == "copy_first":
            data = data.copy()
            data.loc[data[src] < p["t"], src] = p["c"]
        elif style == "loc_mask":
            data.loc[data[src] < p["t"], src] = p["c"]
        elif style == "iloc_set":
            data.iloc[p["pos"] % len(data), data.columns.get_loc(src)] = p["c"]
        elif style == "at_set":
            data.at[data.index[p["pos"] % len(data)], src] = p["c"]
        elif style == "loc_col":
            data.loc[:, src] = data[src].clip(lower=p["t"])
        elif style == "fillna":
            data.fillna({src: p["c"]}, inplace=True)
        elif style == "replace":
            data.replace({src: {p["a"]: p["c"]}}, inplace=True)
        elif style == "replace_col":
            data[src] = data[src] * p["m"]
        elif style == "cell_append":
            for cell in data[src]:
                cell.append(p["c"])
        elif style == "cell_set":
            for cell in data[src]:
                cell[0] = p["c"]
        elif style == "cell_key":
            for cell in data[src]:
                cell["x"] = p["c"]
        elif style == "cell_copy":
            data[src] = [list(cell) + [p["c"]] for cell in data[src]]
        return data
    if fwn == "py":
        if style == "copy_rows":
            data = [dict(r) for r in data]
            for r in data:
                r[src] = r[src] * p["m"] + p["k0"]
        elif style == "row_update":
            for r in data:
                r[src] = r[src] * p["m"] + p["k0"]
        elif style == "row_aug":
            for r in data:
                r[src] *= p["m"]
        elif style == "cell_append":
            for r in data:
                r[src].append(p["c"])
        elif style == "cell_set":
            for r in data:
                r[src][0] = p["c"]
        elif style == "cell_key":
            for r in data:
                r[src]["x"] = p["c"]
        elif style == "cell_copy":
            for r in data:
                r[src] = list(r[src]) + [p["c"]]
        return data
    # pyarrow: tables are immutable, a group can only build a new table
    import pyarrow.compute as pc

    if style == "set_column":
        data = data.set_column(data.column_names.index(src), src, pc.multiply(data[src], p["m"]))
    return data


def _cell_total(cell: Any) -> Any:
    return sum(cell.values()) if isinstance(cell, dict) else sum(cell)


def _add_output(fwn: str, data: Any, g: Dict[str, Any]) -> Any:
    src, out, k = g["src"], g["out"], g["p"]["k"]
    cells = g["style"] in CELL_INPLACE + CELL_CONTROL
    if fwn == "pd":
        data[out] = [_cell_total(cell) + k for cell in data[src]] if cells else data[src] + k
        return data
    if fwn == "py":
        for r in data:
            r[out] = (_cell_total(r[src]) + k) if cells else (r[src] + k)
        return data
    import pyarrow.compute as pc

    return data.append_column(out, pc.add(data[src], k))


def make_groups(c: Dict[str, Any], fw: Any) -> Set[Any]:
    from harness import fgfactory as F
    from mloda.user import Feature

    fwn = c["fw"]
    classes: Set[Any] = set()
    for g in c["groups"]:

        def input_features(self: Any, options: Any, feature_name: Any, g: Dict[str, Any] = g) -> Any:
            return {Feature(g["src"])} | ({Feature("flag")} if g["fail"] != "never" else set())

        def calculate_feature(cls: Any, data: Any, features: Any, g: Dict[str, Any] = g) -> Any:
            bad = g["fail"] != "never" and _flagged(data)
            if bad and g["fail"] == "before":
                raise RuntimeError("flag set")
            data = _normalise(fwn, g["style"], data, g["src"], g["p"])
            data = _add_output(fwn, data, g)
            if bad:
                raise RuntimeError("flag set")
            return data

        classes.add(F.make_group(F.uniq(f"AD07g{g['id']}_"), derived={g["out"]: {"parents": [], "expr": ["const", 0]}}, frameworks={fw},
                                 extra={"input_features": input_features, "calculate_feature": classmethod(calculate_feature)}))  # fmt: skip
    return classes


def make_root(c: Dict[str, Any], fw: Any) -> Tuple[Any, Dict[str, Any], List[Any]]:
    """a root feature group that returns {column: buffer} from buffers its class owns"""
    from harness import fgfactory as F
    from mloda.core.abstract_plugins.components.input_data.creator.data_creator import DataCreator

    keep: List[Any] = []
    o = c["objs"][0]
    bufs = {col: build_buffer(c["kinds"][col], c["dtypes"][col], o[col], keep) for col in c["cols"]}
    cols = set(c["cols"])

    def calculate_feature(cls: Any, data: Any, features: Any) -> Any:
        return {n: cls.BUF[n] for n in sorted(features.get_all_names())}

    R = F.make_group(F.uniq("AD07r_"), root_data={col: [] for col in c["cols"]}, frameworks={fw},
                     extra={"calculate_feature": classmethod(calculate_feature), "BUF": bufs, "input_data": classmethod(lambda cls: DataCreator(cols))})  # fmt: skip
    return R, bufs, keep


_WORLDS: Dict[str, Any] = {}


def ch_case(c: Dict[str, Any]) -> Dict[str, Any]:
    from harness import fgfactory as F
    from harness.corr.c07 import _snap_diff
    from mloda.user import mloda, Feature, ParallelizationMode
    from mloda.provider import ApiDataFeatureGroup

    fw = F.FW_SHORT[c["fw"]]
    root = c["source"] == "root"
    if root:
        R, bufs, keep0 = make_root(c, fw)
        pc = F.collector(make_groups(c, fw) | {R})
        objs: List[Any] = [None]
        watched: List[Any] = [[bufs, keep0]]
    else:
        wkey = json.dumps([c["fw"], c["groups"]], sort_keys=True)
        if wkey not in _WORLDS:
            _WORLDS[wkey] = F.collector(make_groups(c, fw) | {ApiDataFeatureGroup})
        pc = _WORLDS[wkey]
        built = [build_payload(c, j) for j in range(len(c["objs"]))]
        objs = [b[0] for b in built]
        watched = [[b[0], b[1]] for b in built]

    def feats() -> List[Any]:
        return [Feature(n) if i % 2 == 0 else n for i, n in enumerate(c["request"])]

    shared_feats = feats()

    def modes_of(op: Dict[str, Any]) -> Any:
        return {ParallelizationMode.THREADING} if op["mode"] == "threading" else {ParallelizationMode.SYNC}

    def arg_of(op: Dict[str, Any], payloads: List[Any]) -> Any:
        if root or op["obj"] is None:
            return None
        x = payloads[op["obj"]]
        if op.get("wrap") == "rewrap":  # new dicts around the SAME column buffers
            return {KEY: dict(x[KEY])}
        return x

    def execute(session: Any, op: Dict[str, Any], arg: Any, stored: Any, fts: List[Any], native: Optional[List[Any]]) -> Dict[str, Any]:
        kw = {} if root else {"api_data": arg}
        try:
            if op["op"] == "run":
                res = session.run(parallelization_modes=modes_of(op), **kw)
            elif op["op"] == "run_all":
                res = mloda.run_all(fts, compute_frameworks={fw}, plugin_collector=pc, parallelization_modes=modes_of(op), **({} if root else {"api_data": arg if arg is not None else stored}))
            elif op["op"] == "prepare_run":
                a = arg if arg is not None else stored
                s2 = mloda.prepare(fts, compute_frameworks={fw}, plugin_collector=pc, **({} if root else {"api_data": a}))
                res = s2.run(parallelization_modes=modes_of(op), **({} if root else {"api_data": a}))
            else:
                items: List[Any] = []
                err = None
                gen = session.stream_run(parallelization_modes=modes_of(op), **kw)
                try:
                    if op["consumer"]["t"] == "exhaust":
                        for r in gen:
                            items.append(r)
                    else:
                        stopped = False
                        for _ in range(op["consumer"]["k"]):
                            try:
                                items.append(next(gen))
                            except StopIteration:
                                stopped = True
                                break
                        if not stopped:
                            gen.close()
                except Exception as e:
                    err = _err_enum(e)
                if native is not None:
                    native.append(items)
                return {"streamed": canon_tables(items), "err": err}
        except Exception as e:
            if native is not None:
                native.append(None)
            return {"raised": _err_enum(e)}
        if native is not None:
            native.append(res)
        return {"tables": canon_tables(res)}

    stored = None if root else objs[c["stored"]]
    try:
        session = mloda.prepare(shared_feats, compute_frameworks={fw}, plugin_collector=pc, **({} if root else {"api_data": stored}))
    except Exception as e:
        return {"prepare_err": _err_enum(e)}
    outcomes: List[Any] = []
    fresh: List[Any] = []
    modified: List[Any] = []
    native: List[Any] = []
    at_receipt: List[Any] = []
    for op in c["ops"]:
        before = [snap(w) for w in watched]
        out = execute(session, op, arg_of(op, objs), stored, shared_feats, native)
        after = [snap(w) for w in watched]
        outcomes.append(out)
        at_receipt.append(json.dumps(out, sort_keys=True, default=str))
        modified.append({str(j): [d[:300] for d in _snap_diff(b, a)[:5]] for j, (b, a) in enumerate(zip(before, after)) if b != a})
        if root:
            fresh.append(None)
            continue
        # fresh-arguments oracle: new equal payload objects, new feature objects, a new session
        fobjs = [build_payload(c, j)[0] for j in range(len(c["objs"]))]
        fstored = fobjs[c["stored"]]
        op2 = dict(op)
        if op["op"] in ("run", "run_all", "prepare_run"):
            op2["op"] = "run_all"
            fresh.append(execute(None, op2, arg_of(op2, fobjs), fstored, feats(), None))
        else:
            a2 = arg_of(op2, fobjs)
            try:
                s2 = mloda.prepare(feats(), compute_frameworks={fw}, plugin_collector=pc, api_data=a2 if a2 is not None else fstored)
                fresh.append(execute(s2, op2, a2 if a2 is not None else fstored, fstored, feats(), None))
            except Exception as e:
                fresh.append({"raised": _err_enum(e)})
    # (d) results handed out earlier must still be what they were
    changed: List[Any] = []
    for k, (op, nat, rec) in enumerate(zip(c["ops"], native, at_receipt)):
        if nat is None:
            continue
        try:
            now = json.dumps({"streamed": canon_tables(nat), "err": json.loads(rec).get("err")} if op["op"] == "stream" else {"tables": canon_tables(nat)}, sort_keys=True, default=str)
        except Exception as e:  # a result object that cannot be read any more
            now = "unreadable:" + _err_enum(e)
        if now != rec:
            changed.append({"index": k, "was": rec[:400], "now": now[:400]})
    return {"outcomes": outcomes, "fresh": fresh, "modified": modified, "results_changed": changed}


def child_main() -> None:
    import logging
    import threading
    import warnings

    logging.disable(logging.CRITICAL)
    warnings.simplefilter("ignore")
    threading.excepthook = lambda args: None
    batch = json.load(sys.stdin)
    outs = []
    for c in batch:
        try:
            o = ch_case(c)
        except BaseException:
            o = {"crash": traceback.format_exc()[-1500:]}
        outs.append(o)
    sys.stdout.write("\n" + MARK + json.dumps(outs, default=str) + "\n")
    sys.stdout.flush()


# ======================================================================================
# parent side: generator, reference evaluation, judge
# ======================================================================================


def run_children(batches: List[List[Dict[str, Any]]]) -> List[List[Dict[str, Any]]]:
    from harness.core import env_for_subprocess, VERIF

    def one(i: int) -> List[Dict[str, Any]]:
        if not batches[i]:
            return []
        p = subprocess.run(["/venv/bin/python", "-m", "harness.corr.c07_aliasdata", "--child"], input=json.dumps(batches[i]), cwd=str(VERIF), env=env_for_subprocess(),
                           stdout=subprocess.PIPE, stderr=subprocess.PIPE, text=True, timeout=1200)  # fmt: skip
        if MARK not in p.stdout:
            raise RuntimeError(f"C07 aliasdata child {i} produced no result rc={p.returncode}\n{p.stderr[-1500:]}")
        return json.loads(p.stdout.split(MARK, 1)[1])

    with ThreadPoolExecutor(max_workers=max(1, len(batches))) as ex:
        return list(ex.map(one, range(len(batches))))


def _half(rng: Any) -> float:
    return rng.randint(-6, 18) / 2.0


def gen_group_style(rng: Any, fw: str, dtype: str, cellkind: Optional[str]) -> Tuple[str, Dict[str, Any]]:
    num = (lambda: rng.randint(0, 9)) if dtype == "int" else (lambda: _half(rng))
    p: Dict[str, Any] = {"k": rng.randint(1, 9)}
    if dtype == "cells":
        # a group that mutates the nested cell OBJECTS it was handed (append / item assignment on a list or dict cell) changes objects
        # the caller still references by its own doing; mloda does not promise a deep copy of cells - only the copying control is generated
        style = "cell_copy"
        p["c"] = rng.randint(10, 19)
        return style, p
    if fw == "pd":
        style = rng.choice(["loc_mask"] * 5 + ["iloc_set"] * 3 + ["at_set"] * 2 + ["loc_col"] * 2 + ["replace"] * 2 + (["fillna"] * 3 if dtype == "float" else []) + ["add_only", "replace_col", "copy_first"])
        p.update({"t": num(), "c": num(), "pos": rng.randint(0, 7), "a": num(), "m": rng.randint(2, 4)})
        return style, p
    if fw == "py":
        style = rng.choice(["row_update"] * 4 + ["row_aug"] * 3 + ["add_inplace"] * 2 + ["copy_rows"])
        p.update({"m": rng.randint(2, 4), "k0": rng.randint(0, 5)})
        return style, p
    p.update({"m": rng.randint(2, 4)})
    return rng.choice(["set_column", "set_column", "add_only"]), p


def gen_vals(rng: Any, c: Dict[str, Any], n: int, bad: bool, nan_in_w: bool) -> Dict[str, Any]:
    o: Dict[str, Any] = {}
    for col in c["cols"]:
        dt = c["dtypes"][col]
        if col == "flag":
            o[col] = [1 if (bad and i == n - 1) else 0 for i in range(n)]
        elif dt == "int":
            o[col] = [rng.randint(0, 9) for _ in range(n)]
        elif dt == "float":
            o[col] = [(None if (nan_in_w and rng.random() < 0.35) else _half(rng)) for _ in range(n)]
        elif c["cellkind"] == "dict":
            o[col] = [{"x": rng.randint(0, 5), "y": rng.randint(0, 5)} for _ in range(n)]
        else:
            o[col] = [[rng.randint(0, 5) for _ in range(rng.randint(1, 3))] for _ in range(n)]
    return o


def gen_case(rng: Any) -> Dict[str, Any]:
    fw = rng.choice(["pd"] * 11 + ["py"] * 6 + ["pa"] * 3)
    source = "root" if rng.random() < 0.14 else "api"
    # a DataFrame as api value is outside the annotated domain of api_data (Dict[str, Dict[str, Any]]): not generated
    container = "dict"
    nested = fw in ("pd", "py") and source == "api" and rng.random() < 0.12
    cols = ["v", "w", "flag"] + (["n"] if nested else [])
    dtypes = {"v": "int", "w": "float", "flag": "int", "n": "cells"}
    c: Dict[str, Any] = {"kind": "aliasdata", "fw": fw, "source": source, "container": container, "cols": cols, "dtypes": {k: dtypes[k] for k in cols},
                         "cellkind": ("list" if nested else None)}  # fmt: skip
    # ---- buffer kinds
    kinds: Dict[str, str] = {}
    if fw == "py":
        one = rng.choice(["scalar", "rowarray", "rowseries"]) if (source == "api" and not nested and rng.random() < 0.25) else "list"
        kinds = {col: one for col in cols}
    elif container == "frame":
        kinds = {col: "list" for col in cols}
    else:
        pool = ["ndarray"] * 8 + ["list"] * 3 + ["series"] * 3 + ["paarray"] * 2 + ["ndview"] * 2 + ["tuple", "ndro"]
        if source == "root":
            pool = [k for k in pool if k != "tuple"]
        kinds = {col: rng.choice(pool) for col in cols}
        kinds["flag"] = rng.choice(["list", "ndarray"])
    if nested:
        kinds["n"] = "list"
    c["kinds"] = kinds
    # ---- groups
    groups: List[Dict[str, Any]] = []
    first_src = "n" if (nested and rng.random() < 0.75) else rng.choice(["v", "v", "w"])
    can_fail = source == "api" and rng.random() < 0.45
    st, p = gen_group_style(rng, fw, dtypes[first_src], c["cellkind"])
    groups.append({"id": 1, "src": first_src, "out": "g1", "style": st, "p": p, "fail": rng.choice(["before", "after", "after"]) if can_fail else "never"})
    g1_dtype = "int" if first_src in ("v", "n") else "float"
    if rng.random() < 0.4:
        st, p = gen_group_style(rng, fw, g1_dtype, None)
        if st == "fillna":
            st = "loc_mask"
        groups.append({"id": 2, "src": "g1", "out": "g2", "style": st, "p": p, "fail": "never"})
    if rng.random() < 0.25:
        other = rng.choice([x for x in ("v", "w") if x != first_src])
        st, p = gen_group_style(rng, fw, dtypes[other], None)
        groups.append({"id": 3, "src": other, "out": "g3", "style": st, "p": p, "fail": rng.choice(["before", "after"]) if (can_fail and rng.random() < 0.3) else "never"})
    c["groups"] = groups
    # ---- request
    outs = [g["out"] for g in groups]
    req = {rng.choice(outs[: 2 if len(outs) > 1 and outs[1] == "g2" else 1])}
    for o in outs:
        if rng.random() < 0.5:
            req.add(o)
    if rng.random() < 0.3:
        req.add(rng.choice(["v", "w"]))
    request = sorted(req)
    rng.shuffle(request)
    c["request"] = request
    if kinds["v"] in ("rowarray", "rowseries"):
        # one row whose cells are arrays: `row[col] *= m` writes into the array object, which the table already collected for a REQUESTED
        # column shares with the working row (what a collected table shares with the working table is C03's subject, not C07's)
        # ... and for any column it is the GROUP that mutates a buffer object it was handed as a cell (like append on a list cell): mloda
        # does not promise a deep copy of cells, so `row_aug` is only generated for scalar cells
        for g in groups:
            if g["style"] == "row_aug":
                g["style"] = "row_update"
    need = needed_groups(c)
    # ---- payload objects
    uses_fillna = any(g["style"] == "fillna" and g["src"] == "w" for g in groups)
    nobj = 1 if source == "root" else rng.choice([1, 2, 2, 3])
    objs = []
    fails = any(g["fail"] != "never" for g in need)
    for j in range(nobj):
        n = 1 if kinds["v"] == "scalar" else rng.randint(1, 5)
        bad = fails and j > 0 and rng.random() < 0.4
        objs.append(gen_vals(rng, c, n, bad, fw in ("pd", "pa") and (uses_fillna or rng.random() < 0.1)))
    c["objs"] = objs
    c["stored"] = 0
    # ---- history
    chain = is_chain(c)
    ntab = len({g["out"] for g in need if g["out"] in request}) + (1 if any(r in ("v", "w") for r in request) else 0)
    ops: List[Dict[str, Any]] = []
    used: List[int] = []
    for _ in range(rng.randint(2, 6)):
        kind = rng.choice(["run"] * 8 + ["stream"] * 5 + ["run_all"] * 4 + ["prepare_run"] * 3)
        if used and rng.random() < 0.6:
            obj: Optional[int] = rng.choice(used)
        else:
            obj = rng.randrange(nobj)
        wrap = "rewrap" if (source == "api" and container == "dict" and rng.random() < 0.2) else "same"
        if kind in ("run", "stream") and rng.random() < 0.25:
            obj, wrap = None, "same"  # omitted api_data: the session hands the object stored at prepare to the run
        eff = c["stored"] if obj is None else obj
        bad = 1 in objs[eff]["flag"] and fails
        mode = "threading" if (chain and rng.random() < 0.2) else "sync"
        op: Dict[str, Any] = {"op": kind, "obj": obj, "wrap": wrap, "mode": mode}
        if kind == "stream":
            t = "exhaust" if (bad or rng.random() < 0.65) else "close"
            if bad or t != "exhaust":
                op["mode"] = "sync"
            op["consumer"] = {"t": t, "k": rng.randint(0, ntab + 1)}
        used.append(eff)
        ops.append(op)
    if len(set(used)) == len(used):  # make sure one object is handed to two calls
        ops[-1]["obj"] = used[0]
        if ops[-1]["op"] == "stream":
            bad = 1 in objs[used[0]]["flag"] and fails
            if bad:
                ops[-1]["consumer"]["t"] = "exhaust"
        used[-1] = used[0]
    c["ops"] = ops
    return c


# ---- reference evaluation (case description only: plain lists, nothing shared between calls) ------------------------


def _ref_norm(style: str, x: List[Any], p: Dict[str, Any]) -> List[Any]:
    lt = lambda a, b: a is not None and a < b  # noqa: E731  (comparisons with NaN are false)
    if style in ("loc_mask", "copy_first"):
        return [p["c"] if lt(v, p["t"]) else v for v in x]
    if style in ("iloc_set", "at_set"):
        y = list(x)
        y[p["pos"] % len(y)] = p["c"]
        return y
    if style == "loc_col":
        return [v if v is None else max(v, p["t"]) for v in x]
    if style == "fillna":
        return [p["c"] if v is None else v for v in x]
    if style == "replace":
        return [p["c"] if (v is not None and v == p["a"]) else v for v in x]
    if style in ("replace_col", "row_aug", "set_column"):
        return [None if v is None else v * p["m"] for v in x]
    if style in ("row_update", "copy_rows"):
        return [None if v is None else v * p["m"] + p["k0"] for v in x]
    if style in ("cell_append", "cell_copy"):
        return [list(cell) + [p["c"]] for cell in x]
    if style == "cell_set":
        return [[p["c"]] + list(cell[1:]) for cell in x]
    if style == "cell_key":
        return [dict(cell, x=p["c"]) for cell in x]
    return list(x)  # add_only / add_inplace


def _ref_num(v: Any) -> Any:
    if isinstance(v, float) and v == int(v):
        return int(v)
    return v


def reference(c: Dict[str, Any], j: int) -> Dict[str, Any]:
    """what one call with payload object j must give: {"tables": [...]} or {"raised": kind}"""
    o = c["objs"][j]
    need = needed_groups(c)
    if 1 in o["flag"] and any(g["fail"] != "never" for g in need):
        return {"raised": "flagRaised"}
    cols: Dict[str, List[Any]] = {k: [dict(x) if isinstance(x, dict) else (list(x) if isinstance(x, list) else x) for x in v] for k, v in o.items()}
    one_row_cells = c["fw"] == "py" and c["kinds"]["v"] in ("rowarray", "rowseries")

    def shape(vals: List[Any]) -> List[Any]:
        vals = [_ref_num(v) for v in vals]
        return [vals] if one_row_cells else vals

    tables: List[Any] = []
    api_req = sorted(n for n in c["request"] if n in ("v", "w"))
    if api_req:
        tables.append(sorted([n, shape(o[n])] for n in api_req))
    for g in need:
        x = _ref_norm(g["style"], cols[g["src"]], g["p"])
        cols[g["src"]] = x
        if g["style"] in CELL_INPLACE + CELL_CONTROL:
            cols[g["out"]] = [(sum(cell.values()) if isinstance(cell, dict) else sum(cell)) + g["p"]["k"] for cell in x]
        else:
            cols[g["out"]] = [None if v is None else v + g["p"]["k"] for v in x]
        if g["out"] in c["request"]:
            tables.append([[g["out"], shape(cols[g["out"]])]])
    return {"tables": sorted(tables, key=lambda t: json.dumps(t, sort_keys=True, default=str))}


def finding_class(c: Dict[str, Any]) -> Optional[str]:
    """narrow classes of genuine defects of the unchanged tree (decided on the case description only)"""
    if c["source"] != "api":
        return None
    styles = [g["style"] for g in needed_groups(c)]
    if c["fw"] == "py" and single_row(c) and any(s in PY_INPLACE for s in styles):
        return CLS_PYROW
    if c["fw"] == "pd" and c["container"] == "frame" and any(s not in ("copy_first",) for s in styles):
        return CLS_FRAME
    if c["fw"] in ("pd", "py") and any(s in CELL_INPLACE for s in styles):
        return CLS_CELL
    return None


def same_outcome(op: Dict[str, Any], a: Dict[str, Any], b: Dict[str, Any]) -> bool:
    ka = {k for k in a if k in ("tables", "raised", "streamed")}
    if ka != {k for k in b if k in ("tables", "raised", "streamed")}:
        return False
    if "tables" in a:
        return bool(a["tables"] == b["tables"])
    if "raised" in a:
        return bool(a["raised"] == b["raised"] or (a["raised"].startswith("other") and b["raised"].startswith("other")))
    if a["err"] != b["err"] and not (str(a["err"]).startswith("other") and str(b["err"]).startswith("other")):
        return False
    if op["consumer"]["t"] == "exhaust" and a["err"] is None:
        return bool(a["streamed"] == b["streamed"])
    return len(a["streamed"]) == len(b["streamed"])


def model_eligible(c: Dict[str, Any]) -> bool:
    need = needed_groups(c)
    return (c["source"] == "api" and c["container"] == "dict" and not single_row(c) and len(need) == 1 and need[0]["src"] == "v"
            and c["request"] == [need[0]["out"]])  # fmt: skip


def model_requests(c: Dict[str, Any]) -> List[Dict[str, Any]]:
    """the case as histories of the Session model: the group is `api column + k` over the (reference-)normalised payload of each call"""
    g = needed_groups(c)[0]
    plan = [{"id": 4, "kind": {"t": "apiRoot"}, "requested": False}, {"id": 0, "kind": {"t": "api", "add": g["p"]["k"]}, "requested": True}]

    def data(j: int) -> Dict[str, Any]:
        o = c["objs"][j]
        return {"v": _ref_norm(g["style"], o["v"], g["p"]), "flag": list(o["flag"]) if g["fail"] != "never" else [0] * len(o["v"])}

    def mop(op: Dict[str, Any], as_run: bool) -> Dict[str, Any]:
        d = None if op["obj"] is None else data(op["obj"])
        if as_run:
            return {"op": "run", "d": data(c["stored"] if op["obj"] is None else op["obj"]), "mode": op["mode"]}
        return {"op": op["op"], "d": d, "mode": op["mode"], **({"consumer": op["consumer"]} if op["op"] == "stream" else {})}

    reqs = [{"op": "C07.history", "plan": plan, "stored": data(c["stored"]), "ops": [mop(op, False) for op in c["ops"] if op["op"] in ("run", "stream")]}]
    for op in c["ops"]:
        if op["op"] in ("run_all", "prepare_run"):
            reqs.append({"op": "C07.history", "plan": plan, "stored": data(c["stored"]), "ops": [mop(op, True)]})
    return reqs


def canon_model(o: Dict[str, Any], out: str) -> Dict[str, Any]:
    def tabs(ts: List[Any]) -> List[Any]:
        return sorted([[out, list(t[1])]] for t in ts)

    if "tables" in o:
        return {"tables": tabs(o["tables"])}
    if "streamed" in o:
        return {"streamed": tabs(o["streamed"]), "err": o["err"]}
    return {"raised": o["raised"]}


def judge(ctx: Any, c: Dict[str, Any], o: Dict[str, Any], model_outs: Optional[List[Any]]) -> None:
    suite = "aliasdata_history"
    need = needed_groups(c)
    styles = [g["style"] for g in need]
    mutable_kind = any(c["kinds"][g["src"]] not in ("list", "tuple") or c["dtypes"][g["src"]] == "cells" for g in need if g["src"] in c["kinds"]) or c["container"] == "frame"
    writes = any(s in WRITES_EXISTING for s in styles)
    eff = [c["stored"] if op["obj"] is None else op["obj"] for op in c["ops"]]
    reuse = len(eff) - len(set(eff))
    cls = finding_class(c)
    src_kinds = sorted({c["kinds"][g["src"]] for g in need if g["src"] in c["kinds"]})
    ctx.case(suite, c, bool(reuse >= 1 and writes and mutable_kind), ad_fw=c["fw"], ad_source=c["source"], ad_container=c["container"], ad_length=len(c["ops"]),
             ad_reuse=min(reuse, 4), ad_objects=len(c["objs"]), ad_known_class="none" if cls is None else cls[:40],
             ad_seeded_class_shape=bool(c["fw"] == "pd" and c["container"] == "dict" and writes and any(k in ("ndarray", "ndview", "ndro") for k in src_kinds) and reuse >= 1))  # fmt: skip
    for g in need:
        ctx.tag("ad_group", f"{c['fw']}:{g['style']}:on_{c['kinds'].get(g['src'], 'group_output')}:fail_{g['fail']}")
    for col in c["cols"]:
        ctx.tag("ad_buffer", f"{c['fw']}:{col}:{c['kinds'][col]}")
    if "prepare_err" in o:
        ctx.violation(suite, c, f"prepare of a well-formed request failed: {o['prepare_err']}", o, "ok", finding_class=None)
        return
    # model outcomes in op order
    mo: List[Optional[Dict[str, Any]]] = [None] * len(c["ops"])
    if model_outs is not None:
        sess = list(model_outs[0]["outcomes"])
        rest = [m["outcomes"][0] for m in model_outs[1:]]
        for k, op in enumerate(c["ops"]):
            mo[k] = canon_model(sess.pop(0) if op["op"] in ("run", "stream") else rest.pop(0), need[0]["out"])
    dirty: Set[int] = set()  # payload objects that an earlier call of the history already received
    for k, (op, impl, fresh, mod) in enumerate(zip(c["ops"], o["outcomes"], o["fresh"], o["modified"])):
        j = eff[k]
        ref = reference(c, j)
        kind = op["op"] + ":" + op["mode"] + (":" + op["consumer"]["t"] if op["op"] == "stream" else "")
        ctx.case("aliasdata_call", [c, k], j in dirty, ad_op=kind + (":fail" if "raised" in ref else ""), ad_arg="stored" if op["obj"] is None else op["wrap"],
                 ad_object_seen_before=j in dirty, ad_outcome=next(x for x in ("tables", "raised", "streamed") if x in impl) + (":err" if impl.get("err") else ""))  # fmt: skip
        where = {"case": c, "index": k}
        head = (f"call {k} ({kind}) with payload object #{j} ({'already handed to ' + str(eff[:k].count(j)) + ' earlier call(s)' if j in dirty else 'first use'}; "
                f"{c['fw']} framework, buffers {c['kinds']}, groups {[(g['style'], g['src']) for g in need]})")  # fmt: skip
        # a known class covers only: the object this call received was written to / a re-used object gives another result
        kcls = cls
        # (a) the caller's objects after the call
        if mod:
            only_this = set(mod.keys()) <= {str(j)}
            ctx.violation(suite, where, f"{head} modified the caller's data objects: " + "; ".join(f"object #{i}: " + " | ".join(d) for i, d in sorted(mod.items())),
                          mod, "all payload objects identical to the snapshot taken before the call", finding_class=kcls if only_this else None)  # fmt: skip
        # (b) fresh equal arguments
        if fresh is not None and not same_outcome(op, impl, fresh):
            ctx.violation(suite, where, f"{head} gives {impl} but a fresh run with a fresh equal copy of the arguments gives {fresh}", impl, fresh, finding_class=kcls if j in dirty else None)
        # (c) reference evaluation of the case description
        bad = None
        if "tables" in impl:
            if impl["tables"] != ref.get("tables"):
                bad = f"{head} returned {impl['tables']}; reference evaluation: {ref.get('tables', ref)}"
        elif "raised" in impl:
            if impl["raised"] != ref.get("raised"):
                bad = f"{head} raised {impl['raised']}; reference evaluation: {ref.get('tables', ref)}"
        else:
            items, lim = impl["streamed"], (None if op["consumer"]["t"] == "exhaust" else op["consumer"]["k"])
            if "tables" in ref:
                want = len(ref["tables"]) if lim is None else min(lim, len(ref["tables"]))
                if [t for t in items if t not in ref["tables"]] or len(items) != want or len({json.dumps(t, sort_keys=True) for t in items}) != len(items) or impl["err"] is not None:
                    bad = f"{head} streamed {items} err={impl['err']}; reference: {want} distinct tables out of {ref['tables']}"
            elif impl["err"] != ref["raised"]:
                bad = f"{head} streamed {items} err={impl['err']}; reference evaluation fails with {ref['raised']}"
        if bad:
            ctx.violation(suite, where, bad, impl, ref, finding_class=kcls if j in dirty else None)
        # model of C07 (Session.runHistory): every call is a function of its own payload
        if mo[k] is not None and not same_outcome(op, impl, mo[k]):  # type: ignore[arg-type]
            ctx.disagree(suite, where, impl, mo[k])
        dirty.add(j)
    # (d) results that were already handed out
    for ch in o["results_changed"]:
        ctx.violation(suite, {"case": c, "index": ch["index"]}, f"the result returned by call {ch['index']} changed while later calls of the history ran: {ch['was']} -> {ch['now']} "
                      f"({c['fw']} framework, buffers {c['kinds']}, groups {[(g['style'], g['src']) for g in need]})", ch["now"], ch["was"], finding_class=cls)  # fmt: skip


def execute(ctx: Any, cases: List[Dict[str, Any]], nworkers: int) -> None:
    nworkers = max(1, min(nworkers, len(cases)))
    batches: List[List[Dict[str, Any]]] = [[] for _ in range(nworkers)]
    where: List[Tuple[int, int]] = []
    for i, c in enumerate(cases):
        b = i % nworkers
        where.append((b, len(batches[b])))
        batches[b].append(c)
    results = run_children(batches)
    # model
    reqs: List[Dict[str, Any]] = []
    span: Dict[int, Tuple[int, int]] = {}
    for i, c in enumerate(cases):
        if model_eligible(c) and ctx.lean is not None:
            r = model_requests(c)
            span[i] = (len(reqs), len(reqs) + len(r))
            reqs += r
    outs = ctx.lean.batch(reqs) if reqs else []
    ctx.tag("ad_model", "cases_compared_with_C07.history", len(span))
    for i, (c, (b, j)) in enumerate(zip(cases, where)):
        o = results[b][j]
        if "crash" in o:
            raise RuntimeError("C07 aliasdata child crashed on " + json.dumps(c)[:800] + "\n" + o["crash"])
        judge(ctx, c, o, outs[span[i][0] : span[i][1]] if i in span else None)


def run(ctx: Any) -> None:
    ctx.extra["rule"] = (ctx.extra.get("rule", "") + " | aliasdata: histories of 2-6 calls (run / stream_run exhausted or closed early / omitted api_data / run_all / prepare+run, "
                         "SYNC + THREADING) that hand the SAME payload objects (or new dicts around the same column buffers) to several calls; column values are "
                         "caller-owned buffers (numpy arrays incl. views and read-only arrays, pandas Series, pyarrow arrays, tuples, lists, list/dict cells, single-row "
                         "dicts, a DataFrame as api value, buffers owned by a root group) and the consuming groups write into existing columns of their working table in place "
                         "(pandas loc/iloc/at/fillna/replace, python-dict row updates, cell mutation; pyarrow set_column) before deriving their output; after every call: "
                         "typed snapshot of all payload objects unchanged, result = fresh run with a fresh equal copy = reference evaluation, earlier results unchanged; "
                         "non-trivial = an object is handed to >= 2 calls, a needed group writes into an existing column and that column's buffer is not a plain list")  # fmt: skip
    cases = [gen_case(ctx.rng) for _ in range(ctx.budget(220, 3000))]
    execute(ctx, cases, ctx.budget(6, 12))


def search(ctx: Any, broken: List[str]) -> None:
    run(ctx)


def replay(ctx: Any, body: Dict[str, Any]) -> None:
    case = body.get("case")
    if isinstance(case, dict) and "case" in case:
        case = case["case"]
    if isinstance(case, list):
        case = case[0]
    if not isinstance(case, dict) or case.get("kind") != "aliasdata":
        run(ctx)
        return
    execute(ctx, [case], 1)


if __name__ == "__main__":
    if "--child" in sys.argv:
        child_main()
