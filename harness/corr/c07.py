"""C07 - a prepared session and its arguments can be reused; runs are independent.

Parent: generates histories / call sequences with ctx.rng, ships them to child interpreters (parallelism only), feeds the
observations to the Lean model, diffs, evaluates the oracle (fresh-session comparison + argument snapshots).
Child (`python -m harness.corr.c07 --child`): executes the real mloda code only.
"""
from __future__ import annotations

import json
import os
import subprocess
import sys
import traceback
from concurrent.futures import ThreadPoolExecutor
from typing import Any, Dict, List, Optional, Tuple

ASSUMPTIONS = [
    "planning is deterministic for equal arguments (C04): the fresh-session oracle prepares its own plan",
    "history scenario: one api-consuming group g (raises on a flag carried in api_data), static root groups a, b, derived "
    "z <- a, one requested feature per group; model plan = the needed steps sorted by dependency level",
    "streamed runs: which items a consumer that stops early receives depends on the orchestrator's pass structure; items "
    "are compared as a sub-multiset of the full result plus their number; failing api data is streamed in SYNC mode only "
    "(in THREADING the number of items delivered before the error is a race)",
    "error kinds are compared as a small enum (flagRaised / apiMissing / noResults / other); for api_data={} the fresh-session "
    "oracle is a fresh prepare (with the stored api data) + the same call, because run_all(api_data={}) cannot plan api features",
    "what deepcopy does to user objects inside options is not modelled (option values are immutable data here)",
    "optreuse: in_features sets with two or more nested Feature objects are not generated (Feature.__hash__ deep-copies "
    "child_options recursively; planning such a request does not terminate in practical time on the unchanged tree)",
]

CLS_GF = "shared-GlobalFilter-reused-after-call-with-different-framework-or-options-on-same-group"
CLS_LINKS = "shared-links-set-reused-after-call-whose-feature-carried-a-new-link"

MARK = "@@C07RESULT@@"
NAME_ID = {"g": 0, "a": 1, "b": 2, "z": 3}
ID_NAME = {v: k for k, v in NAME_ID.items()}
FW_ID = {"pa": 0, "pd": 1, "py": 2}
GF_NAMES = {"a": 10, "b": 11, "c": 12, "p": 20, "q": 21}
GF_GROUP = {"a": 0, "b": 0, "c": 0, "p": 1, "q": 1}

# ======================================================================================
# child side
# ======================================================================================


def _err_enum(e: BaseException) -> str:
    s = repr(e) + str(e)
    if "flag set" in s:
        return "flagRaised"
    if "No api data set" in s or "Api data with key" in s:
        return "apiMissing"
    if "No results found" in s:
        return "noResults"
    if "different filters for different features" in s:
        return "differentFilters"
    if "No feature groups found" in s:
        return "noGroup"
    return "other:" + type(e).__name__ + ":" + str(e)[-120:]


class ConsumerError(Exception):
    pass


def _api(d: Any) -> Any:
    """wire form -> api_data argument: None | {} | {"K": {"v": [...], "flag": [...]}}"""
    if d is None:
        return None
    if d.get("empty"):
        return {}
    return {"K": {"v": list(d["v"]), "flag": list(d["flag"])}}


def _tables(res: List[Any]) -> List[Any]:
    from harness import fgfactory as F

    out = []
    for r in res:
        cols = F.to_columns(r)
        out.append(sorted([k, v] for k, v in cols.items()))
    return sorted(out)


def _snap_feature(f: Any) -> Any:
    return [
        str(f.name), sorted((str(k), repr(v)) for k, v in f.options.group.items()), sorted((str(k), repr(v)) for k, v in f.options.context.items()),
        str(f.uuid), None if f.compute_frameworks is None else sorted(c.__name__ for c in f.compute_frameworks), str(f.data_type), bool(f.initial_requested_data),
        None if f.domain is None else str(f.domain.name), f.child_options is None, f.link is not None,
    ]  # fmt: skip


_HW: Dict[str, Any] = {}


def _history_world(w: Dict[str, Any]) -> Any:
    """classes for one history world (cached by parameters)"""
    import time
    from harness import fgfactory as F
    from mloda.provider import ApiDataFeatureGroup

    key = json.dumps(w, sort_keys=True)
    if key in _HW:
        return _HW[key]
    fw = F.FW_SHORT[w["fw"]]
    sl = w["sleep_ms"] / 1000.0

    def g_before(cls: Any, data: Any, features: Any) -> None:
        if sl:
            time.sleep(sl)
        cols = F.to_columns(data)
        if any(v == 1 for v in cols.get("flag", [])):
            raise RuntimeError("flag set")

    def slow(cls: Any, data: Any, features: Any) -> None:
        if sl:
            time.sleep(sl)

    G = F.make_group(F.uniq("H07g_"), derived={"g": {"parents": ["v", "flag"], "expr": ["add", ["col", "v"], ["const", w["add"]]]}}, frameworks={fw}, hooks={"before_calc": g_before})
    A = F.make_group(F.uniq("H07a_"), root_data={"a": w["a"]}, frameworks={fw}, hooks={"before_calc": slow})
    B = F.make_group(F.uniq("H07b_"), root_data={"b": w["b"]}, frameworks={fw}, hooks={"before_calc": slow})
    Z = F.make_group(F.uniq("H07z_"), derived={"z": {"parents": ["a"], "expr": ["add", ["col", "a"], ["const", w["add2"]]]}}, frameworks={fw}, hooks={"before_calc": slow})
    _HW[key] = (fw, F.collector({G, A, B, Z, ApiDataFeatureGroup}))
    return _HW[key]


def _do_op(session_factory: Any, session: Any, op: Dict[str, Any]) -> Dict[str, Any]:
    """execute one op on `session` (or on a fresh one built by session_factory(dEff) when session is None)"""
    from mloda.user import ParallelizationMode

    modes = {ParallelizationMode.THREADING} if op["mode"] == "threading" else {ParallelizationMode.SYNC}
    d = _api(op["d"])
    if op["op"] == "run":
        try:
            return {"tables": _tables(session.run(api_data=d, parallelization_modes=modes))}
        except Exception as e:
            return {"raised": _err_enum(e)}
    c = op["consumer"]
    items: List[Any] = []
    err = None
    gen = session.stream_run(api_data=d, parallelization_modes=modes)
    try:
        if c["t"] == "exhaust":
            for r in gen:
                items.append(r)
        else:
            stopped = False
            for _ in range(c["k"]):
                try:
                    items.append(next(gen))
                except StopIteration:
                    stopped = True
                    break
            if not stopped:
                if c["t"] == "close":
                    gen.close()
                else:
                    try:
                        gen.throw(ConsumerError("consumer"))
                    except (ConsumerError, StopIteration):
                        pass
    except Exception as e:
        err = _err_enum(e)
    return {"streamed": _tables(items), "err": err}


def ch_history(c: Dict[str, Any]) -> Dict[str, Any]:
    import copy
    from mloda.user import mloda, Feature

    w = c["world"]
    fw, pc = _history_world(w)
    stored = _api(c["stored"])

    def feats() -> List[Any]:
        return [Feature(n) if i % 2 == 0 else n for i, n in enumerate(c["request"])]

    user_feats = feats()
    snap0 = [_snap_feature(f) if not isinstance(f, str) else f for f in user_feats]
    stored_before = copy.deepcopy(stored)
    try:
        session = mloda.prepare(user_feats, compute_frameworks={fw}, api_data=stored, plugin_collector=pc)
    except Exception as e:
        return {"prepare_err": _err_enum(e)}
    outcomes, fresh = [], []
    api_mutated = False
    for op in c["ops"]:
        d_before = copy.deepcopy(_api(op["d"]))
        outcomes.append(_do_op(None, session, op))
        # fresh-session oracle: equal fresh arguments, this call's effective api data
        d_eff = op["d"] if op["d"] is not None else c["stored"]
        op2 = dict(op, d=d_eff)
        empty = d_eff is not None and d_eff.get("empty")
        try:
            if op["op"] == "run" and not empty:
                from mloda.user import ParallelizationMode

                modes = {ParallelizationMode.THREADING} if op["mode"] == "threading" else {ParallelizationMode.SYNC}
                try:
                    fresh.append({"tables": _tables(mloda.run_all(feats(), compute_frameworks={fw}, api_data=_api(d_eff), plugin_collector=pc, parallelization_modes=modes))})
                except Exception as e:
                    fresh.append({"raised": _err_enum(e)})
            else:
                # run_all cannot even plan with api_data={} (no api columns are known); the fresh session is then prepared
                # with the stored api data and handed this call's api data, like the reused one
                s2 = mloda.prepare(feats(), compute_frameworks={fw}, api_data=stored if empty else _api(d_eff), plugin_collector=pc)
                fresh.append(_do_op(None, s2, op2))
        except Exception as e:
            fresh.append({"raised": _err_enum(e)})
        api_mutated = api_mutated or (d_before != _api(op["d"]))
    snap1 = [_snap_feature(f) if not isinstance(f, str) else f for f in user_feats]
    return {"outcomes": outcomes, "fresh": fresh, "features_unchanged": snap0 == snap1, "snap0": snap0, "snap1": snap1,
            "stored_unchanged": stored_before == stored and not api_mutated}  # fmt: skip


_GW: Dict[str, Any] = {}


def _gf_world() -> Any:
    from harness import fgfactory as F

    if "w" not in _GW:
        R = F.make_group(F.uniq("S07r_"), root_data={"a": [1, 2, 3], "b": [4, 5, 6], "c": [7, 8, 9]})
        Q = F.make_group(F.uniq("S07q_"), root_data={"p": [1, 2, 3], "q": [3, 2, 1]})
        _GW["w"] = ([R, Q], F.collector({R, Q}))
    return _GW["w"]


def _sf_canon(sf: Any, spec_ids: Dict[str, int]) -> List[int]:
    ff = sf.filter_feature
    fwn = next(iter(ff.compute_frameworks)).__name__ if ff.compute_frameworks else ""
    fw = {"PyArrowTable": 0, "PandasDataFrame": 1, "PythonDictFramework": 2}.get(fwn, 9)
    ov = ff.options.group.get("x", 0)
    spec = spec_ids.get(str(ff.name), 99)
    return [GF_NAMES.get(str(ff.name), 99), fw, ov, spec]


def ch_gfseq(c: Dict[str, Any]) -> Dict[str, Any]:
    """calls sharing Feature / Options / GlobalFilter objects"""
    from harness import fgfactory as F
    from mloda.user import mloda, Feature, Options
    from mloda.core.filter.global_filter import GlobalFilter
    from mloda.core.core.step.feature_group_step import FeatureGroupStep

    classes, pc = _gf_world()
    gidx = {cls: i for i, cls in enumerate(classes)}

    def mk_gf() -> Any:
        gf = GlobalFilter()
        for name, ftype, param in c["filters"]:
            gf.add_filter(name, ftype, dict(param))
        return gf

    shared_gf = mk_gf()
    # spec id of a filter = rank of its feature name among the user's filters (one filter per name is generated)
    spec_ids: Dict[str, int] = {n: i for i, n in enumerate(sorted(f[0] for f in c["filters"]))}
    shared_opts = {ov: (Options({"x": ov}) if ov else Options({})) for ov in (0, 1, 2)}
    pool: Dict[Tuple[str, int], Any] = {}

    def feat(name: str, ov: int, fresh: bool) -> Any:
        if fresh:
            return Feature(name, options=Options({"x": ov}) if ov else Options({}))
        if (name, ov) not in pool:
            pool[(name, ov)] = Feature(name, options=shared_opts[ov] if c["share_options"] else (Options({"x": ov}) if ov else Options({})))
        return pool[(name, ov)]

    calls_out = []
    for call in c["calls"]:
        fw = F.FW_SHORT[call["fw"]]
        out: Dict[str, Any] = {}
        for variant in ("shared", "fresh"):
            fresh = variant == "fresh"
            gf = mk_gf() if fresh else shared_gf
            fs = [feat(n, call["ov"], fresh) for n in call["feats"]]
            snap0 = [_snap_feature(f) for f in fs]
            r: Dict[str, Any] = {}
            try:
                session = mloda.prepare(fs, compute_frameworks={fw}, global_filter=gf, plugin_collector=pc)
                r["plan"] = sorted(
                    [gidx[st.feature_group], sorted(_sf_canon(sf, spec_ids) for sf in (st.features.filters or set()))]
                    for st in session.engine.execution_planner if isinstance(st, FeatureGroupStep)
                )
                if call["kind"] == "run_all":
                    try:
                        r["tables"] = _tables(session.run())
                    except Exception as e:
                        r["raised"] = _err_enum(e)
            except Exception as e:
                r["prepare_err"] = _err_enum(e)
            r["features_unchanged"] = snap0 == [_snap_feature(f) for f in fs]
            r["collection"] = [[[gidx[k[0]], GF_NAMES.get(str(k[1]), 99)], sorted(_sf_canon(sf, spec_ids) for sf in v)] for k, v in gf.collection.items()]
            r["nfilters"] = len(gf.filters)
            out[variant] = r
        calls_out.append(out)
    return {"calls": calls_out}


_LW: Dict[str, Any] = {}


def _links_world() -> Any:
    from harness import fgfactory as F

    if "w" not in _LW:
        A = F.make_group(F.uniq("L07a_"), root_data={"ja": [1, 2, 3], "x": [4, 5, 6]}, index_columns=[("ja",)])
        B = F.make_group(F.uniq("L07b_"), root_data={"lb": [1, 2, 3], "y": [7, 8, 9]}, index_columns=[("lb",)])
        D = F.make_group(F.uniq("L07d_"), derived={"s": {"parents": ["x", "y"], "expr": ["add", ["col", "x"], ["col", "y"]]}})
        _LW["w"] = ([A, B, D], F.collector({A, B, D}))
    return _LW["w"]


def ch_linkseq(c: Dict[str, Any]) -> Dict[str, Any]:
    from harness import fgfactory as F
    from mloda.user import mloda, Feature
    from mloda.core.abstract_plugins.components.link import JoinSpec, Link

    classes, pc = _links_world()
    A, B, D = classes
    fw = F.FW_SHORT[c["fw"]]

    def mk_link() -> Any:
        return Link.inner(JoinSpec(A, "ja"), JoinSpec(B, "lb"))

    L = mk_link()
    shared_links = {L} if c["initial_has_link"] else set()
    shared_feat = {"s_link": Feature("s", link=L)}

    def feats(names: List[str], fresh: bool) -> List[Any]:
        out: List[Any] = []
        for n in names:
            if n == "s_link":
                out.append(Feature("s", link=mk_link()) if fresh else shared_feat["s_link"])
            else:
                out.append(n)
        return out

    calls_out = []
    for call in c["calls"]:
        out: Dict[str, Any] = {}
        for variant in ("shared", "fresh"):
            fresh = variant == "fresh"
            links = ({mk_link()} if c["initial_has_link"] else set()) if fresh else shared_links
            r: Dict[str, Any] = {"links_before": len(links)}
            try:
                res = mloda.run_all(feats(call, fresh), compute_frameworks={fw}, links=links, plugin_collector=pc)
                r["tables"] = _tables(res)
            except Exception as e:
                r["raised"] = _err_enum(e)
            r["links_after"] = len(links)
            r["links_all_equal_L"] = all(l == L for l in links)
            out[variant] = r
        calls_out.append(out)
    return {"calls": calls_out}



# ---- argument re-use with rich options: nested Feature objects + values that cannot be deep-copied ------------------


class OwnCopy:
    """a value with its own __deepcopy__ (returns a new equal object)"""

    def __init__(self, v: int) -> None:
        self.v = v

    def __deepcopy__(self, memo: Any) -> "OwnCopy":
        return OwnCopy(self.v)

    def __eq__(self, o: Any) -> bool:
        return isinstance(o, OwnCopy) and o.v == self.v

    def __hash__(self) -> int:
        return hash(("OwnCopy", self.v))


def _gen_value() -> Any:
    yield 1


def _make_uncopyable(kind: str) -> Any:
    import sqlite3
    import threading

    if kind == "sqlite":
        return sqlite3.connect(":memory:", check_same_thread=False)
    if kind == "lock":
        return threading.Lock()
    if kind == "generator":
        return _gen_value()
    if kind == "own_deepcopy":
        return OwnCopy(3)
    return 7  # "none": an ordinary copyable value


_OW: Dict[str, Any] = {}


def _opt_world(fwn: str) -> Any:
    """root r1 + two generated groups that take their inputs from options[in_features] and a factor from the options"""
    from harness import fgfactory as F
    from mloda_plugins.feature_group.experimental.default_options_key import DefaultOptionKeys

    if fwn in _OW:
        return _OW[fwn]
    fw = F.FW_SHORT[fwn]
    IN = DefaultOptionKeys.in_features

    def inp(self: Any, options: Any, feature_name: Any) -> Any:
        return set(options.get_in_features())

    def calc_for(name: str, key: str) -> Any:
        def calc(cls: Any, data: Any, features: Any) -> Any:
            cols = F.to_columns(data)
            scale = features.get_options_key(key)
            v = features.get_options_key(IN)
            ins = [str(v.name)] if hasattr(v, "get_name") else sorted(str(f.name) for f in v)
            n = len(next(iter(cols.values())))
            return F.add_columns(data, {name: [sum(cols[c][i] for c in ins) * scale for i in range(n)]})

        return classmethod(calc)

    R = F.make_group(F.uniq("O07r_"), root_data={"r1": [1, 2, 3]}, frameworks={fw})
    S1 = F.make_group(F.uniq("O07s_"), derived={"sc": {"parents": [], "expr": ["const", 0]}}, frameworks={fw}, extra={"input_features": inp, "calculate_feature": calc_for("sc", "scale")})
    S2 = F.make_group(F.uniq("O07t_"), derived={"sc2": {"parents": [], "expr": ["const", 0]}}, frameworks={fw}, extra={"input_features": inp, "calculate_feature": calc_for("sc2", "scale2")})
    _OW[fwn] = (fw, F.collector({R, S1, S2}))
    return _OW[fwn]


def _deep_snap(x: Any, depth: int = 0) -> Any:
    """structural snapshot of a caller-owned object graph: names, option dicts recursively, uuids, engine-written fields;
    objects that are not data (connections, locks, generators …) are recorded by identity"""
    from mloda.user import Feature, Options

    if depth > 12:
        return "…"
    if isinstance(x, Feature):
        return {
            "Feature": str(x.name), "uuid": str(x.uuid), "options": _deep_snap(x.options, depth + 1),
            "compute_frameworks": None if x.compute_frameworks is None else sorted(c.__name__ for c in x.compute_frameworks),
            "data_type": str(x.data_type), "domain": None if x.domain is None else str(x.domain.name),
            "initial_requested_data": bool(x.initial_requested_data), "child_options": _deep_snap(x.child_options, depth + 1),
            "has_link": x.link is not None, "has_index": x.index is not None,
        }  # fmt: skip
    if isinstance(x, Options):
        return {"group": _deep_snap(x.group, depth + 1), "context": _deep_snap(x.context, depth + 1), "propagate": sorted(x.propagate_context_keys)}
    if isinstance(x, dict):
        return {str(k): _deep_snap(v, depth + 1) for k, v in sorted(x.items(), key=lambda kv: str(kv[0]))}
    if isinstance(x, (frozenset, set)):
        return {"set": sorted((_deep_snap(v, depth + 1) for v in x), key=lambda v: json.dumps(v, sort_keys=True, default=str))}
    if isinstance(x, (list, tuple)):
        return [_deep_snap(v, depth + 1) for v in x]
    if x is None or isinstance(x, (bool, int, float, str)):
        return x
    if isinstance(x, OwnCopy):
        return {"OwnCopy": x.v, "id": id(x)}
    return {"object": type(x).__name__, "id": id(x)}


def _shallow(f: Any) -> Any:
    """the object's own fields (nested Feature objects only by identity)"""
    from mloda.user import Feature

    def val(v: Any) -> Any:
        if isinstance(v, Feature):
            return ("Feature", id(v))
        if isinstance(v, (frozenset, set)):
            return sorted(repr(val(x)) for x in v)
        if v is None or isinstance(v, (bool, int, float, str)):
            return v
        return ("object", id(v))

    return [str(f.name), str(f.uuid), None if f.compute_frameworks is None else sorted(c.__name__ for c in f.compute_frameworks), str(f.data_type),
            None if f.domain is None else str(f.domain.name), bool(f.initial_requested_data), f.child_options is None,
            sorted((str(k), repr(val(v))) for k, v in f.options.group.items()), sorted((str(k), repr(val(v))) for k, v in f.options.context.items())]  # fmt: skip


def _snap_diff(a: Any, b: Any, path: str = "") -> List[str]:
    if type(a) != type(b):
        return [f"{path}: {a!r} -> {b!r}"]
    if isinstance(a, dict):
        out: List[str] = []
        for k in sorted(set(a) | set(b)):
            if k not in a or k not in b:
                out.append(f"{path}.{k}: {a.get(k, '<absent>')!r} -> {b.get(k, '<absent>')!r}")
            else:
                out += _snap_diff(a[k], b[k], f"{path}.{k}")
        return out
    if isinstance(a, list):
        if len(a) != len(b):
            return [f"{path}: {a!r} -> {b!r}"]
        out = []
        for i, (x, y) in enumerate(zip(a, b)):
            out += _snap_diff(x, y, f"{path}[{i}]")
        return out
    return [] if a == b else [f"{path}: {a!r} -> {b!r}"]


def ch_optreuse(c: Dict[str, Any]) -> Dict[str, Any]:
    from mloda.user import mloda, Feature, Options
    from mloda_plugins.feature_group.experimental.default_options_key import DefaultOptionKeys

    IN = DefaultOptionKeys.in_features
    fw, pc = _opt_world(c["fw"])

    def build() -> Dict[str, Any]:
        """the caller's object graph for this case (fresh, equal objects on every call of build)"""
        res = _make_uncopyable(c["uncopyable"])

        def opts(d: Dict[str, Any], with_res: bool) -> Any:
            g = dict(d)
            ctxd: Dict[str, Any] = {}
            if with_res:
                (g if c["where"] == "group" else ctxd)["res"] = res
            return Options(group=g, context=ctxd)

        b1 = Feature("r1")
        shape = c["shape"]
        ins1 = b1 if shape in ("feature", "nested_ff", "nested_sf") else frozenset({b1})
        mid = Feature("sc", options=opts({IN: ins1, "scale": c["scale"]}, True))
        top = None
        if shape.startswith("nested"):
            ins2 = mid if shape in ("nested_ff", "nested_fs") else frozenset({mid})
            top = Feature("sc2", options=opts({IN: ins2, "scale2": c["scale2"]}, c["res_on_top"]))
        return {"b1": b1, "mid": mid, "top": top, "res": res, "ins1": ins1, "opts": opts}

    def request(objs: Dict[str, Any], call: Dict[str, Any]) -> List[Any]:
        k = call["kind"]
        if k == "same":
            return [objs["top"] if objs["top"] is not None else objs["mid"]]
        if k == "mid":
            return [objs["mid"]]
        if k == "base":
            return [objs["b1"]]
        # "rewrap": a new requested feature (other factor) around the caller's existing input objects
        return [Feature("sc", options=objs["opts"]({IN: objs["ins1"], "scale": call["scale"]}, True))]

    shared = build()
    watch = {k: shared[k] for k in ("b1", "mid", "top") if shared[k] is not None}
    snap0 = _deep_snap(watch)
    shallow0 = {k: _shallow(v) for k, v in watch.items()}
    calls_out = []
    for call in c["calls"]:
        out: Dict[str, Any] = {}
        for variant in ("shared", "fresh"):
            objs = shared if variant == "shared" else build()
            try:
                out[variant] = {"tables": _tables(mloda.run_all(request(objs, call), compute_frameworks={fw}, plugin_collector=pc))}
            except Exception as e:
                out[variant] = {"raised": _err_enum(e)}
        diff = _snap_diff(snap0, _deep_snap(watch))
        out["modified"] = [d[:260] + (" …" if len(d) > 260 else "") for d in diff[:6]]
        out["modified_objs"] = sorted(k for k in watch if _shallow(watch[k]) != shallow0[k])
        calls_out.append(out)
    try:
        if hasattr(shared["res"], "close"):
            shared["res"].close()
    except Exception:
        pass
    return {"calls": calls_out}


CHILD = {"history": ch_history, "gfseq": ch_gfseq, "linkseq": ch_linkseq, "optreuse": ch_optreuse}


def child_main() -> None:
    import logging

    logging.disable(logging.CRITICAL)
    batch = json.load(sys.stdin)
    outs = []
    for c in batch:
        try:
            o = CHILD[c["kind"]](c)
        except BaseException:
            o = {"crash": traceback.format_exc()[-900:]}
        outs.append(o)
    sys.stdout.write("\n" + MARK + json.dumps(outs, default=str) + "\n")
    sys.stdout.flush()


# ======================================================================================
# parent side
# ======================================================================================


def run_children(batches: List[List[Dict[str, Any]]]) -> List[List[Dict[str, Any]]]:
    from harness.core import env_for_subprocess, VERIF

    def one(i: int) -> List[Dict[str, Any]]:
        if not batches[i]:
            return []
        p = subprocess.run(["/venv/bin/python", "-m", "harness.corr.c07", "--child"], input=json.dumps(batches[i]), cwd=str(VERIF), env=env_for_subprocess(),
                           stdout=subprocess.PIPE, stderr=subprocess.PIPE, text=True, timeout=1500)  # fmt: skip
        if MARK not in p.stdout:
            raise RuntimeError(f"C07 child {i} produced no result rc={p.returncode}\n{p.stderr[-1500:]}")
        return json.loads(p.stdout.split(MARK, 1)[1])

    with ThreadPoolExecutor(max_workers=len(batches)) as ex:
        return list(ex.map(one, range(len(batches))))


def gen_api(rng: Any, fail: bool = False) -> Dict[str, Any]:
    n = rng.randint(1, 3)
    return {"v": [rng.randint(0, 9) for _ in range(n)], "flag": [1 if fail else 0] * n}


def gen_history(rng: Any, quick: bool) -> Dict[str, Any]:
    fw = rng.choice(["pa", "pd", "py"])
    request = [n for n in ["g", "a", "b", "z"] if rng.random() < 0.6]
    if not request or (rng.random() < 0.7 and "g" not in request):
        request = ["g"] + request
    rng.shuffle(request)
    world = {"fw": fw, "add": rng.randint(1, 5), "add2": rng.randint(10, 20), "a": [rng.randint(1, 9) for _ in range(2)], "b": [rng.randint(1, 9) for _ in range(3)], "sleep_ms": 15}
    stored = gen_api(rng) if ("g" in request or rng.random() < 0.5) else None
    nres = len(request)
    ops = []
    for _ in range(rng.randint(2, 8)):
        mode = "threading" if rng.random() < 0.25 else "sync"
        r = rng.random()
        if r < 0.35:
            d = None
        elif r < 0.70:
            d = gen_api(rng)
        elif r < 0.93:
            d = gen_api(rng, fail=True)
        else:
            d = {"empty": True}
        if rng.random() < 0.55:
            ops.append({"op": "run", "d": d, "mode": mode})
        else:
            t = rng.choice(["exhaust", "close", "close", "raise"])
            cons = {"t": t, "k": rng.randint(0, nres + 1)}
            failing = (d is not None and not d.get("empty") and 1 in d["flag"]) or (d is None and stored is not None and 1 in stored["flag"])
            if failing or (d is not None and d.get("empty")):
                mode = "sync"
            ops.append({"op": "stream", "d": d, "mode": mode, "consumer": cons})
    return {"kind": "history", "world": world, "request": request, "stored": stored, "ops": ops}


def model_plan(c: Dict[str, Any]) -> List[Dict[str, Any]]:
    """the needed steps sorted by dependency level; the step that can fail first within its level"""
    req = c["request"]
    w = c["world"]
    plan = []
    if "g" in req:
        plan.append({"id": 4, "kind": {"t": "apiRoot"}, "requested": False})
    if "a" in req or "z" in req:
        plan.append({"id": 1, "kind": {"t": "static", "table": w["a"]}, "requested": "a" in req})
    if "b" in req:
        plan.append({"id": 2, "kind": {"t": "static", "table": w["b"]}, "requested": True})
    if "g" in req:
        plan.append({"id": 0, "kind": {"t": "api", "add": w["add"]}, "requested": True})
    if "z" in req:
        plan.append({"id": 3, "kind": {"t": "derived", "src": 1, "add": w["add2"]}, "requested": True})
    return plan


def reference_outcome(c: Dict[str, Any], op: Dict[str, Any]) -> Tuple[Optional[List[Any]], Optional[str]]:
    """independent reference evaluation of one call from the scenario's definition: (full result tables, None) or (None, error)"""
    w, req = c["world"], c["request"]
    d = op["d"] if op["d"] is not None else c["stored"]
    tabs = []
    if "g" in req:
        if d is None or d.get("empty"):
            return None, "apiMissing"
        if 1 in d["flag"]:
            # tables of the steps that do not depend on the failing group are still produced before the error surfaces
            return None, "flagRaised"
        tabs.append([["g", [v + w["add"] for v in d["v"]]]])
    if "a" in req:
        tabs.append([["a", list(w["a"])]])
    if "b" in req:
        tabs.append([["b", list(w["b"])]])
    if "z" in req:
        tabs.append([["z", [v + w["add2"] for v in w["a"]]]])
    return sorted(tabs), None


def canon_model_tabs(ts: List[Any]) -> List[Any]:
    return sorted([[ID_NAME[t[0]], list(t[1])]] for t in ts)


def canon_model_outcome(o: Dict[str, Any]) -> Dict[str, Any]:
    if "tables" in o:
        return {"tables": canon_model_tabs(o["tables"])}
    if "streamed" in o:
        return {"streamed": canon_model_tabs(o["streamed"]), "err": o["err"]}
    return {"raised": o["raised"]}


def same_outcome(op: Dict[str, Any], a: Dict[str, Any], b: Dict[str, Any], full: Optional[List[Any]]) -> bool:
    """equality of two outcomes of the same call, modulo which items an early-stopping consumer happened to receive"""
    if set(a.keys()) != set(b.keys()):
        return False
    if "tables" in a:
        return a["tables"] == b["tables"]
    if "raised" in a:
        return a["raised"] == b["raised"] or (a["raised"].startswith("other") and b["raised"].startswith("other"))
    if a["err"] != b["err"]:
        return False
    if op["consumer"]["t"] == "exhaust" and a["err"] is None:
        return a["streamed"] == b["streamed"]
    return len(a["streamed"]) == len(b["streamed"])


def run(ctx: Any) -> None:
    rng = ctx.rng
    ctx.extra["rule"] = (
        "history: seeded operation sequences (run / stream_run with exhaust, close or raise after k items / failing api data / "
        "{} / omitted api data, SYNC and THREADING) of length 2-8 on one real session, every call compared with a fresh "
        "session with equal fresh arguments and with the model; gfseq / linkseq: sequences of prepare / run_all calls sharing "
        "Feature, Options, GlobalFilter, links objects, compared call by call with fresh equal objects and with the model "
        "(filter collection, plan filters, links set); optreuse: call sequences re-using Feature objects whose options hold nested "
        "Feature objects (in_features as Feature / frozenset, two levels) and values that cannot be deep-copied (sqlite connection, "
        "lock, generator) or define __deepcopy__, recursive structural snapshot of the caller's objects after every call, every "
        "call compared with fresh equal objects and a reference evaluation; non-trivial = history with >=1 failing or abandoned call, or sequence "
        "with >=2 calls touching the same group"
    )
    nworkers = ctx.budget(6, 12)
    cases: List[Dict[str, Any]] = []
    for _ in range(ctx.budget(260, 2500)):
        cases.append(gen_history(rng, ctx.quick))
    # shared GlobalFilter / Feature / Options sequences
    for _ in range(ctx.budget(60, 600)):
        filters = [["a", "min", {"value": rng.choice([0, 2])}]]
        if rng.random() < 0.4:
            filters.append(["p", "max", {"value": rng.choice([2, 9])}])
        if rng.random() < 0.3:
            filters.append(["b", "min", {"value": 0}])
        calls = []
        same_cfg = rng.random() < 0.4
        fw0, ov0 = rng.choice(["pa", "py", "pd"]), rng.choice([0, 1, 2])
        for _ in range(rng.randint(2, 6)):
            k = rng.randint(1, 3)
            names = rng.sample(["a", "b", "c", "p", "q"], k)
            calls.append({"kind": rng.choice(["run_all", "run_all", "prepare"]), "feats": names,
                          "fw": fw0 if same_cfg else rng.choice(["pa", "py", "pd"]), "ov": ov0 if same_cfg else rng.choice([0, 0, 1, 2])})  # fmt: skip
        cases.append({"kind": "gfseq", "filters": filters, "calls": calls, "share_options": rng.random() < 0.5})
    for _ in range(ctx.budget(24, 200)):
        calls = [rng.choice([["s_link"], ["x"], ["x", "ja"], ["s"], ["ja", "x"], ["s_link", "x"]]) for _ in range(rng.randint(2, 5))]
        cases.append({"kind": "linkseq", "fw": rng.choice(["pa", "pd", "py"]), "initial_has_link": rng.random() < 0.5, "calls": calls})

    # re-use of caller objects whose options hold nested Feature objects and values that cannot be deep-copied
    shapes = ["feature", "frozenset", "nested_ff", "nested_fs", "nested_sf"]
    n_opt = ctx.budget(48, 400)
    for j in range(n_opt):
        shape = shapes[j % len(shapes)] if j >= ctx.budget(1, 12) else "nested_ss"  # the doubly nested frozenset shape is slow to plan
        unc = ["sqlite", "lock", "generator", "own_deepcopy", "none"][(j // len(shapes)) % 5] if rng.random() < 0.8 else rng.choice(["sqlite", "lock", "generator"])
        kinds = ["same", "rewrap", "base"] + (["mid"] if shape.startswith("nested") else [])
        ncalls = rng.randint(2, 3 if shape == "nested_ss" else 4)
        calls = [{"kind": "same"}] + [{"kind": rng.choice(kinds), "scale": rng.randint(2, 9)} for _ in range(ncalls - 1)]
        if rng.random() < 0.5:
            rng.shuffle(calls)
        cases.append({"kind": "optreuse", "fw": rng.choice(["pa", "pd", "py"]), "uncopyable": unc, "where": rng.choice(["group", "group", "context"]),
                      "shape": shape, "scale": rng.randint(2, 9), "scale2": rng.randint(2, 5), "res_on_top": rng.random() < 0.6, "calls": calls})  # fmt: skip

    batches: List[List[Dict[str, Any]]] = [[] for _ in range(nworkers)]
    where: List[Tuple[int, int]] = []
    for i, c in enumerate(cases):
        b = i % nworkers
        where.append((b, len(batches[b])))
        batches[b].append(c)
    results = run_children(batches)
    obs = [results[b][j] for (b, j) in where]

    # ---- model ----------------------------------------------------------------------------------
    reqs: List[Dict[str, Any]] = []
    slot: Dict[Tuple[int, str], int] = {}
    for i, (c, o) in enumerate(zip(cases, obs)):
        if "crash" in o:
            raise RuntimeError("C07 child crashed on " + json.dumps(c)[:400] + "\n" + o["crash"])
        if c["kind"] == "history":
            slot[(i, "h")] = len(reqs)
            reqs.append({"op": "C07.history", "plan": model_plan(c), "stored": c["stored"], "ops": c["ops"]})
            slot[(i, "f")] = len(reqs)
            reqs.append({"op": "C07.features", "copy": True, "hasApi": c["stored"] is not None,
                         "caller": [{"name": NAME_ID[n], "opts": [], "requested": False, "link": None} for n in c["request"]]})  # fmt: skip
        elif c["kind"] == "gfseq":
            spec = {n: k for k, n in enumerate(sorted(f[0] for f in c["filters"]))}
            mreqs = [{"fw": FW_ID[k["fw"]], "opts": k["ov"], "feats": [[GF_GROUP[n], GF_NAMES[n]] for n in k["feats"]]} for k in c["calls"]]
            base = {"groups": [[10, 11, 12], [20, 21]], "filters": [{"name": GF_NAMES[f[0]], "spec": spec[f[0]]} for f in c["filters"]], "reqs": mreqs}
            slot[(i, "s")] = len(reqs)
            reqs.append({"op": "C07.gfSeq", **base, "shared": True})
            slot[(i, "n")] = len(reqs)
            reqs.append({"op": "C07.gfSeq", **base, "shared": False})
        elif c["kind"] == "optreuse":
            # the caller's object graph as a heap: 0 = r1, 1 = sc, 2 = sc2 (nested shapes); a "rewrap" call adds one object
            res_val = {"t": "handle", "h": 9} if c["uncopyable"] in ("sqlite", "lock", "generator") else {"t": "scalar", "n": 7}
            heap = [{"name": 0, "opts": []}, {"name": 1, "opts": [[0, {"t": "feats", "ids": [0]}], [1, {"t": "scalar", "n": c["scale"]}], [2, res_val]]}]
            if c["shape"].startswith("nested"):
                heap.append({"name": 2, "opts": [[0, {"t": "feats", "ids": [1]}], [3, {"t": "scalar", "n": c["scale2"]}]] + ([[2, res_val]] if c["res_on_top"] else [])})
            for k, call in enumerate(c["calls"]):
                hp = list(heap)
                if call["kind"] == "rewrap":
                    hp.append({"name": 1, "opts": [[0, {"t": "feats", "ids": [0]}], [1, {"t": "scalar", "n": call["scale"]}], [2, res_val]]})
                    roots = [len(hp) - 1]
                else:
                    roots = [0] if call["kind"] == "base" else [1] if (call["kind"] == "mid" or len(heap) == 2) else [2]
                slot[(i, f"o{k}")] = len(reqs)
                reqs.append({"op": "C07.callerAfter", "perKey": True, "fuel": 6, "heap": hp, "roots": roots})
    outs = ctx.lean.batch(reqs)

    # ---- compare + oracle -------------------------------------------------------------------------
    for i, (c, o) in enumerate(zip(cases, obs)):
        if c["kind"] == "history":
            suite = "history"
            m = outs[slot[(i, "h")]]
            nfail = sum(1 for op in c["ops"] if (op["d"] or {}).get("flag", [0])[0:1] == [1] or (op["op"] == "stream" and op["consumer"]["t"] != "exhaust"))
            ctx.case(suite, c, nfail >= 1, fw=c["world"]["fw"], length=len(c["ops"]), request=",".join(sorted(c["request"])))
            for op in c["ops"]:
                ctx.tag("op", op["op"] + ":" + op["mode"] + (":" + op["consumer"]["t"] if op["op"] == "stream" else "")
                        + (":fail" if (op["d"] or {}).get("flag", [0])[0:1] == [1] else ":none" if op["d"] is None else ":empty" if op["d"].get("empty") else ""))  # fmt: skip
            if "prepare_err" in o:
                ctx.violation(suite, c, f"prepare of a well-formed request failed: {o['prepare_err']}", o, "ok")
                continue
            # model's own full results per op (for early-stop streams): the spec outcome of the corresponding exhausting call
            for k, (op, impl, fresh, mo, ms) in enumerate(zip(c["ops"], o["outcomes"], o["fresh"], m["outcomes"], m["spec"])):
                ctx.case("history_call", [c, k], k >= 1, outcome=next(iter(impl.keys())) + (":err" if impl.get("err") else ""))
                mo_c = canon_model_outcome(mo)
                impl_c = dict(impl)
                # model vs implementation
                if not same_outcome(op, impl_c, mo_c, None):
                    ctx.disagree(suite, {"case": c, "index": k}, impl, mo_c)
                # oracle: fresh session with equal arguments and this call's api data
                f_c = dict(fresh)
                ok = same_outcome(op, impl_c, f_c, None)
                if not ok and "raised" in impl_c and "raised" in f_c:
                    ok = True  # both fail (stage / message may differ, see ASSUMPTIONS)
                if not ok and impl_c.get("err") and not impl_c.get("streamed") and "raised" in f_c:
                    ok = True  # streamed call that fails before delivering anything vs a fresh prepare that already fails
                if not ok:
                    ctx.violation(suite, {"case": c, "index": k}, f"call {k} ({op}) on the reused session returned {impl} but a fresh session returns {fresh}", impl, fresh)
                # independent reference evaluation of this call (scenario definition, not the model, not mloda)
                ref, ref_err = reference_outcome(c, op)
                if "tables" in impl_c:
                    if ref is None or impl_c["tables"] != ref:
                        ctx.violation(suite, {"case": c, "index": k}, f"call {k} ({op}) returned {impl} but the reference evaluation gives {ref if ref is not None else ref_err}", impl, ref if ref is not None else ref_err)
                elif "raised" in impl_c:
                    if ref is not None or impl_c["raised"] != ref_err:
                        ctx.violation(suite, {"case": c, "index": k}, f"call {k} ({op}) raised {impl['raised']} but the reference evaluation gives {ref if ref is not None else ref_err}", impl, ref if ref is not None else ref_err)
                else:
                    items = impl_c["streamed"]
                    if ref is not None:
                        lim = None if op["consumer"]["t"] == "exhaust" else op["consumer"]["k"]
                        want = len(ref) if lim is None else min(lim, len(ref))
                        bad = [t for t in items if t not in ref] or len(items) != want or len({json.dumps(t) for t in items}) != len(items) or impl_c["err"] is not None
                        if bad:
                            ctx.violation(suite, {"case": c, "index": k}, f"call {k} ({op}) streamed {items} err={impl_c['err']}; reference: {want} distinct tables out of {ref}", impl, ref)
                    else:
                        lim = None if op["consumer"]["t"] == "exhaust" else op["consumer"]["k"]
                        if impl_c["err"] not in (ref_err, None) or (impl_c["err"] is None and lim is None):
                            ctx.violation(suite, {"case": c, "index": k}, f"call {k} ({op}) streamed {items} err={impl_c['err']}; reference evaluation fails with {ref_err}", impl, ref_err)
            if not o["features_unchanged"]:
                ctx.violation(suite, c, f"caller's feature objects were modified by prepare/run with the default copy_features: {o['snap0']} -> {o['snap1']}", o["snap1"], o["snap0"])
            if not o["stored_unchanged"]:
                ctx.violation(suite, c, "caller's api_data objects were modified", None, None)
            mf = outs[slot[(i, "f")]]
            if (mf["caller"] != [{"name": NAME_ID[n], "opts": [], "requested": False, "link": None} for n in c["request"]]) != (not o["features_unchanged"]):
                ctx.disagree(suite, c, o["features_unchanged"], mf)
        elif c["kind"] == "gfseq":
            suite = "gfseq"
            ms, mn = outs[slot[(i, "s")]], outs[slot[(i, "n")]]
            touched: Dict[int, set] = {}
            multi = False
            for k in c["calls"]:
                for n in k["feats"]:
                    g = GF_GROUP[n]
                    multi = multi or g in touched
                    touched.setdefault(g, set()).add((k["fw"], k["ov"]))
            ctx.case(suite, c, multi, ncalls=len(c["calls"]), share_options=c["share_options"])
            seen_cfg: Dict[int, set] = {}
            for k, (call, oc, m_s, m_n) in enumerate(zip(c["calls"], o["calls"], ms, mn)):
                for variant, mm in (("shared", m_s), ("fresh", m_n)):
                    r = oc[variant]
                    impl_coll = r["collection"]
                    model_coll = [[kk, sorted(v)] for kk, v in mm["collection"]]
                    if impl_coll != model_coll:
                        ctx.disagree(suite, {"case": c, "index": k, "variant": variant}, impl_coll, model_coll)
                    if ("prepare_err" in r) != ("err" in mm["plan"]):
                        ctx.disagree(suite, {"case": c, "index": k, "variant": variant}, r.get("prepare_err", "ok"), mm["plan"])
                    elif "plan" in r and "ok" in mm["plan"]:
                        mp = sorted([g, sorted(fs)] for g, fs in mm["plan"]["ok"])
                        if r["plan"] != mp:
                            ctx.disagree(suite, {"case": c, "index": k, "variant": variant}, r["plan"], mp)
                    if r["nfilters"] != len(c["filters"]):
                        ctx.violation(suite, {"case": c, "index": k}, "planning changed GlobalFilter.filters", r["nfilters"], len(c["filters"]))
                    if not r["features_unchanged"]:
                        ctx.violation(suite, {"case": c, "index": k, "variant": variant}, "caller's feature objects were modified with the default copy_features", None, None)
                sh, fr = oc["shared"], oc["fresh"]
                same = (sh.get("tables") == fr.get("tables")) and (("prepare_err" in sh) == ("prepare_err" in fr)) and (("raised" in sh) == ("raised" in fr))
                if not same:
                    # narrow class: an earlier call of this sequence touched the same group with another framework / options
                    # and the model predicts exactly this failure
                    earlier_other = any(seen_cfg.get(GF_GROUP[n], set()) - {(call["fw"], call["ov"])} for n in call["feats"])
                    predicted = ("err" in m_s["plan"]) and ("ok" in m_n["plan"]) and sh.get("prepare_err") == "differentFilters" and "prepare_err" not in fr
                    cls = CLS_GF if (earlier_other and predicted) else None
                    ctx.violation(suite, {"case": c, "index": k}, f"call {k} {call} with the shared GlobalFilter/Feature objects gives "
                                  f"{ {x: sh.get(x) for x in ('tables', 'prepare_err', 'raised') if x in sh} } but with fresh equal objects "
                                  f"{ {x: fr.get(x) for x in ('tables', 'prepare_err', 'raised') if x in fr} }", sh, fr, finding_class=cls)  # fmt: skip
                for n in call["feats"]:
                    seen_cfg.setdefault(GF_GROUP[n], set()).add((call["fw"], call["ov"]))
        elif c["kind"] == "optreuse":
            suite = "optreuse"
            ctx.case(suite, c, c["uncopyable"] != "none" or c["shape"].startswith("nested"), shape=c["shape"], uncopyable=c["uncopyable"], where=c["where"], fw=c["fw"])
            base_vals = [1, 2, 3]
            for k, (call, oc) in enumerate(zip(c["calls"], o["calls"])):
                ctx.case("optreuse_call", [c, k], k >= 1, call=call["kind"])
                # reference evaluation from the scenario definition
                if call["kind"] == "base":
                    ref = [[["r1", base_vals]]]
                elif call["kind"] == "rewrap":
                    ref = [[["sc", [v * call["scale"] for v in base_vals]]]]
                elif call["kind"] == "mid" or not c["shape"].startswith("nested"):
                    ref = [[["sc", [v * c["scale"] for v in base_vals]]]]
                else:
                    ref = [[["sc2", [v * c["scale"] * c["scale2"] for v in base_vals]]]]
                touched = outs[slot[(i, f"o{k}")]]
                names = ["b1", "mid", "top"][: (3 if c["shape"].startswith("nested") else 2)]
                model_mod = sorted(n for n, t in zip(names, touched) if t)
                if model_mod != oc["modified_objs"]:
                    ctx.disagree(suite, {"case": c, "index": k}, oc["modified_objs"], model_mod)
                sh, fr = oc["shared"], oc["fresh"]
                if fr != {"tables": ref}:
                    ctx.violation(suite, {"case": c, "index": k}, f"call {k} {call} with fresh objects gives {fr}, reference evaluation {ref}", fr, ref)
                if sh != fr:
                    ctx.violation(suite, {"case": c, "index": k}, f"call {k} {call} re-using the caller's feature / option objects (earlier calls: {c['calls'][:k]}) gives {sh} "
                                  f"but fresh equal objects give {fr}", sh, fr)  # fmt: skip
                if oc["modified"]:
                    ctx.violation(suite, {"case": c, "index": k}, f"the caller's feature objects (options hold nested Feature objects and a {c['uncopyable']} value in {c['where']}) were "
                                  f"modified by call {k} {call} with the default copy_features: " + "; ".join(oc["modified"]), oc["modified"], "unchanged")  # fmt: skip
        else:
            suite = "linkseq"
            ctx.case(suite, c, len(c["calls"]) >= 2, initial_has_link=c["initial_has_link"])
            cur: Optional[List[int]] = [4] if c["initial_has_link"] else []
            mreqs = []
            for call in c["calls"]:
                mreqs.append({"op": "C07.links", "links": cur, "feats": [{"name": 1, "opts": [], "requested": True, "link": 4 if n == "s_link" else None} for n in call]})
                # the model's prediction is needed sequentially; links ids are tiny, evaluate through the same rule in Lean below
                if any(n == "s_link" for n in call) and 4 not in (cur or []):
                    cur = (cur or []) + [4]
            mouts = ctx.lean.batch(mreqs)
            mutated = False
            for k, (call, oc, mo) in enumerate(zip(c["calls"], o["calls"], mouts)):
                sh, fr = oc["shared"], oc["fresh"]
                if sh["links_after"] != len(mo or []) or not sh["links_all_equal_L"]:
                    ctx.disagree(suite, {"case": c, "index": k}, sh, mo)
                same = sh.get("tables") == fr.get("tables") and ("raised" in sh) == ("raised" in fr)
                if not same:
                    cls = CLS_LINKS if (mutated and sh["links_before"] != (1 if c["initial_has_link"] else 0)) else None
                    ctx.violation(suite, {"case": c, "index": k}, f"call {k} {call} with the shared links set (now {sh['links_before']} links, initially "
                                  f"{1 if c['initial_has_link'] else 0}) gives { {x: sh.get(x) for x in ('tables', 'raised') if x in sh} } but with a fresh equal set "
                                  f"{ {x: fr.get(x) for x in ('tables', 'raised') if x in fr} }", sh, fr, finding_class=cls)  # fmt: skip
                if sh["links_after"] != sh["links_before"]:
                    mutated = True


def search(ctx: Any, broken: List[str]) -> None:
    run(ctx)


def replay(ctx: Any, body: Dict[str, Any]) -> None:
    run(ctx)


if __name__ == "__main__":
    if "--child" in sys.argv:
        child_main()
