"""C19 - built-in feature groups give the same values on every compute framework.

End to end: one chained feature (`x__sum_aggr`, `x__mean_imputed`, `x__avg_3_day_window`, `x__cleaned_text`) through
`mloda.run_all` on every framework that implements the group, over a generated root group providing typed columns.
Each framework's result column is compared with its own Lean model (`Model/Builtin*.lean`, exact Rat vs float with
tolerance) -> `disagree`; the property oracle compares the frameworks with each other -> `violation`.
"""
from __future__ import annotations

import datetime
import math
import re
from fractions import Fraction
from typing import Any, Dict, List, Optional, Tuple

from harness.core import Ctx, cjson
from harness import fgfactory as F
from harness.extractors import c19 as X

ASSUMPTIONS = [
    "pandas 3.0.x conventions as modelled in Lean (Pd.*): Series.sum of nothing = 0, skipna, std/var ddof=1, mode() sorted ascending, "
    "fillna/ffill/bfill positional semantics, rolling(window, min_periods=1), groupby(...).transform keeps row positions, "
    "str Series is Arrow backed (regex engine RE2: \\s = [ \\t\\n\\f\\r]) - validated only by this differential run",
    "pyarrow.compute conventions as modelled in Lean (Pa.*): skip nulls, min_count=1, variance/stddev ddof=0, quantile(0.5) linear, "
    "value_counts in first-seen order including null, fill_null casts the fill value to the column type (int: truncation), "
    "sort_indices stable - validated only by this differential run",
    "floating point: impl float vs exact Rat model compared with |a-b| <= 1e-9*max(1,|a|,|b|); generated numbers are small dyadic "
    "rationals / small ints; std is compared as sqrt(model variance); IEEE rounding is modelled, not verified",
    "text: only ASCII strings are sent to the Lean model (unicode strings are compared across frameworks only); nltk is not "
    "importable here so remove_stopwords is the identity in both implementations",
    "time windows: distinct time stamps only (sort stability of pandas sort_index is not exercised); null group keys and "
    "null time stamps are not generated; multi-column sources (x~0, x~1) are compared across frameworks only (no Lean model)",
    "null group keys are deliberately not generated: with pyarrow 25 the PyArrow grouped ffill/bfill path then calls "
    "pc.indices_nonzero on a zero-chunk array, which segfaults the interpreter (observed in a scratch process; it would kill the check)",
]

TOL = 1e-9
FWS = ("pd", "pa", "py")
T0 = datetime.datetime(2024, 1, 1)
PYSPACE_NOT_RE2 = set("\x0b\x1c\x1d\x1e\x1f\x85\xa0                　")
WS_OPS = {"remove_special_chars", "normalize_whitespace", "remove_urls"}


# --------------------------------------------------------------------------------------
# values


def wire(v: Any) -> Any:
    if v is None or isinstance(v, str):
        return v
    fr = Fraction(v)
    return f"{fr.numerator}/{fr.denominator}"


def unwire(s: Any) -> Any:
    if s is None:
        return None
    n, _, d = s.partition("/")
    return Fraction(int(n), int(d or 1))


def close(a: Any, b: Any) -> bool:
    if a is None or b is None:
        return a is None and b is None
    if isinstance(a, str) or isinstance(b, str):
        return a == b
    if isinstance(a, (list, tuple, dict)) or isinstance(b, (list, tuple, dict)):
        return False
    try:
        fa, fb = float(a), float(b)
    except (TypeError, ValueError):
        return False
    if math.isinf(fa) or math.isinf(fb):
        return fa == fb
    return abs(fa - fb) <= TOL * max(1.0, abs(fa), abs(fb))


def same_col(a: Any, b: Any) -> bool:
    if isinstance(a, str) or isinstance(b, str):
        return a == b  # error markers
    return len(a) == len(b) and all(close(x, y) for x, y in zip(a, b))


def model_values(out: Any) -> Any:
    """Lean driver answer -> list of python values (floats / str / None) or an error marker string."""
    if not isinstance(out, dict) or "ok" not in out:
        return "ERR"
    vals = []
    for x in out["ok"]:
        if isinstance(x, dict):
            v = unwire(x.get("v"))
            if v is None:
                vals.append(None)
            elif x.get("sqrt"):
                vals.append(math.sqrt(float(v)))
            else:
                vals.append(float(v))
        elif x is None:
            vals.append(None)
        elif isinstance(x, str) and re.fullmatch(r"-?\d+/\d+", x):
            vals.append(float(unwire(x)))
        else:
            vals.append(x)
    return vals


# --------------------------------------------------------------------------------------
# running the real thing


def make_root(cols: Dict[str, List[Any]], kinds: Dict[str, str], supported: Optional[List[str]] = None) -> Any:
    """Root group producing typed columns in the requesting framework's representation. It returns all its columns
    (group-by / reference-time columns are not requested by the built-in groups but must be in the data)."""
    import pandas as pd
    import pyarrow as pa
    from mloda_plugins.compute_framework.base_implementations.pyarrow.table import PyArrowTable

    def calc(cls: Any, data: Any, features: Any) -> Any:
        fw = F._fw_of(features)
        if fw is PyArrowTable:
            ty = {"float": pa.float64(), "int": pa.int64(), "str": pa.string(), "time": pa.timestamp("us")}
            return pa.table({c: pa.array(cols[c], type=ty[kinds[c]]) for c in cols})
        if fw is F.PandasDataFrame:
            d = {}
            for c in cols:
                k = kinds[c]
                if k == "float":
                    d[c] = pd.Series(cols[c], dtype="float64")
                elif k == "int":
                    d[c] = pd.Series(cols[c], dtype="float64" if any(v is None for v in cols[c]) else "int64")
                elif k == "time":
                    d[c] = pd.Series(cols[c], dtype="datetime64[us]")
                else:
                    d[c] = pd.Series(cols[c], dtype="str")
            return pd.DataFrame(d)
        n = len(next(iter(cols.values())))
        return [{c: cols[c][i] for c in cols} for i in range(n)]

    return F.make_group(F.uniq("R19_"), root_data={c: [0] for c in (supported or list(cols))}, extra={"calculate_feature": classmethod(calc)})


ERR_KINDS = ["ArrowNotImplementedError", "ArrowInvalid", "ArrowTypeError", "TypeError", "AttributeError", "ValueError", "KeyError", "IndexError", "NotImplementedError", "ZeroDivisionError"]


def run_feature(feature: Any, root: Any, group_cls: Any, fw: str) -> Any:
    """-> list of python values of the requested feature's column, or 'ERR:<kind>'."""
    from mloda.user import mloda

    try:
        res = mloda.run_all([feature], compute_frameworks={F.FW_SHORT[fw]}, plugin_collector=F.collector({root, group_cls}))
    except Exception as e:  # mloda wraps worker errors
        s = repr(e) + str(e)
        pos = [(s.rfind(k), k) for k in ERR_KINDS if k in s]
        return "ERR:" + (max(pos)[1] if pos else type(e).__name__)
    name = str(feature.name)
    for r in res:
        try:
            cols = F.to_columns(r)
        except Exception:
            continue
        if name in cols:
            return [v if not isinstance(v, (list, tuple)) and not hasattr(v, "tolist") else _listify(v) for v in cols[name]]
    return "ERR:missing-column"


def _listify(v: Any) -> Any:
    try:
        return [None if (isinstance(x, float) and math.isnan(x)) else x for x in (v.tolist() if hasattr(v, "tolist") else list(v))]
    except Exception:
        return repr(v)


# --------------------------------------------------------------------------------------
# cases -> (feature, columns, lean request)


def times_of(offsets: List[int]) -> List[datetime.datetime]:
    return [T0 + datetime.timedelta(days=o) for o in offsets]


def build(case: Dict[str, Any]) -> Tuple[Any, Dict[str, List[Any]], Dict[str, str], Optional[List[str]]]:
    """-> (Feature, root columns, column kinds, root supported feature names or None)"""
    from mloda.user import Feature, Options

    fam = case["family"]
    cols: Dict[str, List[Any]] = {}
    kinds: Dict[str, str] = {}
    supported = None
    if case.get("multi"):
        for i, c in enumerate(case["multi"]):
            cols[f"x~{i}"] = c
            kinds[f"x~{i}"] = case["kind"]
        supported = ["x"]
    else:
        cols["x"] = case["col"]
        kinds["x"] = case["kind"]
    ctxopts: Dict[str, Any] = {}
    if fam == "aggr":
        name = f"x__{case['fn']}_aggr"
    elif fam == "impute":
        name = f"x__{case['fn']}_imputed"
        if case.get("const") is not None:
            ctxopts["constant_value"] = case["const"]
        if case.get("groups"):
            ctxopts["group_by_features"] = list(case["groups"].keys())
            for g, vals in case["groups"].items():
                cols[g] = vals
                kinds[g] = "str"
            if supported is not None:
                supported += list(case["groups"].keys())
    elif fam == "window":
        name = f"x__{case['fn']}_{case['w']}_{case['unit']}_window"
        cols["reference_time"] = times_of(case["times"])
        kinds["reference_time"] = "time"
        if supported is not None:
            supported.append("reference_time")
    elif fam == "text":
        name = "x__cleaned_text"
        ctxopts["cleaning_operations"] = tuple(case["ops"])
    else:
        raise ValueError(fam)
    feat = Feature(name, options=Options(context=ctxopts)) if ctxopts else Feature(name)
    return feat, cols, kinds, supported


def key_ids(case: Dict[str, Any]) -> Optional[List[int]]:
    if not case.get("groups"):
        return None
    gs = list(case["groups"].values())
    seen: Dict[Tuple[Any, ...], int] = {}
    out = []
    for i in range(len(case["col"])):
        k = tuple(g[i] for g in gs)
        out.append(seen.setdefault(k, len(seen)))
    return out


def is_ascii_modelled(s: Optional[str]) -> bool:
    return s is None or all((0x20 <= ord(ch) <= 0x7E) or ch in "\t\n\r\x0b\x0c\x1c\x1d\x1e\x1f" for ch in s)


def lean_request(case: Dict[str, Any], fw: str) -> Optional[Dict[str, Any]]:
    if case.get("multi"):
        return None
    fam = case["family"]
    if fam == "aggr":
        return {"op": "C19.aggr", "fw": fw, "fn": case["fn"], "col": [wire(v) for v in case["col"]]}
    if fam == "window":
        return {"op": "C19.window", "fw": fw, "fn": case["fn"], "w": case["w"], "times": case["times"], "col": [wire(v) for v in case["col"]]}
    if fam == "impute":
        return {"op": "C19.impute", "fw": fw, "method": case["fn"], "kind": "str" if case["kind"] == "str" else "num", "isInt": case["kind"] == "int",
                "const": wire(case.get("const")), "keys": key_ids(case), "col": [wire(v) for v in case["col"]]}  # fmt: skip
    if fam == "text":
        if not all(is_ascii_modelled(s) for s in case["col"]):
            return None
        return {"op": "C19.text", "fw": fw, "ops": list(case["ops"]), "col": case["col"]}
    return None


# --------------------------------------------------------------------------------------
# narrow input classes of the known cross-framework differences (findings.d/C19.json)


def _valid(col: List[Any]) -> List[Any]:
    return [v for v in col if v is not None]


def _modal(vals: List[Any]) -> List[Any]:
    """distinct most frequent values in first-seen order"""
    if not vals:
        return []
    mx = max(vals.count(v) for v in vals)
    out: List[Any] = []
    for v in vals:
        if vals.count(v) == mx and v not in out:
            out.append(v)
    return out


def _groups_of(case: Dict[str, Any]) -> List[List[Any]]:
    ks = key_ids(case)
    if ks is None:
        return [case["col"]]
    out: Dict[int, List[Any]] = {}
    for k, v in zip(ks, case["col"]):
        out.setdefault(k, []).append(v)
    return list(out.values())


def _median(vals: List[Any]) -> Fraction:
    s = sorted(Fraction(v) for v in vals)
    n = len(s)
    return s[n // 2] if n % 2 else (s[n // 2 - 1] + s[n // 2]) / 2


def finding_class(case: Dict[str, Any], a: str, b: str, ra: Any, rb: Any) -> Optional[str]:
    """The known-difference class the pair (framework a, framework b) falls into on this case, or None."""
    fam, fn = case["family"], case.get("fn")
    pair = {a, b}
    if case.get("multi"):
        if fam == "aggr" and "pa" in pair:
            r = ra if a == "pa" else rb
            if isinstance(r, list) and r and all(isinstance(x, list) for x in r):
                return "aggr-multi-column-pyarrow-cells-are-whole-result-arrays"
        return None
    col = case.get("col", [])
    if fam == "aggr":
        vals = _valid(col)
        if fn in ("std", "var"):
            if len(vals) == 1:
                return "aggr-var-std-single-valid-value-pandas-null-vs-pyarrow-zero"
            if len(vals) >= 2 and len(set(vals)) > 1:
                return "aggr-var-std-ddof-pandas-sample-vs-pyarrow-population"
        if fn == "sum" and not vals and col:
            return "aggr-sum-all-null-column-pandas-zero-vs-pyarrow-null"
        return None
    if fam == "window":
        if fn in ("std", "var") and _valid(col):
            return "window-var-std-ddof-pandas-sample-vs-pyarrow-population"
        if case["times"] != sorted(case["times"]):
            return "window-unsorted-time-column-pandas-returns-time-sorted-order"
        return None
    if fam == "impute":
        if None not in col:
            return None
        grouped = bool(case.get("groups"))
        if grouped and case["kind"] == "str" and fn != "constant" and "py" in pair and _valid(col):
            if (ra if a == "py" else rb) == "ERR:TypeError":
                return "impute-grouped-string-column-pythondict-raises-typeerror"
        if case["kind"] == "int" and "pa" in pair:
            vals = _valid(col)
            fill = None
            if fn == "constant":
                fill = Fraction(case["const"])
            elif not grouped and fn == "mean" and vals:
                fill = sum(Fraction(v) for v in vals) / len(vals)
            elif not grouped and fn == "median" and vals:
                fill = _median(vals)
            if fill is not None and fill.denominator != 1:
                return "impute-int-column-fractional-fill-value-pyarrow-truncates"
        if fn == "mode":
            groups = [g for g in _groups_of(case) if None in g]
            if "pa" in pair and any(g.count(None) >= max([_valid(g).count(v) for v in _valid(g)] or [0]) and _valid(col) for g in groups):
                return "impute-mode-pyarrow-counts-null-as-a-value"
            if grouped and "pd" in pair and any(not _valid(g) for g in groups) and _valid(col):
                return "impute-grouped-mode-all-null-group-pandas-has-no-overall-fallback"
            if "pd" in pair and any(len(_modal(_valid(g))) >= 2 for g in groups):
                return "impute-mode-tie-break-pandas-smallest-vs-first-seen"
            if grouped and "pa" in pair and any(not _valid(g) for g in groups) and col.count(None) >= max([_valid(col).count(v) for v in _valid(col)] or [0]):
                return "impute-mode-pyarrow-counts-null-as-a-value"
            return None
        if grouped and fn in ("ffill", "bfill") and "pa" in pair and len(_groups_of(case)) >= 2:
            return "impute-grouped-ffill-bfill-pyarrow-compares-group-local-with-global-index"
        return None
    if fam == "text":
        if None in col:
            return "text-null-entry-pandas-raises-or-keeps-null-vs-pythondict-empty-string"
        if set(case["ops"]) & WS_OPS and any(set(s) & PYSPACE_NOT_RE2 for s in col):
            return "text-whitespace-class-pandas-re2-vs-python-re"
        return None
    return None


def nontrivial(case: Dict[str, Any]) -> bool:
    cols = case.get("multi") or [case["col"]]
    for c in cols:
        vals = _valid(c)
        if None in c or len(c) == 1 or (len(vals) >= 2 and len(set(vals)) == 1):
            return True
    return False


# --------------------------------------------------------------------------------------
# evaluation of a list of cases


def evaluate(ctx: Ctx, cases: List[Dict[str, Any]], use_model: bool = True) -> None:
    vocab = X.vocab()
    impl_cls = {fam: {fw: X.load_impl(fam, fw) for fw in FWS} for fam in ("aggr", "impute", "window", "text")}
    roots: Dict[str, Any] = {}
    runs: List[Tuple[int, str, Any]] = []  # (case index, fw, result)
    reqs: List[Dict[str, Any]] = []
    req_of: Dict[Tuple[int, str], int] = {}
    for k, case in enumerate(cases):
        fam = case["family"]
        feat, cols, kinds, supported = build(case)
        rk = cjson([cols, kinds, supported])
        if rk not in roots:
            roots[rk] = make_root(cols, kinds, supported)
        for fw in vocab["impls"][fam]:
            res = run_feature(feat, roots[rk], impl_cls[fam][fw], fw)
            runs.append((k, fw, res))
            if use_model:
                rq = lean_request(case, fw)
                if rq is not None:
                    req_of[(k, fw)] = len(reqs)
                    reqs.append(rq)
    outs = ctx.lean.batch(reqs) if (use_model and reqs and ctx.lean is not None) else []
    by_case: Dict[int, Dict[str, Any]] = {}
    for k, fw, res in runs:
        by_case.setdefault(k, {})[fw] = res
    for k, case in enumerate(cases):
        fam = case["family"]
        suite = fam + ("-multi" if case.get("multi") else "")
        results = by_case.get(k, {})
        agrees: Dict[str, Optional[bool]] = {}
        for fw, res in results.items():
            ctx.case(suite, {"case": case, "fw": fw}, nontrivial(case), family=fam, fw=f"{fam}:{fw}", fn=f"{fam}:{case.get('fn', len(case.get('ops', [])))}",
                     outcome="error" if isinstance(res, str) else "ok")  # fmt: skip
            if (k, fw) in req_of and outs:
                mv = model_values(outs[req_of[(k, fw)]])
                ok = (isinstance(res, str) and isinstance(mv, str)) or (not isinstance(res, str) and not isinstance(mv, str) and same_col(res, mv))
                agrees[fw] = ok
                if not ok:
                    ctx.disagree(suite, {"case": case, "fw": fw}, res, mv)
            else:
                agrees[fw] = None
        # the property oracle: every pair of frameworks returns the same column
        fws = list(results.keys())
        for i in range(len(fws)):
            for j in range(i + 1, len(fws)):
                a, b = fws[i], fws[j]
                ra, rb = results[a], results[b]
                both_err = isinstance(ra, str) and isinstance(rb, str)
                if both_err or (not isinstance(ra, str) and not isinstance(rb, str) and same_col(ra, rb)):
                    continue
                cls = finding_class(case, a, b, ra, rb)
                # a known difference only counts as known when both sides are exactly what the as-is models predict
                if cls is not None and (agrees.get(a) is False or agrees.get(b) is False):
                    cls = None
                ctx.violation(suite, {"case": case, "pair": [a, b]},
                              f"{fam} {case.get('fn', case.get('ops'))}: {F.FW_SHORT[a].__name__} returns {_short(ra)} but {F.FW_SHORT[b].__name__} returns {_short(rb)} "
                              f"for input {_short(case.get('multi') or case.get('col'))}" + (f" [{cls}]" if cls else ""),
                              {a: ra, b: rb}, "equal columns up to rounding and null representation", finding_class=cls)  # fmt: skip


def _short(x: Any) -> str:
    s = repr(x)
    return s if len(s) <= 160 else s[:157] + "..."


# --------------------------------------------------------------------------------------
# generators


DYADIC = [k / 4 for k in range(-12, 33)]
INTS = list(range(-5, 10))
WORDS = ["a", "b", "c", "aa", "B", ""]


def gen_col(rng: Any, kind: str, n: Optional[int] = None, need_null: bool = False) -> List[Any]:
    pool = {"float": DYADIC, "int": INTS, "str": WORDS}[kind]
    n = n or rng.choice([1, 1, 2, 2, 3, 3, 4, 5, 6, 8])
    pat = rng.choice(["plain", "nulls", "nulls", "nulls", "allnull", "constant", "constnull", "dups", "dups"])
    if need_null and pat in ("plain", "constant"):
        pat = rng.choice(["nulls", "dups", "constnull"])
    if pat == "allnull":
        return [None] * n
    if pat in ("constant", "constnull"):
        v = rng.choice(pool)
        col = [v] * n
    elif pat == "dups":
        small = rng.sample(pool, min(len(pool), rng.choice([2, 2, 3])))
        col = [rng.choice(small) for _ in range(n)]
    else:
        col = [rng.choice(pool) for _ in range(n)]
    if pat in ("nulls", "constnull", "dups"):
        p = rng.choice([0.15, 0.3, 0.5])
        col = [None if rng.random() < p else v for v in col]
        if need_null and None not in col:
            col[rng.randrange(n)] = None
    return col


TEXT_PARTS = ["Hello", "World", "the", "Cat", "dog", "A", "x1", "42", ",", "!", ".", "?", ";", "&", "#", "_", "-", "'", '"', "(", ")", "@", "%", "~",
              " ", " ", "  ", "\t", "\n", "\r\n", "\x0c", " ", " ",
              "http://x.y/z", "https://a.b", "www.site.org", "http://", "a@b.co", "me@x.", "@a.b", "u@v.w.x", "https:/", "xwww.q"]  # fmt: skip
ODD_SPACE = ["\x0b", "\x1c", "\x1f"]
UNICODE_TEXT = ["Café Déjà  vu", "naïve façade", "Straße №5", "ＡＢＣ ｄｅｆ", "a b", "x y", "Ünïcödé, tëxt!", "日本語 テキスト", "ǅ ǆ", "İstanbul"]


def gen_text(rng: Any, odd: bool) -> str:
    parts = [rng.choice(TEXT_PARTS) for _ in range(rng.choice([0, 1, 2, 3, 5, 8]))]
    if odd and parts:
        parts.insert(rng.randrange(len(parts) + 1), rng.choice(ODD_SPACE))
    return "".join(parts)


def gen_cases(ctx: Ctx, scale: float = 1.0) -> List[Dict[str, Any]]:
    rng = ctx.rng
    v = X.vocab()
    cases: List[Dict[str, Any]] = []

    def B(q: int, t: int) -> int:
        return max(1, int(ctx.budget(q, t) * scale))

    # fixed witnesses of the Lean negation theorems / known findings first (so every open finding is replayed each run)
    cases += [
        {"family": "aggr", "fn": "var", "kind": "float", "col": [1.0, 2.0]},
        {"family": "aggr", "fn": "std", "kind": "float", "col": [3.0]},
        {"family": "aggr", "fn": "sum", "kind": "float", "col": [None, None]},
        {"family": "impute", "fn": "mode", "kind": "float", "col": [3.0, 1.0, None, 1.0, 3.0]},
        {"family": "impute", "fn": "mode", "kind": "float", "col": [None, 1.0, None]},
        {"family": "impute", "fn": "mean", "kind": "int", "col": [1, None, 4]},
        {"family": "impute", "fn": "ffill", "kind": "float", "col": [1.0, None, 2.0, None, None, 0.5, None, 4.0], "groups": {"g": ["a", "a", "b", "b", "a", "b", "c", "a"]}},
        {"family": "impute", "fn": "mode", "kind": "float", "col": [1.0, None, 2.0, None], "groups": {"g": ["a", "a", "b", "c"]}},
        {"family": "window", "fn": "sum", "w": 2, "unit": "day", "kind": "float", "col": [1.0, 3.0, 2.0, 4.0], "times": [3, 1, 2, 0]},
        {"family": "window", "fn": "var", "w": 2, "unit": "day", "kind": "float", "col": [1.0, 2.0], "times": [0, 1]},
        {"family": "text", "ops": ["normalize_whitespace"], "kind": "str", "col": ["a", None]},
        {"family": "text", "ops": ["normalize_whitespace"], "kind": "str", "col": ["a\x0bb"]},
        {"family": "aggr", "fn": "sum", "kind": "float", "multi": [[1.0, None, 3.0], [2.0, 5.0, None]]},
    ]  # fmt: skip

    # aggregation: every op x generated columns
    for _ in range(B(110, 900)):
        kind = rng.choice(["float", "float", "int"])
        col = gen_col(rng, kind)
        for fn in v["aggr_ops"]:
            cases.append({"family": "aggr", "fn": fn, "kind": kind, "col": col})
    # imputation: every method x kind x (grouped | not)
    for _ in range(B(170, 1200)):
        kind = rng.choice(["float", "float", "int", "str"])
        col = gen_col(rng, kind, need_null=rng.random() < 0.85)
        groups = None
        if rng.random() < 0.45:
            n = len(col)
            nk = rng.choice([1, 2, 2, 3])
            groups = {"g": [rng.choice(["a", "b", "c"][:nk]) for _ in range(n)]}
            if rng.random() < 0.25:
                groups["h"] = [rng.choice(["u", "v"]) for _ in range(n)]
        for fn in v["impute_ops"]:
            if kind == "str" and fn in ("mean", "median"):
                continue
            case: Dict[str, Any] = {"family": "impute", "fn": fn, "kind": kind, "col": col}
            if fn == "constant":
                case["const"] = {"float": rng.choice([7.5, 0.0, -1.25]), "int": rng.choice([7, 2.5, -2.5]), "str": "zz"}[kind]
            if groups:
                case["groups"] = groups
            cases.append(case)
    # time windows: every function x window sizes x units
    for _ in range(B(80, 700)):
        kind = rng.choice(["float", "float", "int"])
        col = gen_col(rng, kind)
        n = len(col)
        times = rng.sample(range(0, 3 * n + 2), n)
        if rng.random() < 0.6:
            times.sort()
        w = rng.choice([1, 2, 2, 3, 5])
        unit = rng.choice(v["time_units"])
        for fn in v["window_ops"]:
            cases.append({"family": "window", "fn": fn, "w": w, "unit": unit, "kind": kind, "col": col, "times": times})
    # text cleaning: single operations, sequences, empty sequence
    ops_all = v["text_ops"]
    for _ in range(B(110, 1000)):
        n = rng.choice([1, 2, 3, 4])
        odd = rng.random() < 0.12
        col: List[Any] = [gen_text(rng, odd) for _ in range(n)]
        if rng.random() < 0.12:
            col[rng.randrange(n)] = None
        seqs = [[op] for op in ops_all] + [rng.sample(ops_all, rng.choice([2, 3, 4])) for _ in range(2)]
        if rng.random() < 0.2:
            seqs.append([])
        for ops in seqs:
            cases.append({"family": "text", "ops": ops, "kind": "str", "col": col})
    for s in UNICODE_TEXT:
        for ops in [[op] for op in ops_all]:
            cases.append({"family": "text", "ops": ops, "kind": "str", "col": [s]})
    # multi-column sources (x -> x~0, x~1): frameworks against each other only
    for _ in range(B(10, 120)):
        n = rng.choice([1, 2, 3, 4])
        multi = [[rng.choice(DYADIC) for _ in range(n)] for _ in range(2)]
        for fn in v["aggr_ops"]:
            cases.append({"family": "aggr", "fn": fn, "kind": "float", "multi": multi})
        for fn in ("mean", "median", "constant"):
            c2: Dict[str, Any] = {"family": "impute", "fn": fn, "kind": "float", "multi": multi}
            if fn == "constant":
                c2["const"] = 7.5
            cases.append(c2)
    return cases


RULE = (
    "case = (family, operation, parameters, typed column(s)) run through mloda.run_all once per framework implementing the group "
    "(evaluations = real run_all executions); every operation of AGGREGATION_TYPES / IMPUTATION_METHODS (plain and group_by) / "
    "WINDOW_FUNCTIONS x window sizes x TIME_UNITS / SUPPORTED_OPERATIONS (singly and in sequences); each result is diffed with the "
    "framework's own Lean model and all framework pairs with each other; non-trivial = a column has a null, one row, or is constant"
)


def run(ctx: Ctx) -> None:
    ctx.extra["rule"] = RULE
    ctx.extra["vocabulary"] = {k: v for k, v in X.vocab().items() if k != "punctuation"}
    evaluate(ctx, gen_cases(ctx))


def run_oracle_only(ctx: Ctx) -> None:
    ctx.extra["rule"] = RULE
    evaluate(ctx, gen_cases(ctx), use_model=False)


def search(ctx: Ctx, broken: List[str]) -> None:
    evaluate(ctx, gen_cases(ctx, scale=0.2))


def replay(ctx: Ctx, body: Dict[str, Any]) -> None:
    c = body.get("case") or {}
    case = c.get("case", c)
    ctx.extra["rule"] = RULE
    evaluate(ctx, [case] if case.get("family") else gen_cases(ctx))
