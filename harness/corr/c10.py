"""C10 - each feature resolves to one admissible feature group and compute framework, or is rejected.

Suites (REAL mloda code on REAL generated FeatureGroup subclasses, diffed against the Lean model `Resolve`; the oracle is
written from the property text):

  collector_fn   PluginCollector.applicable_feature_group_class - all disabled/enabled subsets over 3 classes
  setup_fn       SetupComputeFramework (API argument as None / empty / classes / names / unknown, feature-level frameworks)
  accessible_fn  PreFilterPlugins on generated universes (loaded-class discovery replaced by the universe of the case)
  identify_fn    IdentifyFeatureGroupClass on the accessible mapping in several dict orders (+ links / index support)
  setcfw_fn      Engine.set_compute_framework, Feature.get_compute_framework
  doc_resolve    mloda.steward resolve_feature (plugin_docs) - the second, documented subclass filter
  e2e            mloda.run_all on universes created in permuted class-creation orders: which generated group's
                 calculate_feature ran / which error, python type of the returned table
  e2e_multi      several features per request (equal names with different group / context options, domain, framework) on
                 groups whose match criteria read an option value; every request order; per feature the computing group
                 and its result table
  e2e_links_framework  two sources on different frameworks + one link + consumer with a framework rule: python type of the result
"""
from __future__ import annotations

import itertools
import os
import tempfile
from typing import Any, Dict, List, Optional, Sequence, Set, Tuple

from harness.core import Ctx
from harness import fgfactory as F

ASSUMPTIONS = [
    "single inheritance among generated feature groups; issubclass equals MRO membership (no ABC registration)",
    "match_feature_group_criteria of generated groups = membership of the feature name in the class's own root columns (checked on every class)",
    "function-level PreFilterPlugins runs replace FeatureGroup subclass discovery by the universe of the case (classes cannot be unloaded from a process); end-to-end runs without the replacement always pass an enabling PluginCollector",
    "unavailable frameworks are the real Polars/DuckDB framework classes (their libraries are not installed in /venv)",
    "the link/index eligibility clause (IdentifyFeatureGroupClass._filter_feature_group_by_links) is part of admissibility when a non-empty link set is given (property C18 'index support follows the prefix rule')",
]

ERRS = [
    ("No given compute frameworks", "noApiFramework"),
    ("has compute frameworks", "featureFrameworkNotOffered"),
    ("No accessible feature groups found", "noAccessibleGroups"),
    ("No feature groups found for feature name", "noGroup"),
    ("Multiple feature groups found", "multipleGroups"),
    ("does not support compute framework", "featureFrameworkUnsupported"),
    ("Cannot compare Domain with", "domainCompare"),
]


def err_kind(e: BaseException) -> str:
    s = str(e)
    for pat, k in ERRS:
        if pat in s:
            return k
    return "other:" + type(e).__name__ + ":" + s[:60] + " ... " + s[-700:]


_UID = itertools.count(1000)  # feature names are unique per universe (resolve_feature scans every loaded class)


class Cfws:
    """the ComputeFramework classes loaded in this process, numbered by name"""

    def __init__(self) -> None:
        from mloda.core.abstract_plugins.compute_framework import ComputeFramework
        from mloda.core.abstract_plugins.components.utils import get_all_subclasses
        import mloda_plugins.compute_framework.base_implementations.polars.dataframe  # noqa: F401  (not installed -> unavailable)
        import mloda_plugins.compute_framework.base_implementations.duckdb.duckdb_framework  # noqa: F401

        self.classes: List[type] = sorted(get_all_subclasses(ComputeFramework), key=lambda c: c.__name__)
        self.id_of = {c: i for i, c in enumerate(self.classes)}
        self.avail = [i for i, c in enumerate(self.classes) if c.is_available()]  # type: ignore[attr-defined]
        self.unavail = [i for i in range(len(self.classes)) if i not in self.avail]
        self.unknown_id = 99

    def ids(self, s: Any) -> List[int]:
        return sorted(self.id_of[c] for c in s)

    def world(self, parents: Sequence[Optional[int]]) -> Dict[str, Any]:
        return {"parents": list(parents), "allCfw": list(range(len(self.classes))), "avail": self.avail}

    def table_types(self, ids: Sequence[int]) -> List[type]:
        return [self.classes[i].expected_data_framework() for i in ids if i in self.avail]  # type: ignore[attr-defined]


# ------------------------------------------------------------------------------------------------
# universes


def chain(parents: Sequence[Optional[int]], c: int) -> List[int]:
    out = [c]
    while parents[out[-1]] is not None:
        out.append(parents[out[-1]])  # type: ignore[arg-type]
    return out


def gen_universe(ctx: Ctx, cf: Cfws, uid: int) -> Dict[str, Any]:
    """spec of one class universe: parents (creation order respects bases first), per class own settings"""
    n = ctx.rng.randint(1, 5)
    parents: List[Optional[int]] = []
    for c in range(n):
        parents.append(None if c == 0 or ctx.rng.random() < 0.4 else ctx.rng.randrange(c))
    names = [f"u{uid}a", f"u{uid}b"]
    classes = []
    fw_pool = cf.avail + cf.avail + cf.unavail[:2]
    for c in range(n):
        own_names = [nm for nm in names if ctx.rng.random() < 0.75] or [names[0]]
        r = ctx.rng.random()
        if r < 0.35:
            rule: Any = "inherit"
        elif r < 0.5:
            rule = "any"
        else:
            rule = sorted(set(ctx.rng.sample(fw_pool, ctx.rng.randint(1, 3))))
        d = ctx.rng.random()
        domain = "inherit" if d < 0.6 else ctx.rng.choice(["d1", "d2", "default_domain"])
        idx = None
        if ctx.rng.random() < 0.2:
            idx = [list(t) for t in ctx.rng.sample([("k",), ("k", "j"), ("j",), ("m",)], ctx.rng.randint(1, 2))]
        classes.append({"names": own_names, "rule": rule, "domain": domain, "idx": idx})
    return {"uid": uid, "parents": parents, "classes": classes, "names": names}


def effective(u: Dict[str, Any], c: int, key: str, default: Any) -> Any:
    for a in chain(u["parents"], c):
        v = u["classes"][a][key]
        if v != "inherit":
            return v
    return default


def eff_idx(u: Dict[str, Any], c: int) -> Any:
    # index_columns is overridden only where given; otherwise inherited, FeatureGroup default None
    for a in chain(u["parents"], c):
        if u["classes"][a]["idx"] is not None:
            return u["classes"][a]["idx"]
    return None


def build(u: Dict[str, Any], cf: Cfws, order: Optional[Sequence[int]] = None) -> List[type]:
    """real classes for the spec; `order` = creation order (bases before subclasses)"""
    from mloda.core.abstract_plugins.feature_group import FeatureGroup

    n = len(u["parents"])
    order = list(order) if order is not None else list(range(n))
    out: Dict[int, type] = {}

    def calc(cls: Any, data: Any, features: Any) -> Any:
        # framework agnostic: a plain {column: values} dict, converted by whichever framework executes the step.  (The
        # framework named by the FeatureSet's features can differ from the executing one when several are admissible:
        # Engine.compute deep-copies the plan and a copied set of classes may iterate in another order.)
        names = sorted(features.get_all_names())
        F.log_event(ev="begin", group=cls.__name__, features=names)
        return {nm: [cls.__name__, cls.__name__] for nm in names}

    for c in order:
        s = u["classes"][c]
        p = u["parents"][c]
        extra: Dict[str, Any] = {"calculate_feature": classmethod(calc)}
        if any("opt" in k for k in u["classes"]):  # every class states its own criteria (an inherited override would leak)

            def crit(cls: Any, feature_name: Any, options: Any, data_access_collection: Any = None, names: Any = tuple(s["names"]), want: Any = s.get("opt")) -> bool:
                n = feature_name.name if hasattr(feature_name, "name") else str(feature_name)
                return n in names and (want is None or options.get(want[0]) == want[1])

            extra["match_feature_group_criteria"] = classmethod(crit)
        frameworks = None
        if s["rule"] == "any":
            extra["compute_framework_rule"] = classmethod(lambda cls: True)
        elif s["rule"] != "inherit":
            frameworks = {cf.classes[i] for i in s["rule"]}
        out[c] = F.make_group(
            F.uniq(f"G{u['uid']}_{c}_"),
            root_data={nm: [c * 10 + 1, c * 10 + 2] for nm in s["names"]},
            frameworks=frameworks,
            domain=None if s["domain"] == "inherit" else s["domain"],
            index_columns=[tuple(t) for t in s["idx"]] if s["idx"] is not None else None,
            bases=(FeatureGroup if p is None else out[p],),
            extra=extra or None,
        )
    return [out[c] for c in range(n)]


def dispose(classes: Sequence[type]) -> None:
    """unregister generated classes so that FeatureGroup.__subclasses__() (weak references) does not grow without bound:
    PreFilterPlugins scans every loaded subclass on each run"""
    for k in classes:
        try:
            delattr(F.DYN, k.__name__)
        except AttributeError:
            pass


_DISPOSED = [0]


def maybe_collect(every: int = 100) -> None:
    import gc

    _DISPOSED[0] += 1
    if _DISPOSED[0] % every == 0:
        gc.collect()


def creation_orders(ctx: Ctx, parents: Sequence[Optional[int]], k: int) -> List[List[int]]:
    n = len(parents)
    outs = [list(range(n))]
    for _ in range(k - 1):
        remaining = set(range(n))
        o: List[int] = []
        while remaining:
            ready = [c for c in remaining if parents[c] is None or parents[c] in o]
            c = ctx.rng.choice(sorted(ready))
            o.append(c)
            remaining.remove(c)
        outs.append(o)
    return outs


def o_crit(u: Dict[str, Any], c: int, feature_name: str, opts: Optional[Dict[str, Any]] = None) -> bool:
    """criteria of a generated group: its own names, and - when the class declares `opt` = [key, value] - the feature's
    option `key` (group or context, Options.get reads both) must have that value"""
    k = u["classes"][c]
    if feature_name not in k["names"]:
        return False
    want = k.get("opt")
    if want is None:
        return True
    return (opts or {}).get(want[0]) == want[1]


def fg_json(u: Dict[str, Any], c: int, feature_name: str, opts: Optional[Dict[str, Any]] = None) -> Dict[str, Any]:
    rule = effective(u, c, "rule", "any")
    return {
        "id": c,
        "crit": o_crit(u, c, feature_name, opts),
        "domain": effective(u, c, "domain", "default_domain"),
        "rule": None if rule == "any" else rule,
        "idx": eff_idx(u, c),
    }


def check_universe_matches_spec(ctx: Ctx, u: Dict[str, Any], classes: List[type], cf: Cfws) -> None:
    """the model's inputs (criteria, domain, rule, index columns) are what the real classes answer"""
    from mloda.core.abstract_plugins.components.feature_name import FeatureName
    from mloda.core.abstract_plugins.components.options import Options

    for c, k in enumerate(classes):
        for nm in u["names"] + ["zz_unrelated"]:
            j = fg_json(u, c, nm)
            real = {
                "id": c,
                "crit": bool(k.match_feature_group_criteria(FeatureName(nm), Options(), None)),  # type: ignore[attr-defined]
                "domain": k.get_domain().name,  # type: ignore[attr-defined]
                "rule": None if k.compute_framework_rule() is True else cf.ids(k.compute_framework_rule()),  # type: ignore[attr-defined]
                "idx": None if k.index_columns() is None else [list(i.index) for i in k.index_columns()],  # type: ignore[attr-defined]
            }
            if real != j:
                ctx.disagree("universe_spec", {"u": u, "class": c, "name": nm}, real, j)
        for d in range(len(classes)):
            if issubclass(k, classes[d]) != (d in chain(u["parents"], c)):
                ctx.disagree("universe_spec", {"u": u, "pair": [c, d]}, issubclass(k, classes[d]), d in chain(u["parents"], c))


# ------------------------------------------------------------------------------------------------
# the oracle - from the property text


def o_admissible_cfws(cf: Cfws, u: Dict[str, Any], c: int, api: Optional[List[int]], feat_cfw: Optional[int]) -> List[int]:
    """intersection of API argument, feature group rule, feature setting and availability"""
    rule = effective(u, c, "rule", "any")
    out = []
    for i in range(len(cf.classes)):
        if api and i not in api:  # None / empty = no restriction by the API
            continue
        if rule != "any" and i not in rule:
            continue
        if feat_cfw is not None and i != feat_cfw:
            continue
        if i not in cf.avail:
            continue
        out.append(i)
    return out


def o_collector(pc: Optional[Dict[str, List[int]]], c: int) -> bool:
    if pc is None:
        return True
    if c in pc["disabled"]:
        return False
    return (not pc["enabled"]) or c in pc["enabled"]


def o_prefix(a: Sequence[str], b: Sequence[str]) -> bool:
    return len(a) <= len(b) and list(b[: len(a)]) == list(a)


def o_index_ok(u: Dict[str, Any], c: int, links: Optional[List[List[List[str]]]]) -> bool:
    idx = eff_idx(u, c)
    if idx is None or not links:  # no index declared / no links to validate against
        return True
    return any(o_prefix(i, s) for l in links for i in l for s in idx)


def o_expected(cf: Cfws, u: Dict[str, Any], name: str, feat: Dict[str, Any], api: Optional[List[int]], pc: Any, links: Any, universe_loaded: Sequence[int], opts: Optional[Dict[str, Any]] = None) -> Dict[str, Any]:
    adm = []
    for c in universe_loaded:
        if not o_collector(pc, c):
            continue
        if not o_crit(u, c, name, opts):  # matches the feature's name / options
            continue
        if feat["domain"] is not None and effective(u, c, "domain", "default_domain") != feat["domain"]:
            continue
        if not o_admissible_cfws(cf, u, c, api, feat["cfw"]):
            continue
        if not o_index_ok(u, c, links):
            continue
        adm.append(c)
    # prefer subclasses: drop a group when another admissible group is a strict subclass of it
    pref = [c for c in adm if not any(d != c and c in chain(u["parents"], d) for d in adm)]
    return {"adm": adm, "pref": pref}


def finding_class(cf: Cfws, u: Dict[str, Any], exp: Dict[str, Any], impl: Dict[str, Any], api: Any, feat: Dict[str, Any], links: Any) -> Optional[str]:
    """narrow predicates of the two known deviations"""
    # (1) links is an EMPTY set: every admissible group that declares index columns is hidden; the outcome is what the
    #     property prescribes for the remaining groups
    if links is not None and len(links) == 0 and any(eff_idx(u, c) is not None for c in exp["adm"]):
        adm2 = [c for c in exp["adm"] if eff_idx(u, c) is None]
        pref2 = [c for c in adm2 if not any(d != c and c in chain(u["parents"], d) for d in adm2)]
        if "ok" in impl and pref2 == [impl["ok"][0]]:
            return "empty-link-set-hides-indexed-groups"
        if impl.get("err") == "noGroup" and not pref2:
            return "empty-link-set-hides-indexed-groups"
    # (2) exactly one preferred group, rejected as ambiguous: some admissible (subclass, superclass) pair has different
    #     accessible framework sets (api ∩ rule ∩ available; the feature setting is not part of them), so the superclass stays
    if len(exp["pref"]) == 1 and impl.get("err") == "multipleGroups":
        for d in exp["adm"]:
            for c in exp["adm"]:
                if d != c and c in chain(u["parents"], d):
                    if o_admissible_cfws(cf, u, d, api, None) != o_admissible_cfws(cf, u, c, api, None):
                        return "subclass-preference-requires-equal-framework-sets"
    return None


# ------------------------------------------------------------------------------------------------
# function-level suites


def suite_collector(ctx: Ctx) -> None:
    from mloda.core.abstract_plugins.components.plugin_option.plugin_collector import PluginCollector

    classes = [F.make_group(F.uniq("PC_"), root_data={"x": [1]}) for _ in range(3)]
    subsets = [list(s) for k in range(4) for s in itertools.combinations(range(3), k)]
    reqs, impls, metas = [], [], []
    for dis in subsets:
        for en in subsets:
            pc = PluginCollector()
            pc.add_disabled_feature_group_classes({classes[i] for i in dis})
            pc.add_enabled_feature_group_classes({classes[i] for i in en})
            res = [pc.applicable_feature_group_class(classes[c]) for c in range(3)]
            spec = {"disabled": dis, "enabled": en}
            reqs.append({"op": "C10.applicable", "parents": [], "allCfw": [], "avail": [], "pc": spec, "cs": [0, 1, 2]})
            impls.append(res)
            metas.append(spec)
            for c in range(3):
                if res[c] != o_collector(spec, c):
                    ctx.violation("collector_fn", {**spec, "c": c}, f"collector says {res[c]}, property (disabled wins; empty enabled = all) says {o_collector(spec, c)}")
    # the two factory methods
    for mk, key in ((PluginCollector.enabled_feature_groups, "enabled"), (PluginCollector.disabled_feature_groups, "disabled")):
        for sub in subsets[1:]:
            pc = mk({classes[i] for i in sub})
            spec = {"disabled": [], "enabled": [], key: sub}
            res = [pc.applicable_feature_group_class(classes[c]) for c in range(3)]
            reqs.append({"op": "C10.applicable", "parents": [], "allCfw": [], "avail": [], "pc": spec, "cs": [0, 1, 2]})
            impls.append(res)
            metas.append(spec)
    outs = ctx.lean.batch(reqs)
    for m, i, o in zip(metas, impls, outs):
        ctx.case("collector_fn", m, bool(m["disabled"] or m["enabled"]))
        if i != o:
            ctx.disagree("collector_fn", m, i, o)


def api_value(ctx: Ctx, cf: Cfws) -> Tuple[Any, Optional[List[int]], str]:
    """(python value for compute_frameworks=, model ids or None, shape tag)"""
    r = ctx.rng.random()
    if r < 0.15:
        return None, None, "none"
    if r < 0.22:
        return ctx.rng.choice([set(), []]), [], "empty"
    k = ctx.rng.randint(1, 3)
    ids = sorted(set(ctx.rng.sample(cf.avail + cf.avail + cf.unavail, k)))
    if r < 0.6:
        return {cf.classes[i] for i in ids}, ids, "classes"
    if r < 0.85:
        return [cf.classes[i].__name__ for i in ids], ids, "names"
    if r < 0.93:
        return [cf.classes[i].__name__ for i in ids] + ["NoSuchFramework"], ids + [cf.unknown_id], "names+unknown"
    return ["NoSuchFramework"], [cf.unknown_id], "unknown-only"


def suite_setup(ctx: Ctx, cf: Cfws) -> None:
    from mloda.core.api.prepare.setup_compute_framework import SetupComputeFramework
    from mloda.core.abstract_plugins.components.feature_collection import Features
    from mloda.core.abstract_plugins.components.feature import Feature

    n = ctx.budget(600, 6000)
    reqs, impls, metas = [], [], []
    for k in range(n):
        api_py, api_ids, shape = api_value(ctx, cf)
        req: List[Optional[int]] = [ctx.rng.choice([None, None] + cf.avail + cf.unavail[:1]) for _ in range(ctx.rng.randint(1, 3))]
        feats = [Feature(f"s{k}_{i}", compute_framework=cf.classes[r].__name__ if r is not None else None) for i, r in enumerate(req)]
        try:
            res: Dict[str, Any] = {"ok": cf.ids(SetupComputeFramework(api_py, Features(list(feats))).compute_frameworks)}
        except ValueError as e:
            res = {"err": err_kind(e)}
        m = {"api": api_ids, "requested": req, "shape": shape}
        reqs.append({"op": "C10.setup", **cf.world([]), "api": api_ids, "requested": req})
        impls.append(res)
        metas.append(m)
        # oracle: offered = all loaded frameworks restricted by a non-empty API argument; reject when the argument names nothing
        # loaded or a requested feature's own framework is not offered
        offered = [i for i in range(len(cf.classes)) if not api_ids or i in api_ids]
        if not offered:
            exp: Dict[str, Any] = {"err": "noApiFramework"}
        elif any(r is not None and r not in offered for r in req):
            exp = {"err": "featureFrameworkNotOffered"}
        else:
            exp = {"ok": offered}
        if exp != res:
            ctx.violation("setup_fn", m, f"SetupComputeFramework gives {res}, property (API ∩ loaded; feature setting must be offered) says {exp}", res, exp)
    outs = ctx.lean.batch(reqs)
    for m, i, o in zip(metas, impls, outs):
        ctx.case("setup_fn", m, m["api"] is not None and len(m["api"]) > 0, api_shape=m["shape"], outcome="ok" if "ok" in i else i["err"])
        o2 = {"ok": sorted(o["ok"])} if "ok" in o else o
        if i != o2:
            ctx.disagree("setup_fn", m, i, o2)


class patched_discovery:
    """FeatureGroup subclass discovery restricted to the case's universe (harness side; /repo untouched)"""

    def __init__(self, classes: Sequence[type]):
        self.classes = set(classes)

    def __enter__(self) -> None:
        from mloda.core.prepare.accessible_plugins import PreFilterPlugins

        self.orig = PreFilterPlugins.__dict__["get_featuregroup_subclasses"]
        PreFilterPlugins.get_featuregroup_subclasses = staticmethod(lambda: set(self.classes))  # type: ignore[method-assign]

    def __exit__(self, *a: Any) -> None:
        from mloda.core.prepare.accessible_plugins import PreFilterPlugins

        PreFilterPlugins.get_featuregroup_subclasses = self.orig  # type: ignore[method-assign]


def gen_collector(ctx: Ctx, n: int, allow_none: bool) -> Optional[Dict[str, List[int]]]:
    r = ctx.rng.random()
    if allow_none and r < 0.25:
        return None
    dis = [c for c in range(n) if ctx.rng.random() < 0.2]
    if allow_none and r < 0.5:
        return {"disabled": dis, "enabled": []}
    en = [c for c in range(n) if ctx.rng.random() < 0.8]
    return {"disabled": dis, "enabled": en}


def mk_collector(pc: Optional[Dict[str, List[int]]], classes: Sequence[type]) -> Any:
    from mloda.core.abstract_plugins.components.plugin_option.plugin_collector import PluginCollector

    if pc is None:
        return None
    o = PluginCollector()
    o.add_disabled_feature_group_classes({classes[i] for i in pc["disabled"]})
    o.add_enabled_feature_group_classes({classes[i] for i in pc["enabled"]})
    return o


def gen_links(ctx: Ctx, max_links: int = 2) -> Optional[List[List[List[str]]]]:
    r = ctx.rng.random()
    if r < 0.6:
        return None
    if r < 0.68:
        return []
    pool = [["k"], ["j"], ["k", "j"], ["m"], ["z"]]
    return [[ctx.rng.choice(pool), ctx.rng.choice(pool)] for _ in range(ctx.rng.randint(1, max_links))]


def mk_links(links: Optional[List[List[List[str]]]], any_cls: type) -> Any:
    from mloda.core.abstract_plugins.components.link import Link, JoinSpec
    from mloda.core.abstract_plugins.components.index.index import Index

    if links is None:
        return None
    return {Link("inner", JoinSpec(any_cls, Index(tuple(l))), JoinSpec(any_cls, Index(tuple(r)))) for l, r in links}


def gen_feature(ctx: Ctx, cf: Cfws, u: Dict[str, Any]) -> Tuple[str, Dict[str, Any]]:
    name = ctx.rng.choice(u["names"] + u["names"] + ["zz_unrelated"])
    dom = None if ctx.rng.random() < 0.55 else ctx.rng.choice(["d1", "d2", "default_domain"])
    fw = None if ctx.rng.random() < 0.6 else ctx.rng.choice(cf.avail + cf.unavail[:1])
    return name, {"domain": dom, "cfw": fw}


def mk_feature(cf: Cfws, name: str, feat: Dict[str, Any], via_options: bool = False) -> Any:
    from mloda.core.abstract_plugins.components.feature import Feature

    fwn = cf.classes[feat["cfw"]].__name__ if feat["cfw"] is not None else None
    if via_options:
        opts: Dict[str, Any] = {}
        if feat["domain"] is not None:
            opts["domain"] = feat["domain"]
        if fwn is not None:
            opts["compute_framework"] = fwn
        return Feature(name, options=opts)
    return Feature(name, domain=feat["domain"], compute_framework=fwn)


def suite_function_level(ctx: Ctx, cf: Cfws) -> None:
    from mloda.core.prepare.accessible_plugins import PreFilterPlugins
    from mloda.core.prepare.identify_feature_group import IdentifyFeatureGroupClass
    from mloda.core.core.engine import Engine

    n = ctx.budget(3000, 20000)
    reqs: List[Dict[str, Any]] = []
    checks: List[Tuple[str, Dict[str, Any], Any]] = []
    for k in range(n):
        u = gen_universe(ctx, cf, next(_UID))
        classes = build(u, cf, creation_orders(ctx, u["parents"], 2)[-1])
        if k < 60:
            check_universe_matches_spec(ctx, u, classes, cf)
        nC = len(classes)
        pc = gen_collector(ctx, nC, allow_none=True)
        _, api_ids, _ = api_value(ctx, cf)
        cfws = [i for i in (api_ids if api_ids else range(len(cf.classes))) if i != cf.unknown_id]
        cfw_set = {cf.classes[i] for i in cfws}
        W = cf.world(u["parents"])
        # --- PreFilterPlugins
        with patched_discovery(classes):
            try:
                acc = PreFilterPlugins(cfw_set, mk_collector(pc, classes)).get_accessible_plugins()
                acc_res: Dict[str, Any] = {"ok": sorted([classes.index(g), cf.ids(s)] for g, s in acc.items())}
                acc_order = [classes.index(g) for g in acc]
            except ValueError as e:
                acc, acc_res, acc_order = None, {"err": err_kind(e)}, []
        name, feat = gen_feature(ctx, cf, u)
        fgs_all = [fg_json(u, c, name) for c in range(nC)]
        reqs.append({"op": "C10.accessible", **W, "pc": pc, "fgs": fgs_all, "cfws": cfws})
        checks.append(("accessible_fn", {"u": u, "pc": pc, "cfws": cfws}, acc_res))
        # oracle for the mapping: collector-admitted classes, each with rule ∩ engine frameworks ∩ available
        exp_acc = sorted([c, o_admissible_cfws(cf, u, c, cfws or [cf.unknown_id], None)] for c in range(nC) if o_collector(pc, c))
        if (acc_res.get("ok") != exp_acc) if exp_acc else (acc_res != {"err": "noAccessibleGroups"}):
            ctx.violation("accessible_fn", {"u": u, "pc": pc, "cfws": cfws}, f"accessible plugins {acc_res}, property says {exp_acc}", acc_res, exp_acc)
        if acc is None:
            dispose(classes)
            continue
        # --- IdentifyFeatureGroupClass on the same mapping in several dict orders
        links = gen_links(ctx)
        fobj = mk_feature(cf, name, feat, via_options=ctx.rng.random() < 0.3)
        items = list(acc.items())
        orders = [items, list(reversed(items))] + [ctx.rng.sample(items, len(items)) for _ in range(2)]
        outcomes = []
        for it in orders:
            d = {g: set(s) for g, s in it}
            try:
                g, s = IdentifyFeatureGroupClass(fobj, d, mk_links(links, classes[0]), None).get()
                outcomes.append({"ok": [classes.index(g), cf.ids(s)]})
            except ValueError as e:
                outcomes.append({"err": err_kind(e)})
        first = outcomes[0]
        case = {"u": u, "name": name, "feature": feat, "links": links, "acc": acc_res["ok"]}
        if any(o != first for o in outcomes):
            ctx.violation("identify_fn", case, f"outcome depends on the iteration order of the accessible mapping: {outcomes}", outcomes, "one outcome")
        acc_json = [{**fg_json(u, c, name), "cfws": cf.ids(acc[classes[c]])} for c in acc_order]
        reqs.append({"op": "C10.identify", **W, "feature": feat, "links": links, "acc": acc_json})
        checks.append(("identify_fn", case, first))
        # oracle
        exp = o_expected(cf, u, name, feat, cfws or [cf.unknown_id], pc, links, range(nC))
        judge(ctx, "identify_fn", case, cf, u, exp, first, cfws or [cf.unknown_id], feat, links, None, before_feature_setting=True)
        # --- Engine.set_compute_framework / get_compute_framework
        if "ok" in first:
            g_idx, s_ids = first["ok"]
            f2 = mk_feature(cf, name, feat)
            s_set = {cf.classes[i] for i in s_ids}
            try:
                Engine.set_compute_framework(None, f2, s_set)  # type: ignore[arg-type]
                r2: Dict[str, Any] = {"ok": cf.ids(f2.compute_frameworks)}
                picked = cf.id_of[f2.get_compute_framework()]
                if picked not in o_admissible_cfws(cf, u, g_idx, cfws or [cf.unknown_id], feat["cfw"]):
                    ctx.violation("setcfw_fn", case, f"get_compute_framework picked {picked}, not admissible", picked, o_admissible_cfws(cf, u, g_idx, cfws, feat["cfw"]))
                if f2.compute_frameworks is not None and picked != cf.id_of[next(iter(f2.compute_frameworks))]:
                    ctx.disagree("setcfw_fn", case, picked, "head of the set's iteration order")
            except ValueError as e:
                r2 = {"err": err_kind(e)}
            reqs.append({"op": "C10.setcfw", **W, "feature": feat, "cfws": s_ids})
            checks.append(("setcfw_fn", {"feature": feat, "cfws": s_ids}, r2))
            exp_set = [feat["cfw"]] if feat["cfw"] is not None else s_ids
            if r2 != {"ok": exp_set}:
                ctx.violation("setcfw_fn", {"feature": feat, "cfws": s_ids}, f"feature framework set {r2}, property says {exp_set}", r2, exp_set)
        del acc, items, orders
        dispose(classes)
        maybe_collect()
    outs = ctx.lean.batch(reqs)
    for (suite, case, impl), rq, o in zip(checks, reqs, outs):
        if suite == "accessible_fn":
            o2: Any = {"ok": sorted([c, sorted(s)] for c, s in o["ok"])} if "ok" in o else o
            nontriv = "ok" in impl and len(impl["ok"]) > 1
        elif suite == "identify_fn":
            r = o["r"]
            o2 = {"ok": [r["ok"][0], sorted(r["ok"][1])]} if "ok" in r else r
            nontriv = len(o["loop"]) >= 1
            ctx.tag("identify_candidates", len(o["loop"]))
            ctx.tag("identify_after_subclass_filter", len(o["sub"]))
        else:
            o2 = {"ok": sorted(o["ok"])} if "ok" in o else o
            nontriv = case["feature"]["cfw"] is not None
        ctx.case(suite, case, nontriv, **({"outcome": "ok" if "ok" in impl else impl["err"]} if suite != "accessible_fn" else {}))
        if impl != o2:
            ctx.disagree(suite, case, impl, o2)


def judge(ctx: Ctx, suite: str, case: Dict[str, Any], cf: Cfws, u: Dict[str, Any], exp: Dict[str, Any], impl: Dict[str, Any], api: Any, feat: Dict[str, Any], links: Any, model: Optional[Dict[str, Any]], before_feature_setting: bool = False) -> None:
    """the property: exactly one preferred admissible group -> it is used with admissible frameworks; otherwise rejected"""
    pref = exp["pref"]
    if "ok" in impl:
        g, fws = impl["ok"]
        if len(pref) != 1 or pref[0] != g:
            cls = finding_class(cf, u, exp, impl, api, feat, links)
            ctx.violation(suite, case, f"resolved to group {g}, but the admissible groups after preferring subclasses are {pref} (admissible: {exp['adm']})", impl, pref, finding_class=cls)
        else:
            # IdentifyFeatureGroupClass hands back the group's set; the feature's own setting is applied by set_compute_framework
            okf = o_admissible_cfws(cf, u, g, api, None if before_feature_setting else feat["cfw"])
            if not fws or any(f not in okf for f in fws) or (feat["cfw"] is not None and feat["cfw"] not in fws):
                ctx.violation(suite, case, f"framework set {fws} of the resolved group is not within the admissible frameworks {okf}", impl, okf)
    else:
        if str(impl["err"]).startswith("other:"):
            ctx.violation(suite, case, f"unexpected error {impl['err']}", impl, pref)
        elif len(pref) == 1:
            cls = finding_class(cf, u, exp, impl, api, feat, links)
            if cls is not None and model is not None and model != impl:
                cls = None
            ctx.violation(suite, case, f"rejected with {impl['err']} although exactly one admissible group exists after preferring subclasses: {pref}", impl, pref, finding_class=cls)


def suite_doc_resolve(ctx: Ctx, cf: Cfws) -> None:
    from mloda.core.api.plugin_docs import resolve_feature

    n = ctx.budget(150, 1500)
    reqs, impls, metas = [], [], []
    for _ in range(n):
        u = gen_universe(ctx, cf, next(_UID))
        classes = build(u, cf)
        for name in u["names"]:
            r = resolve_feature(name)
            if r.feature_group is not None:
                impl: Dict[str, Any] = {"r": "one", "c": classes.index(r.feature_group)}
            elif not r.candidates:
                impl = {"r": "none"}
            else:
                impl = {"r": "multiple"}
            reqs.append({"op": "C10.docResolve", **cf.world(u["parents"]), "fgs": [fg_json(u, c, name) for c in range(len(classes))]})
            impls.append(impl)
            metas.append({"u": u, "name": name})
            cands = [c for c in range(len(classes)) if name in u["classes"][c]["names"]]
            pref = [c for c in cands if not any(d != c and c in chain(u["parents"], d) for d in cands)]
            exp = {"r": "none"} if not cands else ({"r": "one", "c": pref[0]} if len(pref) == 1 else {"r": "multiple"})
            if exp != impl:
                ctx.violation("doc_resolve", metas[-1], f"resolve_feature gives {impl}, preferring subclasses gives {exp}", impl, exp)
            del r
        dispose(classes)
        maybe_collect()
    outs = ctx.lean.batch(reqs)
    for m, i, o in zip(metas, impls, outs):
        ctx.case("doc_resolve", m, i["r"] != "none", outcome=i["r"])
        o2 = {k: v for k, v in o.items() if k != "cs"}
        if i != o2:
            ctx.disagree("doc_resolve", m, i, o2)


# ------------------------------------------------------------------------------------------------
# end to end


def read_events(path: str) -> List[Dict[str, Any]]:
    import json

    try:
        return [json.loads(l) for l in open(path).read().splitlines() if l.strip()]
    except FileNotFoundError:
        return []


def suite_e2e(ctx: Ctx, cf: Cfws) -> None:
    from mloda.user import mloda

    n = ctx.budget(1200, 8000)
    link_side = F.make_group(F.uniq("LinkSide_"), root_data={"zz_linkside": [0]})  # a class outside every universe
    log = os.path.join(ctx.extra["_tmp"], "events.jsonl")
    os.environ[F.LOG_ENV] = log
    reqs: List[Dict[str, Any]] = []
    pend: List[Tuple[Dict[str, Any], Dict[str, Any], Dict[str, Any], Dict[str, Any], Any, Any, Any]] = []
    fixed = [
        # (universe spec, feature name index, feature, api ids, links) - the two known deviations and their neighbours
        ({"parents": [None, 0], "classes": [{"names": ["A"], "rule": [0, 1], "domain": "inherit", "idx": None}, {"names": ["A"], "rule": [0], "domain": "inherit", "idx": None}]}, {"domain": None, "cfw": None}, [0, 1], None),
        ({"parents": [None, 0], "classes": [{"names": ["A"], "rule": [0, 1], "domain": "inherit", "idx": None}, {"names": ["A"], "rule": "inherit", "domain": "inherit", "idx": None}]}, {"domain": None, "cfw": None}, [0, 1], None),
        ({"parents": [None], "classes": [{"names": ["A"], "rule": "any", "domain": "inherit", "idx": [["k"]]}]}, {"domain": None, "cfw": None}, [0], []),
        ({"parents": [None], "classes": [{"names": ["A"], "rule": "any", "domain": "inherit", "idx": [["k"]]}]}, {"domain": None, "cfw": None}, [0], None),
        ({"parents": [None, None], "classes": [{"names": ["A"], "rule": "any", "domain": "d1", "idx": None}, {"names": ["A"], "rule": "any", "domain": "d2", "idx": None}]}, {"domain": "d2", "cfw": None}, None, None),
        ({"parents": [None, None], "classes": [{"names": ["A"], "rule": "any", "domain": "d1", "idx": None}, {"names": ["A"], "rule": "any", "domain": "d2", "idx": None}]}, {"domain": None, "cfw": None}, None, None),
    ]
    plan: List[Tuple[Dict[str, Any], str, Dict[str, Any], Any, Any, Any, bool]] = []
    for k, (spec, feat, api_ids, links) in enumerate(fixed):
        uid = next(_UID)
        # the fixed specs use position 0/1 for PyArrowTable / PandasDataFrame
        pa_id, pd_id = cf.id_of[F.PyArrowTable], cf.id_of[F.PandasDataFrame]
        m = {0: pa_id, 1: pd_id}
        u = {"uid": uid, "parents": spec["parents"], "names": [f"u{uid}a", f"u{uid}b"],
             "classes": [{**c, "names": [f"u{uid}a"], "rule": ([m[i] for i in c["rule"]] if isinstance(c["rule"], list) else c["rule"])} for c in spec["classes"]]}  # fmt: skip
        api = None if api_ids is None else [m[i] for i in api_ids]
        plan.append((u, f"u{uid}a", feat, api, None, links, False))
    while len(plan) < n:
        u = gen_universe(ctx, cf, next(_UID))
        name, feat = gen_feature(ctx, cf, u)
        api_py, api_ids, shape = api_value(ctx, cf)
        use_patch = ctx.rng.random() < 0.3
        pc = gen_collector(ctx, len(u["parents"]), allow_none=use_patch)
        if pc is not None and not use_patch and not pc["enabled"]:
            pc["enabled"] = [0]
        links = gen_links(ctx, max_links=1)
        plan.append((u, name, feat, api_ids, pc, links, use_patch))

    for u, name, feat, api_ids, pc, links, use_patch in plan:
        nC = len(u["parents"])
        if pc is None and not use_patch:
            pc = {"disabled": [], "enabled": list(range(nC))}
        outcomes = []
        for order in creation_orders(ctx, u["parents"], 2):
            classes = build(u, cf, order)
            if api_ids is None:
                api_py: Any = None
            elif ctx.rng.random() < 0.5 or cf.unknown_id in api_ids:
                api_py = [cf.classes[i].__name__ if i != cf.unknown_id else "NoSuchFramework" for i in api_ids]
            else:
                api_py = {cf.classes[i] for i in api_ids}
            open(log, "w").close()
            fobj = mk_feature(cf, name, feat, via_options=ctx.rng.random() < 0.3)
            try:
                ctxm = patched_discovery(classes) if use_patch else None
                if ctxm:
                    ctxm.__enter__()
                try:
                    res = mloda.run_all([fobj], compute_frameworks=api_py, links=mk_links(links, link_side), plugin_collector=mk_collector(pc, classes))
                finally:
                    if ctxm:
                        ctxm.__exit__()
                ev = [e for e in read_events(log) if e.get("ev") == "begin"]
                ran = sorted({e["group"] for e in ev})
                names_ = [k.__name__ for k in classes]
                out: Dict[str, Any] = {"ran": [names_.index(g) for g in ran if g in names_], "types": sorted({type(t).__name__ for t in res}), "_types": [type(t) for t in res]}
            except Exception as e:
                out = {"err": err_kind(e)}
            outcomes.append(out)
            dispose(classes)
            maybe_collect()
        first = outcomes[0]
        case = {"u": u, "name": name, "feature": feat, "api": api_ids, "pc": pc, "links": links, "patched_discovery": use_patch}
        cmp0 = {k: v for k, v in first.items() if k != "_types"}
        for o in outcomes[1:]:
            if {k: v for k, v in o.items() if k not in ("_types", "types")} != {k: v for k, v in cmp0.items() if k != "types"}:
                ctx.violation("e2e", case, f"outcome depends on the class creation order / hashing: {[{k: v for k, v in x.items() if k != '_types'} for x in outcomes]}", outcomes, "one outcome")
        # model: SetupComputeFramework then resolve
        W = cf.world(u["parents"])
        reqs.append({"op": "C10.setup", **W, "api": api_ids, "requested": [feat["cfw"]]})
        # the engine's framework argument is the setup result; when setup fails the resolve line is ignored
        offered = [i for i in range(len(cf.classes)) if not api_ids or i in api_ids]
        reqs.append({"op": "C10.resolve", **W, "pc": pc, "fgs": [fg_json(u, c, name) for c in range(nC)], "cfws": offered, "feature": feat, "links": links})
        pend.append((case, u, feat, first, api_ids, links, pc))
    outs = ctx.lean.batch(reqs)
    for k, (case, u, feat, first, api_ids, links, pc) in enumerate(pend):
        ms, mr = outs[2 * k], outs[2 * k + 1]
        model: Dict[str, Any] = ms if "err" in ms else (mr["r"] if "err" in mr["r"] else {"ok": [mr["r"]["ok"][0], sorted(mr["r"]["ok"][1])]})
        if "err" in first:
            impl: Dict[str, Any] = {"err": first["err"]}
        else:
            impl = {"ran": first["ran"], "types": first["types"]}
        ctx.case("e2e", case, True, outcome=impl.get("err", "ok"), api=("none" if api_ids is None else "empty" if not api_ids else "given"), patched=case["patched_discovery"])
        # model correspondence
        if "err" in model:
            if impl != model:
                ctx.disagree("e2e", case, impl, model)
        else:
            g, fws = model["ok"]
            types_ok = {t.__name__ for t in cf.table_types(fws)}
            if "err" in impl or impl["ran"] != [g] or not set(impl["types"]) <= types_ok:
                ctx.disagree("e2e", case, impl, {"ran": [g], "types_within": sorted(types_ok)})
        # oracle
        api_o = api_ids if api_ids else None
        exp = o_expected(cf, u, case["name"], feat, api_o, pc, links, range(len(u["parents"])))
        if "err" in impl:
            judge(ctx, "e2e", case, cf, u, exp, impl, api_o, feat, links, model if "err" in model else None)
        else:
            if len(impl["ran"]) != 1:
                ctx.violation("e2e", case, f"calculate_feature ran for groups {impl['ran']}", impl, exp["pref"])
            else:
                g = impl["ran"][0]
                judge(ctx, "e2e", case, cf, u, exp, {"ok": [g, o_admissible_cfws(cf, u, g, api_o, feat["cfw"]) or [-1]]}, api_o, feat, links, None)
                ok_types = cf.table_types(o_admissible_cfws(cf, u, g, api_o, feat["cfw"]))
                for t in first["_types"]:
                    if t not in ok_types:
                        ctx.violation("e2e", case, f"returned table of python type {t.__name__}, admissible frameworks give {[x.__name__ for x in ok_types]}", impl, [x.__name__ for x in ok_types])



def gen_multi_universe(ctx: Ctx, cf: Cfws, uid: int) -> Dict[str, Any]:
    """2-4 groups serving the same few names; most of them are responsible for one value of the option `variant` (read with
    Options.get, i.e. from group OR context options), mostly different values; some for every value"""
    n = ctx.rng.randint(2, 4)
    names = [f"u{uid}a", f"u{uid}b"]
    values = ["a", "b", "c"]
    ctx.rng.shuffle(values)
    parents: List[Optional[int]] = []
    classes = []
    for c in range(n):
        parents.append(None if c == 0 or ctx.rng.random() < 0.55 else ctx.rng.randrange(c))
        r = ctx.rng.random()
        opt: Any = ["variant", values[c]] if c < 3 and r < 0.8 else (None if r < 0.9 else ["variant", ctx.rng.choice(values)])
        rule: Any = "inherit" if ctx.rng.random() < 0.85 else sorted(set(ctx.rng.sample(cf.avail + cf.unavail[:1], 2)))
        classes.append({
            "names": list(names) if ctx.rng.random() < 0.7 else [ctx.rng.choice(names)],
            "rule": rule,
            "domain": "inherit" if ctx.rng.random() < 0.85 else ctx.rng.choice(["d1", "d2"]),
            "idx": None,
            "opt": opt,
        })
    return {"uid": uid, "parents": parents, "classes": classes, "names": names}


def gen_request(ctx: Ctx, cf: Cfws, u: Dict[str, Any]) -> List[Dict[str, Any]]:
    """2-4 pairwise different features; equal names are frequent, differing in group options, in context options only, in
    the option category, in domain or in the feature-level framework; mostly values some group is responsible for"""
    k = ctx.rng.randint(2, 4)
    served = [(nm, c["opt"][1]) for c in u["classes"] for nm in c["names"] if c.get("opt")] or [(u["names"][0], "a")]
    domains = sorted({c["domain"] for c in u["classes"] if c["domain"] != "inherit"} | {"default_domain"})

    def some_variant(name: str) -> str:
        vs = [v for nm, v in served if nm == name]
        return ctx.rng.choice(vs) if vs and ctx.rng.random() < 0.9 else ctx.rng.choice(["a", "b", "c", "zz"])

    feats: List[Dict[str, Any]] = []
    tries = 0
    while len(feats) < k and tries < 40:
        tries += 1
        if feats and ctx.rng.random() < 0.65:  # sibling of an earlier feature: same name, one setting changed
            b = ctx.rng.choice(feats)
            f = {"name": b["name"], "group": dict(b["group"]), "context": dict(b["context"]), "domain": b["domain"], "cfw": b["cfw"]}
            m = ctx.rng.choice(["context", "context", "context", "group", "group", "move", "domain", "cfw", "other"])
            if m in ("context", "group"):
                f[m]["variant"] = some_variant(f["name"])
                f["group" if m == "context" else "context"].pop("variant", None)
            elif m == "move":  # same value, other option category
                for src, dst in (("group", "context"), ("context", "group")):
                    if "variant" in f[src]:
                        f[dst]["variant"] = f[src].pop("variant")
                        break
            elif m == "domain":
                f["domain"] = ctx.rng.choice([None] + domains)
            elif m == "cfw":
                f["cfw"] = ctx.rng.choice([None] + cf.avail)
            else:  # a key may live in one category only (Options rejects duplicates)
                cat = ctx.rng.choice(["group", "context"])
                f["context" if cat == "group" else "group"].pop("other", None)
                f[cat]["other"] = ctx.rng.choice([1, 2])
        else:
            nm, v = ctx.rng.choice(served)
            f = {"name": nm, "group": {}, "context": {}, "domain": None, "cfw": None}
            if ctx.rng.random() < 0.92:
                f["group" if ctx.rng.random() < 0.5 else "context"]["variant"] = v if ctx.rng.random() < 0.9 else "zz"
            if ctx.rng.random() < 0.1:
                f["domain"] = ctx.rng.choice(domains)
        if f not in feats:
            feats.append(f)
    return feats


def domain_none_pair(feats: List[Dict[str, Any]]) -> bool:
    """two features equal in name and all options of which exactly one has a domain"""
    for a in feats:
        for b in feats:
            if a is not b and a["name"] == b["name"] and a["group"] == b["group"] and a["context"] == b["context"] and (a["domain"] is None) != (b["domain"] is None):
                return True
    return False


def mk_request_feature(cf: Cfws, f: Dict[str, Any]) -> Any:
    from mloda.core.abstract_plugins.components.feature import Feature
    from mloda.core.abstract_plugins.components.options import Options

    fwn = cf.classes[f["cfw"]].__name__ if f["cfw"] is not None else None
    return Feature(f["name"], options=Options(group=dict(f["group"]), context=dict(f["context"])), domain=f["domain"], compute_framework=fwn)


def request_orders(ctx: Ctx, k: int) -> List[List[int]]:
    perms = [list(p) for p in itertools.permutations(range(k))]
    if len(perms) > 6:
        perms = [perms[0], perms[-1]] + ctx.rng.sample(perms[1:-1], 4)
    return perms


def suite_e2e_multi(ctx: Ctx, cf: Cfws) -> None:
    """several features per request - among them features of equal name whose group / context options differ - on groups
    whose match criteria read an option value: per feature the generated group that computed it, every requested feature
    yields its table, for every order of the request"""
    from mloda.user import mloda

    n = ctx.budget(600, 6000)
    log = os.path.join(ctx.extra["_tmp"], "events_multi.jsonl")
    os.environ[F.LOG_ENV] = log
    reqs: List[Dict[str, Any]] = []
    pend: List[Tuple[Dict[str, Any], Dict[str, Any], List[Dict[str, Any]], Any, List[Tuple[List[int], Dict[str, Any]]]]] = []
    fixed_done = False
    for k in range(n):
        u = gen_multi_universe(ctx, cf, next(_UID))
        feats = gen_request(ctx, cf, u)
        if not fixed_done:  # the textbook constellation first: two groups, one per option value, both values requested
            fixed_done = True
            nm = u["names"][0]
            u = {"uid": u["uid"], "names": u["names"], "parents": [None, 0],
                 "classes": [{"names": [nm], "rule": "inherit", "domain": "inherit", "idx": None, "opt": ["variant", v]} for v in ("a", "b")]}  # fmt: skip
            feats = [{"name": nm, "group": {}, "context": {"variant": v}, "domain": None, "cfw": None} for v in ("a", "b")]
        if len(feats) < 2:
            continue
        nC = len(u["parents"])
        api_ids: Any = None if ctx.rng.random() < 0.7 or any(f["cfw"] is not None for f in feats) else [ctx.rng.choice(cf.avail)]
        pc = {"disabled": [], "enabled": list(range(nC))}
        runs: List[Tuple[List[int], Dict[str, Any]]] = []
        for order in request_orders(ctx, len(feats)):
            classes = build(u, cf, creation_orders(ctx, u["parents"], 2)[-1])
            names_ = [c.__name__ for c in classes]
            open(log, "w").close()
            try:
                res = mloda.run_all(
                    [mk_request_feature(cf, feats[i]) for i in order],
                    compute_frameworks=None if api_ids is None else {cf.classes[i] for i in api_ids},
                    plugin_collector=mk_collector(pc, classes),
                )
                ev = [e for e in read_events(log) if e.get("ev") == "begin"]
                computed = sorted({(names_.index(e["group"]), nm) for e in ev if e["group"] in names_ for nm in e["features"]})
                tables = set()
                for t in res:
                    for col, vals in F.to_columns(t).items():
                        for v in set(vals):
                            tables.add((names_.index(v) if v in names_ else -1, col))
                out: Dict[str, Any] = {"computed": [list(x) for x in computed], "tables": [list(x) for x in sorted(tables)]}
            except Exception as e:
                out = {"err": err_kind(e)}
            runs.append((order, out))
            dispose(classes)
            maybe_collect()
        W = cf.world(u["parents"])
        offered = [i for i in range(len(cf.classes)) if not api_ids or i in api_ids]
        for f in feats:
            opts = {**f["context"], **f["group"]}
            reqs.append({"op": "C10.setup", **W, "api": api_ids, "requested": [x["cfw"] for x in feats]})
            reqs.append({"op": "C10.resolve", **W, "pc": pc, "fgs": [fg_json(u, c, f["name"], opts) for c in range(nC)], "cfws": offered, "feature": {"domain": f["domain"], "cfw": f["cfw"]}, "links": None})
        pend.append(({"u": u, "request": feats, "api": api_ids}, u, feats, api_ids, runs))
    outs = ctx.lean.batch(reqs)
    pos = 0
    for case, u, feats, api_ids, runs in pend:
        per_model = []
        per_exp = []
        for f in feats:
            ms, mr = outs[pos], outs[pos + 1]
            pos += 2
            per_model.append(ms if "err" in ms else mr["r"])
            per_exp.append(o_expected(cf, u, f["name"], {"domain": f["domain"], "cfw": f["cfw"]}, api_ids, None, None, range(len(u["parents"])), {**f["context"], **f["group"]}))
        all_one = all(len(e["pref"]) == 1 for e in per_exp)
        exp_pairs = sorted({(e["pref"][0], f["name"]) for e, f in zip(per_exp, feats)}) if all_one else None
        same_name = len({f["name"] for f in feats}) < len(feats)
        ctx.case("e2e_multi", case, same_name, n_features=len(feats), same_name=same_name, expected="ok" if all_one else "rejected")
        ctx.evaluations += len(runs) - 1
        for order, out in runs:
            ocase = {**case, "order": order}
            # model: building the request compares every feature with the earlier ones (Features.check_duplicate_feature ->
            # Feature.__eq__); comparing a Domain with None raises; then features are resolved in request order, the first
            # failure is raised
            model: Dict[str, Any] = {}
            if domain_none_pair(feats):
                model = {"err": "domainCompare"}
            for i in ([] if model else order):
                if "err" in per_model[i]:
                    model = {"err": per_model[i]["err"]}
                    break
            if not model:
                model = {"computed": [list(x) for x in sorted({(per_model[i]["ok"][0], feats[i]["name"]) for i in order})]}
            impl_cmp = {"err": out["err"]} if "err" in out else {"computed": out["computed"]}
            if impl_cmp != model:
                ctx.disagree("e2e_multi", ocase, impl_cmp, model)
            # oracle
            if all_one:
                assert exp_pairs is not None
                want = [list(x) for x in exp_pairs]
                if "err" in out:
                    cls = None
                    if out["err"] == "domainCompare" and domain_none_pair(feats):
                        cls = "same-name-features-domain-vs-none"
                    for e, f, m in zip(per_exp, feats, per_model):
                        c_ = finding_class(cf, u, e, {"err": out["err"]}, api_ids, {"domain": f["domain"], "cfw": f["cfw"]}, None)
                        if c_ is not None and m == {"err": out["err"]}:
                            cls = c_
                    ctx.violation("e2e_multi", ocase, f"request rejected with {out['err']} although every feature has exactly one admissible group: {want}", out, want, finding_class=cls)
                elif out["computed"] != want:
                    ctx.violation("e2e_multi", ocase, f"(group, feature) computed: {out['computed']}, but each feature's own name/options select {want}", out, want)
                elif out["tables"] != want:
                    ctx.violation("e2e_multi", ocase, f"returned tables carry (group, column) {out['tables']}, every requested feature should yield its table: {want}", out, want)
            else:
                if "err" not in out:
                    bad = [f for e, f in zip(per_exp, feats) if len(e["pref"]) != 1]
                    ctx.violation("e2e_multi", ocase, f"request accepted although feature {bad[0]} has {'no' if not per_exp[feats.index(bad[0])]['pref'] else 'several'} admissible group(s); computed {out['computed']}", out, "rejected")
                elif str(out["err"]).startswith("other:"):
                    ctx.violation("e2e_multi", ocase, f"unexpected error {out['err']}", out, "resolution error")
        # independence of the request order
        kinds = [("err" if "err" in o else str(o["computed"]) + str(o["tables"])) for _, o in runs]
        if len(set(kinds)) > 1:
            ctx.violation("e2e_multi", case, f"outcome depends on the order of the features in the request: {[(o, r) for o, r in runs][:4]}", [r for _, r in runs], "one outcome")


def suite_e2e_links_framework(ctx: Ctx, cf: Cfws) -> None:
    """two root groups pinned to different frameworks, one link, a consumer with its own framework rule: the returned table
    must have the data type of a framework admissible for the consumer (the framework sets fixed by set_compute_framework
    are rewritten later by ResolveComputeFrameworks - outside Model/Resolve, judged by the oracle only)"""
    from mloda.user import mloda
    from mloda.core.abstract_plugins.components.feature import Feature
    from mloda.core.abstract_plugins.components.link import Link, JoinSpec

    fws = [F.PyArrowTable, F.PandasDataFrame, F.PythonDictFramework]
    grid = [(a, b, jt, z) for a in range(3) for b in range(3) if a != b for jt in ("inner", "left", "right", "outer") for z in ("left", "right", "any")]
    if ctx.quick:
        grid = [g for g in grid if g[2] == "right" or ctx.rng.random() < 0.35]
    for a, b, jt, z in grid:
        A = F.make_group(F.uniq("LA_"), root_data={"k": [1, 2, 3], "a": [10, 20, 30]}, frameworks={fws[a]}, index_columns=[("k",)])
        B = F.make_group(F.uniq("LB_"), root_data={"k": [2, 3, 4], "b": [200, 300, 400]}, frameworks={fws[b]}, index_columns=[("k",)])
        zrule = None if z == "any" else {fws[a] if z == "left" else fws[b]}
        Z = F.make_group(F.uniq("LZ_"), derived={"z": {"parents": ["a", "b"], "expr": ["add", ["col", "a"], ["col", "b"]]}}, frameworks=zrule)
        case = {"left_fw": fws[a].__name__, "right_fw": fws[b].__name__, "jointype": jt, "consumer_rule": z}
        try:
            res = mloda.run_all([Feature("z")], compute_frameworks={fws[a], fws[b]}, links={Link(jt, JoinSpec(A, ("k",)), JoinSpec(B, ("k",)))}, plugin_collector=F.collector({A, B, Z}))
            got: Any = sorted({type(t).__name__ for t in res})
            types = [type(t) for t in res]
        except Exception as e:
            got, types = "error:" + str(e)[-120:], []
        ctx.case("e2e_links_framework", case, True, jointype=jt, consumer_rule=z, outcome=str(got)[:40])
        adm = [fws[a], fws[b]] if zrule is None else list(zrule)
        ok_types = [f.expected_data_framework() for f in adm]
        for t in types:
            if t not in ok_types:
                cls = None
                if jt == "right" and z == "left" and t is fws[b].expected_data_framework():
                    cls = "consumer-framework-rewritten-by-right-join-link"
                ctx.violation("e2e_links_framework", case, f"consumer restricted to {[f.__name__ for f in adm]} returned a {t.__name__}", got, [x.__name__ for x in ok_types], finding_class=cls)


# ------------------------------------------------------------------------------------------------


def run(ctx: Ctx) -> None:
    ctx.extra["rule"] = (
        "universes: 1-5 generated root groups, random single-inheritance parents, each class with its own supported names (two overlapping "
        "names), own or inherited domain / framework rule (any, or 1-3 of the loaded frameworks incl. two unavailable ones) / index columns; "
        "collector: None, disabled-only, enabled+disabled; API frameworks: None, empty, classes, names, unknown names; feature: name, optional "
        "domain and framework (parameter or option); links: None, empty set, 1-2 links; identify_fn tries 4 dict orders per case, e2e creates "
        "every universe twice in different class-creation orders; non-trivial = at least one candidate survives the filter loop / a framework "
        "restriction is present; e2e_multi: 2-4 groups whose criteria read the option `variant` (group or context), requests of 2-4 pairwise "
        "different features (same name with different group / context options, option category, domain, framework), all request orders "
        "(<= 6 per case); non-trivial = at least two requested features share a name"
    )
    cf = Cfws()
    tmp = tempfile.mkdtemp(prefix="c10_")
    ctx.extra["_tmp"] = tmp
    try:
        suite_collector(ctx)
        suite_setup(ctx, cf)
        suite_function_level(ctx, cf)
        suite_doc_resolve(ctx, cf)
        suite_e2e(ctx, cf)
        suite_e2e_multi(ctx, cf)
        suite_e2e_links_framework(ctx, cf)
    finally:
        os.environ.pop(F.LOG_ENV, None)
        ctx.extra.pop("_tmp", None)
        import shutil

        shutil.rmtree(tmp, ignore_errors=True)


def search(ctx: Ctx, broken: List[str]) -> None:
    run(ctx)


def replay(ctx: Ctx, body: Dict[str, Any]) -> None:
    run(ctx)
