"""C17 - declared feature types are enforced exactly as documented."""
from __future__ import annotations

import datetime
import decimal
from typing import Any, Dict, List, Optional

import pyarrow as pa

from harness.core import Ctx
from harness import fgfactory as F

ASSUMPTIONS = [
    "pyarrow builds arrays of the requested Arrow type; str(pa.DataType) names are stable (used as keys of Gen.fromArrowTable)",
    "the documented tables are the DataTypeValidator docstrings (docs page's 'lenient' table is the strict one, DESIGN O14)",
]

NUMERIC = {"INT32", "INT64", "FLOAT", "DOUBLE"}
TS = {"TIMESTAMP_MILLIS", "TIMESTAMP_MICROS"}
WIDEN = {"INT64": {"INT32"}, "DOUBLE": {"FLOAT", "INT32", "INT64"}, "TIMESTAMP_MICROS": {"TIMESTAMP_MILLIS"}}


def doc_strict(d: str, a: str) -> bool:
    return d == a or a in WIDEN.get(d, set())


def doc_lenient(d: str, a: str) -> bool:
    return d == a or (d in NUMERIC and a in NUMERIC) or (d in TS and a in TS)


def sample_values(t: pa.DataType) -> List[Any]:
    if pa.types.is_integer(t):
        return [1, 2]
    if pa.types.is_floating(t):
        return [1.5, 2.5]
    if pa.types.is_boolean(t):
        return [True, False]
    if pa.types.is_string(t) or pa.types.is_large_string(t):
        return ["a", "b"]
    if pa.types.is_binary(t) or pa.types.is_large_binary(t):
        return [b"a", b"b"]
    if pa.types.is_date(t):
        return [datetime.date(2020, 1, 1), datetime.date(2020, 1, 2)]
    if pa.types.is_timestamp(t):
        return [datetime.datetime(2020, 1, 1), datetime.datetime(2020, 1, 2)]
    if pa.types.is_decimal(t):
        return [decimal.Decimal("1.5"), decimal.Decimal("2.5")]
    if pa.types.is_list(t):
        return [[1], [2]]
    if pa.types.is_time(t):
        return [datetime.time(1, 0), datetime.time(2, 0)]
    if pa.types.is_duration(t):
        return [datetime.timedelta(seconds=1), datetime.timedelta(seconds=2)]
    return [None, None]


def run(ctx: Ctx) -> None:
    from mloda.core.abstract_plugins.components.data_types import DataType
    from mloda.core.abstract_plugins.components.validators.datatype_validator import DataTypeValidator, DataTypeMismatchError
    from mloda.core.abstract_plugins.components.feature import Feature
    from mloda.core.abstract_plugins.components.feature_set import FeatureSet
    from mloda.core.abstract_plugins.components.options import Options
    from mloda.user import mloda

    ctx.extra["rule"] = (
        "tables: all 11x11 (declared, actual) pairs; validate_fn: generated (columns, typed/untyped features, strict option) "
        "called on the real DataTypeValidator.validate in the set's iteration order; e2e: run_all with a generated root group "
        "producing a column of a given Arrow type x declared type x {lenient, strict option, strict API flag} x framework; "
        "non-trivial = declared type present and actual type supported"
    )
    members = list(DataType)
    names = [m.name for m in members]

    # ---- suite 1: tables (exhaustive) -------------------------------------------------------------
    reqs = [{"op": "C17.compat", "d": d, "a": a} for d in names for a in names]
    outs = ctx.lean.batch(reqs)
    for r, o in zip(reqs, outs):
        d, a = DataType[r["d"]], DataType[r["a"]]
        impl = {"strict": DataTypeValidator._types_compatible(d, a), "loose": DataTypeValidator._types_loosely_compatible(d, a)}
        ctx.case("tables", [r["d"], r["a"]], True)
        if impl["strict"] != o.get("strict") or impl["loose"] != o.get("loose"):
            ctx.disagree("tables", r, impl, o)
        exp = {"strict": doc_strict(r["d"], r["a"]), "loose": doc_lenient(r["d"], r["a"])}
        if impl != exp:
            ctx.violation("tables", r, f"compatibility of declared {r['d']} with actual {r['a']} is {impl}, documented {exp}", impl, exp)
    # arrow round trip
    probes = [pa.int8(), pa.int16(), pa.int32(), pa.int64(), pa.uint32(), pa.float16(), pa.float32(), pa.float64(), pa.bool_(), pa.string(),
              pa.large_string(), pa.binary(), pa.large_binary(), pa.date32(), pa.date64(), pa.timestamp("s"), pa.timestamp("ms"), pa.timestamp("us"),
              pa.timestamp("ns"), pa.decimal128(38, 18), pa.decimal128(10, 2), pa.list_(pa.int64()), pa.null(), pa.time32("s"), pa.duration("us")]  # fmt: skip
    outs = ctx.lean.batch([{"op": "C17.fromArrow", "t": str(t)} for t in probes])
    for t, o in zip(probes, outs):
        try:
            impl_t: Optional[str] = DataType.from_arrow_type(t).name
        except ValueError:
            impl_t = None
        ctx.case("fromArrow", str(t), impl_t is not None)
        if impl_t != o:
            ctx.disagree("fromArrow", str(t), impl_t, o)
    for m in members:
        back = DataType.from_arrow_type(DataType.to_arrow_type(m))
        if back != m:
            ctx.violation("fromArrow", m.name, f"from_arrow_type(to_arrow_type({m.name})) = {back.name}")

    # ---- suite 2: validate() function level ------------------------------------------------------
    arrow_types = [DataType.to_arrow_type(m) for m in members] + [pa.int8(), pa.list_(pa.int64()), pa.timestamp("ns")]
    n = ctx.budget(300, 6000)
    cases, impls = [], []
    for _ in range(n):
        ncols = ctx.rng.randint(1, 4)
        cols = []
        for i in range(ncols):
            t = ctx.rng.choice(arrow_types)
            cols.append((f"c{i}", t))
        table = pa.table({c: pa.array(sample_values(t), type=t) for c, t in cols})
        feats = []
        nfe = ctx.rng.randint(1, 4)
        for i in ctx.rng.sample(range(5), nfe):
            declared = ctx.rng.choice([None] + names + names)
            if declared is not None and ctx.rng.random() < 0.5 and i < ncols:
                # bias towards the interesting diagonal region
                try:
                    act = DataType.from_arrow_type(cols[i][1]).name
                    declared = ctx.rng.choice([act, declared] + [k for k in names if doc_lenient(k, act)])
                except ValueError:
                    pass
            strict = ctx.rng.choice([None, None, True, False])
            feats.append({"name": f"c{i}", "declared": declared, "strict": strict})
        fobjs = []
        for f in feats:
            fopts: Any = {}
            if f["strict"] is not None:
                fopts = {"strict_type_enforcement": f["strict"]} if ctx.rng.random() < 0.5 else Options(context={"strict_type_enforcement": f["strict"]})
            fobjs.append(Feature(f["name"], options=fopts, data_type=DataType[f["declared"]] if f["declared"] else None))
        fs = FeatureSet()
        for fo in fobjs:
            fs.add(fo)
        order = [str(fo.name) for fo in fs.features]  # the real iteration order of the set
        by = {f["name"]: f for f in feats}
        feats_in_order = [by[nm] for nm in order]
        try:
            DataTypeValidator.validate(table, fs)
            impl = {"r": "ok"}
        except DataTypeMismatchError as e:
            impl = {"r": "mismatch", "col": e.feature_name, "declared": e.declared.name, "actual": e.actual.name}
        case = {"op": "C17.validate", "cols": [{"name": c, "arrow": str(t)} for c, t in cols], "feats": feats_in_order, "apiStrict": False}
        cases.append(case)
        impls.append(impl)
        # oracle, order-independent: raises iff some feature violates its declaration under the documented tables
        viol = False
        for f in feats:
            if f["declared"] is None:
                continue
            m = [t for c, t in cols if c == f["name"]]
            if not m:
                continue
            try:
                act = DataType.from_arrow_type(m[0]).name
            except ValueError:
                continue
            okk = doc_strict(f["declared"], act) if f["strict"] else doc_lenient(f["declared"], act)
            viol = viol or not okk
        ctx.case("validate_fn", case, any(f["declared"] for f in feats), outcome=impl["r"])
        if viol != (impl["r"] == "mismatch"):
            ctx.violation("validate_fn", case, f"validate outcome {impl} but documented tables say mismatch={viol}", impl, viol)
    outs = ctx.lean.batch(cases)
    for c, i, o in zip(cases, impls, outs):
        if i != o:
            ctx.disagree("validate_fn", c, i, o)

    # ---- suite 3: end to end through run_all ------------------------------------------------------
    from mloda_plugins.compute_framework.base_implementations.pyarrow.table import PyArrowTable

    def make_root(colspec: Dict[str, pa.DataType], fw: Any) -> Any:
        def calc(cls: Any, data: Any, features: Any) -> Any:
            want = features.get_all_names()
            t = pa.table({c: pa.array(sample_values(ty), type=ty) for c, ty in colspec.items() if c in want})
            if fw is PyArrowTable:
                return t
            if fw is F.PandasDataFrame:
                return t.to_pandas()
            return t.to_pylist()

        return F.make_group(F.uniq("T17_"), root_data={c: [0, 0] for c in colspec}, extra={"calculate_feature": classmethod(calc)})

    e2e_cases: List[Dict[str, Any]] = []
    pairs = [(d, a) for d in names for a in names]
    if ctx.quick:
        # full matrix on the lenient source, sampled for the two strict sources
        plan = [(d, a, "lenient") for d, a in pairs] + [(d, a, ctx.rng.choice(["option", "api", "option_context"])) for d, a in pairs if doc_lenient(d, a) or ctx.rng.random() < 0.15]
    else:
        plan = [(d, a, s) for d, a in pairs for s in ("lenient", "option", "api", "option_context")]
    for d, a, src in plan:
        e2e_cases.append({"declared": d, "actual": a, "source": src, "fw": "pa", "mix": ctx.rng.choice([False, True])})
    # unsupported produced types and undeclared features
    for t in [pa.int8(), pa.list_(pa.int64()), pa.timestamp("ns")]:
        e2e_cases.append({"declared": ctx.rng.choice(names), "actual_arrow": str(t), "source": "lenient", "fw": "pa", "mix": False})
    for a in names:
        e2e_cases.append({"declared": None, "actual": a, "source": ctx.rng.choice(["lenient", "api"]), "fw": "pa", "mix": False})
    # other frameworks (known finding class: typed feature on a framework whose data has no Arrow schema)
    for fwk in ("pd", "py"):
        for d, a in [("INT64", "INT64"), ("STRING", "INT64"), ("DOUBLE", "INT32")] + ([] if ctx.quick else ctx.rng.sample(pairs, 20)):
            e2e_cases.append({"declared": d, "actual": a, "source": "lenient", "fw": fwk, "mix": False})
        e2e_cases.append({"declared": None, "actual": "INT64", "source": "lenient", "fw": fwk, "mix": False})

    arrow_by_str = {str(t): t for t in [pa.int8(), pa.list_(pa.int64()), pa.timestamp("ns")]}
    lean_reqs, lean_idx = [], []
    for k, c in enumerate(e2e_cases):
        fw = F.FW_SHORT[c["fw"]]
        at = arrow_by_str[c["actual_arrow"]] if "actual_arrow" in c else DataType.to_arrow_type(DataType[c["actual"]])
        colspec = {"x": at}
        if c["mix"]:
            colspec["u"] = pa.string()  # an untyped sibling in the same group
        root = make_root(colspec, fw)
        opts: Any = {"strict_type_enforcement": True} if c["source"] == "option" else {}
        if c["source"] == "option_context":
            opts = Options(context={"strict_type_enforcement": True})  # an option is an option wherever it is kept
        feats: List[Any] = [Feature("x", options=opts, data_type=DataType[c["declared"]] if c["declared"] else None)]
        if c["mix"]:
            feats.append(Feature("u"))
        try:
            res = mloda.run_all(feats, compute_frameworks={fw}, plugin_collector=F.collector({root}), strict_type_enforcement=(c["source"] == "api"))
            impl = "ok"
            got_cols = sorted(sum([F.columns_of(r) for r in res], []))
            if got_cols != sorted(colspec.keys()):
                impl = f"ok-but-columns {got_cols}"
        except Exception as e:  # mloda wraps worker errors in Exception(exc_info, msg)
            s = repr(e) + str(e)
            if "DataTypeMismatchError" in s or "coercion not supported" in s:
                impl = "mismatch"
            else:
                impl = "error:" + type(e).__name__ + ":" + ("AttributeError-column_names" if "has no attribute 'column_names'" in s else s[-200:])
        # oracle from the property text
        if c["declared"] is None or "actual_arrow" in c:
            exp = "ok"
        else:
            okk = doc_strict(c["declared"], c["actual"]) if c["source"] in ("option", "api", "option_context") else doc_lenient(c["declared"], c["actual"])
            exp = "ok" if okk else "mismatch"
        nontriv = c["declared"] is not None and "actual_arrow" not in c
        ctx.case("e2e", c, nontriv, fw=c["fw"], source=c["source"], expected=exp)
        if impl != exp:
            cls = "typed-feature-on-non-arrow-framework" if (c["fw"] in ("pd", "py") and c["declared"] is not None and "AttributeError" in impl) else None
            ctx.violation("e2e", c, f"run_all outcome {impl!r}, property says {exp!r}", impl, exp, finding_class=cls)
        if c["fw"] == "pa":
            lean_reqs.append({"op": "C17.validate", "cols": [{"name": n_, "arrow": str(t_)} for n_, t_ in colspec.items()],
                              "feats": [{"name": "x", "declared": c["declared"], "strict": True if c["source"] in ("option", "option_context") else None}] + ([{"name": "u", "declared": None, "strict": None}] if c["mix"] else []),
                              "apiStrict": c["source"] == "api"})  # fmt: skip
            lean_idx.append((k, impl))
    outs = ctx.lean.batch(lean_reqs)
    for (k, impl), rq, o in zip(lean_idx, lean_reqs, outs):
        if (impl if impl in ("ok", "mismatch") else "other") != o.get("r"):
            ctx.disagree("e2e", e2e_cases[k], impl, o)

    # ---- suite 4: request vs feature-group declaration conflict ---------------------------------
    from mloda.core.core.engine import Engine

    reqs = []
    impls2 = []
    opt_names: List[Optional[str]] = [None] + names
    for r in opt_names:
        for g in opt_names:
            fgcls = F.make_group(F.uniq("T17c_"), root_data={"x": [1]}, data_type_rule=(lambda feature, g=g: DataType[g] if g else None))
            feat = Feature("x", data_type=DataType[r] if r else None)
            try:
                out = Engine.set_data_type(None, feat, fgcls)  # type: ignore[arg-type]
                impl2 = {"r": "ok", "type": out.name if out else None}
            except ValueError:
                impl2 = {"r": "conflict"}
            reqs.append({"op": "C17.setDataType", "req": r, "fg": g})
            impls2.append(impl2)
            ctx.case("setDataType", [r, g], r is not None and g is not None)
            exp_conf = r is not None and g is not None and r != g
            if exp_conf != (impl2["r"] == "conflict"):
                ctx.violation("setDataType", [r, g], f"request type {r} vs group type {g}: {impl2}", impl2, exp_conf)
    outs = ctx.lean.batch(reqs)
    for rq, i, o in zip(reqs, impls2, outs):
        if i != o:
            ctx.disagree("setDataType", rq, i, o)
    # end-to-end: conflict raises at prepare
    for r, g in [("INT32", "INT64"), ("STRING", "STRING"), ("DOUBLE", "FLOAT")]:
        fgcls = F.make_group(F.uniq("T17p_"), root_data={"x": [1]}, data_type_rule=(lambda feature, g=g: DataType[g]))
        try:
            mloda.prepare([Feature("x", data_type=DataType[r])], compute_frameworks={PyArrowTable}, plugin_collector=F.collector({fgcls}))
            got = "ok"
        except ValueError as e:
            got = "conflict" if "data type mismatch" in str(e) else "error"
        ctx.case("prepare_conflict", [r, g], True)
        if got != ("conflict" if r != g else "ok"):
            ctx.violation("prepare_conflict", [r, g], f"prepare outcome {got}")
    ctx.exhaustive = not ctx.quick


def search(ctx: Ctx, broken: List[str]) -> None:
    run(ctx)


def replay(ctx: Ctx, body: Dict[str, Any]) -> None:
    run(ctx)
