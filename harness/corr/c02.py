"""C02 - returned values equal the reference evaluation of the feature graph."""
from __future__ import annotations

from typing import Any, Dict, List, Optional, Set

from harness.core import Ctx
from harness import fgfactory as F
from harness import schedlib as S
from mloda.user import Feature

ASSUMPTIONS = [
    "generated feature groups compute row-wise integer expressions (+, -, *, constants, null propagation) of their parents' columns; values are small ints so every framework computes them exactly",
    "conversion between frameworks is value preserving (C14) - assumed here, checked there",
    "plans with joins are covered by C05; here only link-free requests and api_data",
]


def names_to_uuids(exp: Dict[str, Any]) -> Dict[int, str]:
    return {int(k): v for k, v in exp["names"].items()}


def lean_defs(spec: Dict[str, Any], exp: Dict[str, Any]) -> List[Dict[str, Any]]:
    names = names_to_uuids(exp)
    parents = {c: ps for c, ps in exp["parents"]}
    defs_by_name = {f: d for g in spec["groups"] for f, d in g["features"].items()}
    rootcols: Dict[str, List[Any]] = {}
    for r in spec["roots"]:
        rootcols.update(r["cols"])
    out = []

    def tr(e: Any, pmap: Dict[str, int]) -> Any:
        if e[0] == "col":
            return ["col", pmap[e[1]]]
        if e[0] == "const":
            return ["const", e[1]]
        return [e[0], tr(e[1], pmap), tr(e[2], pmap)]

    for u, n in names.items():
        ps = parents.get(u, [])
        if n in rootcols:
            out.append({"uuid": u, "parents": [], "expr": None, "vals": rootcols[n]})
        else:
            pmap = {names[p_]: p_ for p_ in ps if p_ in names}
            d = defs_by_name[n]
            if any(c not in pmap for c in F.expr_cols(d["expr"])):
                return []  # a parent is not a plain feature of the plan (should not happen for link-free specs)
            out.append({"uuid": u, "parents": [pmap[c] for c in d["parents"]], "expr": tr(d["expr"], pmap), "vals": []})
    return out


def round_trip(spec: Dict[str, Any]) -> bool:
    """A -> B -> A: some feature lives on the framework of one of its (transitive) ancestors while a direct parent lives on another."""
    fw: Dict[str, str] = {}
    par: Dict[str, List[str]] = {}
    for r in spec["roots"]:
        for c in r["cols"]:
            fw[c] = r["fw"]
    for g in spec["groups"]:
        for f, d in g["features"].items():
            fw[f] = g["fw"]
            par[f] = d["parents"]
    for f, ps in par.items():
        for p_ in ps:
            if fw[p_] != fw[f] and any(fw[a] == fw[f] for a in S.ancestors(spec, p_)):
                return True
    return False


def check_values(ctx: Ctx, suite: str, case: Any, spec: Dict[str, Any], results: Optional[List[Any]], ref: Dict[str, List[Any]], fclass: Optional[str]) -> None:
    want = {r["name"] for r in spec["request"]}
    seen: Set[str] = set()
    for t in results or []:
        for c, vals in F.to_columns(t).items():
            base = c
            if base in want:
                seen.add(base)
                if vals != ref[base]:
                    ctx.violation(suite, case, f"returned values of {base} differ from the reference evaluation", vals, ref[base], finding_class=fclass)
            else:
                ctx.violation(suite, case, f"column {c} was returned but not requested", c, sorted(want), finding_class=fclass)
    for m in sorted(want - seen):
        ctx.violation(suite, case, f"requested feature {m} is missing from the result", None, ref[m], finding_class=fclass)


def e2e_suite(ctx: Ctx, n: int) -> None:
    lean_reqs: List[Dict[str, Any]] = []
    metas: List[Any] = []
    for k in range(n):
        r = ctx.rng.random()
        if r < 0.5:
            fws: Any = (ctx.rng.choice(["pa", "pd", "py"]),)
            spec = S.gen_spec(ctx.rng, max_feats=ctx.rng.choice([3, 6, 9]), frameworks=fws, allow_options=True)
            layout = "single-fw"
        elif r < 0.7:
            spec = S.gen_chain_spec(ctx.rng)
            layout = "multi-fw-chain"
        elif r < 0.85:
            fws = ctx.rng.choice([("pa", "pd"), ("pa", "py"), ("pd", "py"), ("pa", "pd", "py")])
            spec = S.gen_spec(ctx.rng, max_feats=6, frameworks=fws, allow_multi_fw=True, allow_options=False, single_parent=True)
            layout = "multi-fw"
        else:
            fws = ctx.rng.choice([("pa", "pd"), ("pa", "py")])
            spec = S.gen_spec(ctx.rng, max_feats=5, frameworks=fws, allow_multi_fw=True, allow_options=True, single_parent=True)
            layout = "multi-fw+options"
        ref = S.reference(spec)
        has_opts = any(rq["options"] for rq in spec["request"])
        multi = len({x["fw"] for x in spec["roots"] + spec["groups"]}) > 1
        try:
            sess = S.prepare(spec, S.build_classes(spec))
        except Exception as e:
            ctx.case("e2e", {"spec": spec}, True, layout=layout, outcome="rejected")
            ctx.violation("e2e", {"spec": spec}, f"link-free request rejected at prepare: {e!r}"[:300])
            continue
        exp = S.export_plan(sess)
        for mode in ["sync"] + (["thread"] if ctx.rng.random() < 0.4 else []) + (["mp"] if ctx.rng.random() < (0.1 if ctx.quick else 0.25) else []):
            rr = S.run_session(sess, mode)
            derived_multi_parent = any(len(d["parents"]) >= 2 for g in spec["groups"] for d in g["features"].values())
            nontriv = derived_multi_parent or multi
            fclass = None
            if multi and round_trip(spec):
                fclass = "framework-round-trip-chain"
            elif multi and max([0] + [sum(1 for t_ in exp["steps"] if t_["kind"] == "tfs" and t_["to"] == st_["to"]) for st_ in exp["steps"] if st_["kind"] == "tfs"]) >= 2:
                fclass = "several-transform-steps-to-one-framework"
            elif multi and has_opts:
                # the planner keeps one transform step per (from, to, group pair): option variants of the producer share it
                fclass = "multi-framework-request-with-option-variants"
            elif mode == "thread" and S.overlap_on_shared_fw(exp, rr.events):
                fclass = "threading-overlapping-steps-on-shared-cfw"
            elif mode == "mp" and any(st["kind"] == "tfs" and st["from"] != "PyArrowTable" for st in exp["steps"]):
                fclass = "multiprocessing-transform-step-from-non-arrow-producer"
            elif mode == "mp" and S.mp_unuploaded_tfs_source(exp):
                fclass = "multiprocessing-transform-source-not-uploaded"
            case = {"spec": spec, "mode": mode}
            ctx.case("e2e", case, nontriv, layout=layout, mode=mode, outcome="error" if rr.error else "ok", steps=len(exp["steps"]))
            if rr.timed_out:
                ctx.violation("e2e", case, "run did not terminate", None, None)
            elif rr.error is not None:
                ctx.violation("e2e", case, f"run raised: {rr.error[-200:]}", rr.error[-300:], "values", finding_class=fclass)
            else:
                check_values(ctx, "e2e", case, spec, rr.results, ref, fclass)
            if mode == "sync" and not multi and rr.error is None:
                defs = lean_defs(spec, exp)
                if defs:
                    names = names_to_uuids(exp)
                    reqnames = {rq["name"] for rq in spec["request"]}
                    want = [u for st in exp["steps"] if st["kind"] == "fg" and st["result"] for u in st["outs"] if names.get(u) in reqnames]
                    lean_reqs.append({"op": "C02.exec", "steps": S.lean_plan(exp)["steps"], "defs": defs, "want": want})
                    metas.append((spec, exp, want, ref, rr))
    outs = ctx.lean.batch(lean_reqs)
    for rq, (spec, exp, want, ref, rr), o in zip(lean_reqs, metas, outs):
        names = names_to_uuids(exp)
        ctx.case("lean_exec", {"spec": spec}, len(exp["steps"]) >= 3)
        model = {names[u]: v for u, v in zip(want, o.get("values", []))}
        impl: Dict[str, Any] = {}
        for t in rr.results or []:
            impl.update(F.to_columns(t))
        if not o.get("returned") or any(model.get(nm) != impl.get(nm) for nm in model):
            ctx.disagree("lean_exec", {"spec": spec}, {k_: impl.get(k_) for k_ in model}, {"returned": o.get("returned"), "values": model})


OPT_VALUES = [0, 0, 1, 2, -3, False, True, "", "a", 0.0, 2.5]


def options_suite(ctx: Ctx, n: int) -> None:
    """Feature groups whose calculation reads option values (through FeatureSet.get_options_key): chains of option-driven
    features, the options given on the requested feature as group or context options and handed down to the parents; the
    values include the boundary ones (0, False, "", 0.0) whose meaning differs from "option not set"."""
    from mloda.user import mloda
    from mloda.core.abstract_plugins.components.options import Options

    for _ in range(n):
        uid = F.uniq("")
        fw = ctx.rng.choice(["pa", "pd", "py"])
        nrows = ctx.rng.randint(1, 3)
        rootcol = f"r{uid}"
        root = {"name": f"R{uid}", "cols": {rootcol: [ctx.rng.randint(-4, 9) for _ in range(nrows)]}, "fw": fw}
        depth = ctx.rng.randint(1, 3)
        same_group = ctx.rng.random() < 0.4
        keys = [f"o{uid}_{i}" for i in range(depth)]
        numeric = ctx.rng.random() < 0.8
        defs: List[Dict[str, Any]] = []
        prev = rootcol
        for i in range(depth):
            f = f"d{uid}_{i}"
            dflt = ctx.rng.choice([7, 100, 13]) if numeric else "dflt"
            op = ctx.rng.choice(["add", "mul", "sub"]) if numeric else "cat"
            d = {"parents": [prev], "expr": [op, ["col", prev], ["opt", keys[i], dflt]], "pass_opts": [prev] if i > 0 else []}
            defs.append({"name": f, "def": d, "group": f"G{uid}_0" if same_group else f"G{uid}_{i}"})
            prev = f
        groups: Dict[str, Dict[str, Any]] = {}
        for x in defs:
            groups.setdefault(x["group"], {})[x["name"]] = x["def"]
        vals_pool = [v for v in OPT_VALUES if (isinstance(v, (int, float)) and not isinstance(v, bool)) == numeric or (not numeric and isinstance(v, str))] if numeric else ["", "a", "", "zz"]
        given = {k: ctx.rng.choice(vals_pool) for k in keys if ctx.rng.random() < 0.8}
        where = ctx.rng.choice(["group", "group", "context"])
        opts = Options(group=dict(given)) if where == "group" else Options(context=dict(given))
        classes = {root["name"]: F.make_group(root["name"], root_data=root["cols"], frameworks={F.FW_SHORT[fw]})}
        for gname, feats in groups.items():
            classes[gname] = F.make_group(gname, derived=feats, frameworks={F.FW_SHORT[fw]})
        # reference: bottom-up, every feature of the chain sees the options of the request
        ref_prev = list(root["cols"][rootcol])
        for x in defs:
            ref_prev = [F.eval_expr(x["def"]["expr"], {x["def"]["parents"][0]: v}, given.get) for v in ref_prev]
        case = {"root": root, "chain": defs, "options": {k: repr(v) for k, v in given.items()}, "where": where, "fw": fw}
        mode = ctx.rng.choice(["sync", "sync", "thread"])
        falsy = any(not v for v in given.values())
        try:
            res = mloda.run_all([Feature(prev, options=opts)], compute_frameworks={F.FW_SHORT[fw]}, plugin_collector=F.collector(set(classes.values())),
                                parallelization_modes={S.MODES[mode]})  # fmt: skip
            err = None
        except Exception as e:
            res, err = None, repr(e)[-300:]
        ctx.case("options", case, falsy, where=where, depth=depth, falsy=falsy, mode=mode, fw=fw, outcome="error" if err else "ok")
        if err:
            ctx.violation("options", case, f"request with options raised: {err}", err, ref_prev)
            continue
        got: Dict[str, Any] = {}
        for t in res or []:
            got.update(F.to_columns(t))
        if got.get(prev) != ref_prev or type(got.get(prev, [None])[0]) is not type(ref_prev[0]) and not numeric:
            ctx.violation("options", case, f"value of {prev} differs from the reference evaluation with the requested options", got.get(prev), ref_prev)


def api_suite(ctx: Ctx, n: int) -> None:
    from mloda.user import mloda
    from mloda.core.abstract_plugins.components.input_data.api.api_input_data_collection import ApiInputDataCollection
    from mloda_plugins.feature_group.input_data.api_data.api_data import ApiInputDataFeature

    # function level: routing of a column to a key, incl. overlapping layouts and missing columns
    reqs, impls = [], []
    for _ in range(ctx.budget(200, 4000)):
        nk = ctx.rng.randint(1, 4)
        cols = [f"c{i}" for i in range(5)]
        reg = []
        coll = ApiInputDataCollection()
        for k in range(nk):
            cs = ctx.rng.sample(cols, ctx.rng.randint(0, 3))
            reg.append({"key": f"K{k}", "cols": cs})
            coll.setup_key_class(f"K{k}", list(cs))
        col = ctx.rng.choice(cols)
        try:
            impl: Optional[str] = coll.get_name_cls_by_matching_column_name(col)[0]
        except ValueError:
            impl = None
        reqs.append({"op": "C02.route", "reg": reg, "col": col})
        impls.append(impl)
        owners = [r_["key"] for r_ in reg if col in r_["cols"]]
        ctx.case("api_route", {"reg": reg, "col": col}, len(owners) != 1, owners=len(owners))
        if len(owners) == 1 and impl != owners[0]:
            ctx.violation("api_route", {"reg": reg, "col": col}, "column routed to a key that does not list it", impl, owners[0])
        if not owners and impl is not None:
            ctx.violation("api_route", {"reg": reg, "col": col}, "column listed by no key was routed instead of rejected", impl, None)
    for rq, im, o in zip(reqs, impls, ctx.lean.batch(reqs)):
        if im != o:
            ctx.disagree("api_route", rq, im, o)
    # end to end: disjoint key layouts, requested api columns and features derived from the columns of ONE key
    for _ in range(n):
        nk = ctx.rng.randint(1, 3)
        nrows = ctx.rng.randint(1, 4)
        api_data: Dict[str, Dict[str, List[Any]]] = {}
        uid = F.uniq("")
        allcols: Dict[str, List[Any]] = {}
        for k in range(nk):
            cs = {f"ap{uid}_{k}_{i}": [ctx.rng.randint(-5, 9) for _ in range(nrows)] for i in range(ctx.rng.randint(1, 3))}
            api_data[f"Key{uid}_{k}"] = cs
            allcols.update(cs)
        key = ctx.rng.choice(list(api_data))
        kcols = list(api_data[key])
        dname = f"ad{uid}"
        parents = ctx.rng.sample(kcols, min(len(kcols), ctx.rng.randint(1, 2)))
        expr: Any = ["col", parents[0]]
        for q in parents[1:]:
            expr = ["add", expr, ["col", q]]
        fw = ctx.rng.choice(["pa", "pd", "py"])
        D = F.make_group(f"AD{uid}", derived={dname: {"parents": parents, "expr": expr}}, frameworks={F.FW_SHORT[fw]})
        req = ctx.rng.sample(list(allcols), ctx.rng.randint(1, min(3, len(allcols)))) + ([dname] if ctx.rng.random() < 0.6 else [])
        ref = dict(allcols)
        ref[dname] = [F.eval_expr(expr, {c: allcols[c][i] for c in parents}) for i in range(nrows)]
        case = {"api_data": api_data, "request": req, "fw": fw, "derived": {dname: parents}}
        mode = ctx.rng.choice(["sync", "sync", "thread"])
        try:
            res = mloda.run_all(list(req), compute_frameworks={F.FW_SHORT[fw]}, plugin_collector=F.collector({D, ApiInputDataFeature}), api_data=api_data,
                                parallelization_modes={S.MODES[mode]})  # fmt: skip
            err = None
        except Exception as e:
            res, err = None, repr(e)[-300:]
        keys_used = {k_ for k_, cs_ in api_data.items() for c_ in cs_ if c_ in req or (dname in req and c_ in parents)}
        fclass = "request-spanning-two-api-data-keys" if len(keys_used) >= 2 else None
        ctx.case("api_e2e", case, nk >= 2 or dname in req, keys=nk, keys_used=len(keys_used), mode=mode, outcome="error" if err else "ok")
        if err:
            ctx.violation("api_e2e", case, f"request over api_data raised: {err}", err, "values", finding_class=fclass)
            continue
        got: Dict[str, Any] = {}
        for t in res or []:
            got.update(F.to_columns(t))
        for nm in req:
            if got.get(nm) != ref[nm]:
                ctx.violation("api_e2e", case, f"value of {nm} differs from the api_data / reference evaluation", got.get(nm), ref[nm], finding_class=fclass)


def multicol_suite(ctx: Ctx) -> None:
    """Provider helper that consumer groups use to find the columns of a multi-column input feature
    (FeatureGroup.resolve_multi_column_feature): exact name, else every column `name~*`, nothing else."""
    from mloda.core.abstract_plugins.feature_group import FeatureGroup

    stems = ["emb", "emb_norm", "e", "x", "x1", "embx"]
    for _ in range(ctx.budget(300, 5000)):
        cols = set()
        for st in ctx.rng.sample(stems, ctx.rng.randint(1, 4)):
            if ctx.rng.random() < 0.4:
                cols.add(st)
            for i in range(ctx.rng.randint(0, 3)):
                cols.add(f"{st}~{i}")
        name = ctx.rng.choice(stems)
        got = FeatureGroup.resolve_multi_column_feature(name, set(cols))
        want = [name] if name in cols else (sorted(c for c in cols if c.startswith(name + "~")) or [name])
        ctx.case("multicol_resolve", {"name": name, "cols": sorted(cols)}, any(c.startswith(name) and not c.startswith(name + "~") and c != name for c in cols))
        if list(got) != want:
            ctx.violation("multicol_resolve", {"name": name, "cols": sorted(cols)}, "columns resolved for a multi-column input feature are not exactly its own name~* columns", list(got), want)


def run(ctx: Ctx) -> None:
    ctx.extra["rule"] = (
        "e2e: seeded link-free request DAGs (derived features with 1-3 parents over 1-3 generated groups and a root group, option variants, "
        "single framework or groups spread over PyArrow/Pandas/PythonDict with transform steps) run through run_all in SYNC (+ THREADING / MULTIPROCESSING "
        "samples) and compared value by value with an independent bottom-up evaluator; single-framework SYNC cases are also executed by the Lean data-flow "
        "model (Exec) on the exported plan; options: chains of option-reading features (group / context options incl. the falsy boundary values 0, False, '', 0.0) against the reference; api_data: key layouts x requested api columns x derived features, and exhaustive-style routing differential; "
        "non-trivial = a derived feature with >=2 parents or a framework change"
    )
    e2e_suite(ctx, ctx.budget(160, 3000))
    options_suite(ctx, ctx.budget(40, 800))
    api_suite(ctx, ctx.budget(80, 1200))
    multicol_suite(ctx)
    S.stop_flight_server()


def search(ctx: Ctx, broken: List[str]) -> None:
    run(ctx)


def replay(ctx: Ctx, body: Dict[str, Any]) -> None:
    run(ctx)
