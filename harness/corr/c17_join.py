"""C17 extension: declared types across a join.

Two typed root groups with index columns are joined through a Link; a consumer declares the *value* columns (through its
input_features, or the request declares them) while nobody declares the key columns.  The property says a declared type is
enforced exactly as documented and an undeclared feature is never checked - the index (key) features the engine adds on its
own are undeclared, so the outcome depends on the declared value columns only, whatever the Arrow type of the keys is.

suite e2e_join   run_all on PyArrow; oracle from the documented tables (doc_lenient / doc_strict of c17.py); the Lean model's
                 `C17.validate` is asked the same question for the joined table (declared value features + undeclared keys).
"""
from __future__ import annotations

from typing import Any, Dict, List, Optional, Set

import pyarrow as pa

from harness import fgfactory as F
from harness.core import Ctx
from harness.corr.c17 import doc_lenient, doc_strict, sample_values

SUITES = {"e2e_join"}
ASSUMPTIONS = ["e2e_join: PyArrow only (typed features on other frameworks are the known finding F-C17-nonarrow); inner join on equal keys"]

KEY_TYPES = [pa.string(), pa.int64(), pa.int32(), pa.float64(), pa.bool_()]


def _key_values(t: pa.DataType) -> List[Any]:
    if pa.types.is_string(t):
        return ["a", "b", "c"]
    if pa.types.is_boolean(t):
        return [True, False, True]
    if pa.types.is_floating(t):
        return [1.0, 2.0, 3.0]
    return [1, 2, 3]


def run(ctx: Ctx) -> None:
    from mloda.user import Feature, Index, JoinSpec, Link, mloda, DataType, Options
    from mloda_plugins.compute_framework.base_implementations.pyarrow.table import PyArrowTable

    names = [d.name for d in DataType]
    n = ctx.budget(60, 600)
    cases: List[Dict[str, Any]] = []
    for _ in range(n):
        a_l, a_r = ctx.rng.choice(names), ctx.rng.choice(names)
        # mostly matching declarations (the join must then succeed), some mismatching ones
        d_l = a_l if ctx.rng.random() < 0.6 else ctx.rng.choice(names)
        d_r = a_r if ctx.rng.random() < 0.6 else ctx.rng.choice(names + [None])
        cases.append(
            {
                "key": str(ctx.rng.choice(KEY_TYPES)),
                "actual": [a_l, a_r],
                "declared": [d_l, d_r],
                "strict": ctx.rng.choice(["none", "none", "api", "option"]),
                "via": ctx.rng.choice(["consumer", "consumer", "request"]),
                "jointype": ctx.rng.choice(["inner", "left", "outer"]),
            }
        )
    key_by_str = {str(t): t for t in KEY_TYPES}
    lean_reqs, impls = [], []
    for c in cases:
        kt = key_by_str[c["key"]]
        at = [DataType.to_arrow_type(DataType[a]) for a in c["actual"]]
        try:
            vals = [sample_values(t)[:3] for t in at]
            vals = [(v + v + v)[:3] for v in vals]
        except Exception:
            continue

        def mk_root(prefix: str, keycol: str, valcol: str, vt: pa.DataType, vv: List[Any]) -> Any:
            def calc(cls: Any, data: Any, features: Any) -> Any:
                return pa.table({keycol: pa.array(_key_values(kt), type=kt), valcol: pa.array(vv, type=vt)})

            return F.make_group(F.uniq(prefix), root_data={keycol: [0], valcol: [0]}, index_columns=[(keycol,)], extra={"calculate_feature": classmethod(calc)})

        L = mk_root("T17jL_", "l_key", "l_val", at[0], vals[0])
        R = mk_root("T17jR_", "r_key", "r_val", at[1], vals[1])
        opts: Any = {"strict_type_enforcement": True} if c["strict"] == "option" else None

        def typed(name: str, d: Optional[str]) -> Any:
            return Feature(name, options=opts, data_type=DataType[d] if d else None) if opts else Feature(name, data_type=DataType[d] if d else None)

        decl = c["declared"]

        def input_features(self: Any, options: Any, feature_name: Any) -> Optional[Set[Any]]:
            return {typed("l_val", decl[0]), typed("r_val", decl[1])}

        def ccalc(cls: Any, data: Any, features: Any) -> Any:
            return data.append_column("tot17", pa.array([1] * data.num_rows))

        Cn = F.make_group(F.uniq("T17jC_"), derived={"tot17": {"parents": ["l_val", "r_val"], "expr": 1}}, extra={"input_features": input_features, "calculate_feature": classmethod(ccalc)})
        link = getattr(Link, c["jointype"])(JoinSpec(L, Index(("l_key",))), JoinSpec(R, Index(("r_key",))))
        feats: List[Any] = [Feature("tot17")]
        if c["via"] == "request":
            feats += [typed("l_val", decl[0]), typed("r_val", decl[1])]
        try:
            mloda.run_all(feats, compute_frameworks={PyArrowTable}, links={link}, plugin_collector=F.collector({L, R, Cn}), strict_type_enforcement=(c["strict"] == "api"))
            impl = "ok"
        except Exception as e:
            s = repr(e) + str(e)
            impl = "mismatch" if ("DataTypeMismatchError" in s or "coercion not supported" in s) else "error:" + type(e).__name__ + ":" + s[-160:]
        strict = c["strict"] in ("api", "option")
        ok = all(d is None or (doc_strict(d, a) if strict else doc_lenient(d, a)) for d, a in zip(decl, c["actual"]))
        exp = "ok" if ok else "mismatch"
        ctx.case("e2e_join", c, True, key=c["key"], strict=c["strict"], via=c["via"], expected=exp, jointype=c["jointype"])
        if impl != exp:
            # known: the API flag strict_type_enforcement=True is copied onto the REQUESTED typed features only (mlodaAPI._process_features);
            # a typed feature that a consumer declares through input_features() is still checked with the lenient table
            lenient_ok = all(d is None or doc_lenient(d, a) for d, a in zip(decl, c["actual"]))
            cls = "strict-api-flag-does-not-reach-typed-input-features" if (c["strict"] == "api" and c["via"] == "consumer" and impl == "ok" and exp == "mismatch" and lenient_ok) else None
            ctx.violation("e2e_join", c, f"joined run outcome {impl!r}, property says {exp!r} (key columns are undeclared and must not be checked)", impl, exp, finding_class=cls)
        lean_reqs.append(
            {
                "op": "C17.validate",
                "cols": [{"name": "l_key", "arrow": str(kt)}, {"name": "l_val", "arrow": str(at[0])}, {"name": "r_key", "arrow": str(kt)}, {"name": "r_val", "arrow": str(at[1])}],
                "feats": [{"name": "l_key", "declared": None, "strict": None}, {"name": "r_key", "declared": None, "strict": None}]
                + [{"name": nm, "declared": d, "strict": True if c["strict"] == "option" else None} for nm, d in (("l_val", decl[0]), ("r_val", decl[1]))],
                "apiStrict": c["strict"] == "api" and c["via"] == "request",  # the code copies the API flag onto REQUESTED typed features only (finding F-C17-api-flag-requested-only)
            }
        )
        impls.append((c, impl))
    outs = ctx.lean.batch(lean_reqs)
    for (c, impl), o in zip(impls, outs):
        if (impl if impl in ("ok", "mismatch") else "other") != o.get("r"):
            ctx.disagree("e2e_join", c, impl, o)


def search(ctx: Ctx, broken: List[str]) -> None:
    run(ctx)


def replay(ctx: Ctx, body: Dict[str, Any]) -> None:
    run(ctx)
