"""C05 (extension `starsamefw`) - link trees in which several right-hand sources share one compute framework.

Input class.  A consumer over 3-5 root sources joined by a link TREE (a star A-B, A-C[, A-D], a chain A-B-C, a star with
a tail A-B, A-C, C-D, or two stars A-B, A-C, C-D, C-E).  The frameworks are laid out so that TWO OR MORE sources that stand on the right-hand side of a link
live in the SAME compute framework, and that framework is not the one of the source they are joined into (B and C on
PyArrow, A and the consumer on pandas; all other combinations of PyArrow / pandas / PythonDict; plus the neighbouring layouts:
every source on its own framework, a right source on the left source's framework, everything on one framework).  Each link
has its OWN join type (INNER / LEFT - the associative ones, so the planner's order cannot matter), its own key column of
the left source and an equally or differently named key column in the right source; the key sets of the tables overlap
only partly and differ from each other, so that merging a link's neighbour table instead of its own - or a link's own
table under the other link's type / keys - changes rows or columns.

Oracle (from the property text).  The rows handed to the consumer's calculation (captured inside its `calculate_feature`,
exactly as in the main C05 harness) must be the relational join of the source tables as declared by the links:
nested loops over the link tree starting at the root source - per link: ALL pairs whose key columns are equal and
non-null; LEFT keeps an unmatched left row and null-pads the right source's columns; a same-named key pair is one column.
Rows are compared as bags, up to row / column order and null representation.  The consumer must be executed on a framework
its rule admits, exactly once.  A request that fails instead of handing over the join is a violation as well.
SYNC and THREADING; every request is prepared and run `rep` times (the planner's and runner's choices iterate over sets of
random uuids, so one request can behave differently between preparations).

Where the model has an operation for it (all links INNER on one equally named key: `C05.joinAll`, the n-way fold of
`Rel.innerJoin`), the oracle is compared with the Lean specification as well.

Known findings of the unchanged tree are kept under the SAME class strings as in harness/corr/c05.py (which gives them to every
mixed-framework / every THREADING three-source request), but decided by narrow predicates (`known_class`):
  three-sources-across-frameworks : only when some link's LEFT source does not live on a framework of the consumer (pattern
                                    "inner-foreign", not drawn by default; the planner then fills the join step's left/right uuid sets by
                                    framework instead of by source, see F-C02-cfw-three-sources-across-frameworks).  Every layout
                                    in which each link's left source lives on the consumer's framework - all stars, and tails whose
                                    inner sources do - is joined correctly by the unchanged tree (each right source is converted by
                                    its own transform step) and is judged without any exemption;
  three-sources-threading         : THREADING only, and only if what the consumer received is exactly the reference join of a
                                    proper sub-tree of the links that contains the root (the consumer's step did not wait for a
                                    later join; seen on the unchanged tree only when a same-framework join takes part);
  pydict-framework-empty-table    : the root source lives on PythonDict and the declared join is empty (the generator avoids it).
Everything else is a new violation.
"""
from __future__ import annotations

import json
import os
import random
import tempfile
from collections import Counter
from typing import Any, Dict, List, Optional, Tuple

from harness.core import Ctx
from harness import fgfactory as F
from harness import schedlib as S
from harness.corr import c05 as B
from harness.corr import c12 as M

SUITES = {"starsamefw", "starsamefw_thread", "starsamefw_witness"}

ASSUMPTIONS = [
    "C05_starsamefw: link trees use INNER and LEFT links only (left role = the source nearer to the root), the join types for which the declared "
    "result does not depend on the order the planner picks; a chain's second link uses a key column that only its own two sources have",
    "C05_starsamefw: tables are moved between frameworks with integer keys, without null keys (type inference of the move is C14's subject); "
    "when PythonDict takes part every table has unique keys (F-C12-pydict-dup-keys is a merge-engine finding, not a planner one)",
    "C05_starsamefw: every request is prepared and run 2 times in SYNC (3 times in THREADING); set-iteration-order dependent behaviour is sampled, not exhausted",
]

FWS = ("pa", "pd", "py")
RUN_LIMIT = 30.0


def sub_rng(ctx: Ctx, suite: str) -> Any:
    return random.Random(f"C05:{ctx.seed}:{ctx.tier}:{suite}")


# ----------------------------------------------------------------------------------------------------------------
# case = {"shape", "pattern", "srcs": [{"fw", "cols", "data", "feats"}], "links": [[t, i, j, [lkeys], [rkeys]], ...] (tree, i nearer to the
#         root 0, listed root-outwards), "cfws": [fw], "mode": "sync"|"thread", "rep": n, "linkorder": permutation used when the Link set is built}


def link_tree_ok(case: Dict[str, Any]) -> bool:
    seen = {0}
    for _, i, j, _, _ in case["links"]:
        if i not in seen or j in seen:
            return False
        seen.add(j)
    return seen == set(range(len(case["srcs"])))


def reference_join(case: Dict[str, Any], links: Optional[List[List[Any]]] = None) -> Counter:
    """nested loops over the link tree, straight from the links (see module doc).  A row is {column: value}; a source that is
    null-padded in a row contributes nulls (so nothing matches through it)."""
    srcs = case["srcs"]
    rows: List[Dict[str, Any]] = [dict(zip(srcs[0]["cols"], r)) for r in srcs[0]["data"]]
    for t, i, j, lk, rk in case["links"] if links is None else links:
        right = [dict(zip(srcs[j]["cols"], r)) for r in srcs[j]["data"]]
        out: List[Dict[str, Any]] = []
        for row in rows:
            key = [row.get(c) for c in lk]
            hits = [r for r in right if None not in key and key == [r.get(c) for c in rk]]
            for r in hits:
                new = dict(row)
                for c, v in r.items():
                    if c in rk and lk[rk.index(c)] == c:
                        continue  # same-named key pair: one column, the left value (equal anyway)
                    new[c] = v
                out.append(new)
            if not hits and t == "LEFT":
                new = dict(row)
                for c in srcs[j]["cols"]:
                    if not (c in rk and lk[rk.index(c)] == c):
                        new[c] = None
                out.append(new)
        rows = out
    return Counter(tuple(sorted((c, "", v) for c, v in r.items() if v is not None)) for r in rows)


def sub_trees(case: Dict[str, Any]) -> List[List[List[Any]]]:
    """proper sub-trees of the link tree that contain the root (as link lists in root-outwards order), the empty one included"""
    links = case["links"]
    out = []
    for mask in range(0, 2 ** len(links) - 1):
        sel = [l for n, l in enumerate(links) if mask >> n & 1]
        seen = {0}
        ok = True
        for _, i, j, _, _ in sel:
            if i not in seen:
                ok = False
                break
            seen.add(j)
        if ok:
            out.append(sel)
    return out


# ----------------------------------------------------------------------------------------------------------------
# classes of layouts


def layout_tags(case: Dict[str, Any]) -> Dict[str, Any]:
    fws = [s["fw"] for s in case["srcs"]]
    c = case["cfws"]
    rights = [j for _, _, j, _, _ in case["links"]]
    by_fw: Dict[str, int] = Counter(fws[j] for _, i, j, _, _ in case["links"] if fws[j] != fws[i])  # type: ignore[assignment]
    shared = max(by_fw.values()) if by_fw else 0
    return {
        "rights_sharing_a_foreign_fw": shared,  # >= 2: two transform steps with the same from-framework (the class of this module)
        "left_on_consumer_fw": all(fws[i] in c for _, i, _, _, _ in case["links"]),
        "nfw": len(set(fws) | set(c)),
        "nsrc": len(fws),
        "nrights": len(rights),
    }


def left_off_consumer(case: Dict[str, Any]) -> bool:
    """the narrow input class kept for F-C05-three-mixed / F-C02-cfw-three-sources-across-frameworks: three or more sources and a
    link whose LEFT source does not live on a framework of the consumer (the link is inverted or executed away from the consumer;
    the planner's left/right uuid sets are then filled by framework, not by source, and can hold feature uuids of two sources)"""
    fws = [s["fw"] for s in case["srcs"]]
    return any(fws[i] not in case["cfws"] for _, i, _, _, _ in case["links"])


def known_class(case: Dict[str, Any], res: Dict[str, Any], bag: Optional[Counter], exp: Counter) -> Optional[str]:
    if case["mode"] == "thread" and bag is not None and any(bag == reference_join(case, sel) for sel in sub_trees(case)):
        return "three-sources-threading"
    if left_off_consumer(case):
        return "three-sources-across-frameworks"
    if res.get("err") == "fw:pydict-empty-table" and case["srcs"][0]["fw"] == "py" and sum(exp.values()) == 0:
        return "pydict-framework-empty-table"
    return None


# ----------------------------------------------------------------------------------------------------------------
# running one request (the consumer class and the error classes are the main harness's)


def make_source(s: Dict[str, Any], name: str, keysets: List[Tuple[str, ...]]) -> B.Source:
    src = B.Source(name, s["fw"], list(keysets[0]), s["cols"], s["data"], s["feats"], "Int64")

    def calc(cls: Any, data: Any, features: Any) -> Any:
        return M.build(src.fw, src.cols, src.data, src.pdmode)

    src.cls = F.make_group(F.uniq(f"Q{name}_"), root_data={c: [0] for c in src.feats}, frameworks={F.FW_SHORT[src.fw]}, index_columns=[tuple(k) for k in keysets],
                           extra={"calculate_feature": classmethod(calc)})  # fmt: skip
    return src


def run_once(case: Dict[str, Any]) -> Dict[str, Any]:
    from mloda.core.abstract_plugins.components.feature import Feature
    from mloda.core.abstract_plugins.components.index.index import Index
    from mloda.core.abstract_plugins.components.link import JoinSpec, JoinType, Link
    from mloda.core.abstract_plugins.components.parallelization_modes import ParallelizationMode
    from mloda.user import mloda

    n = len(case["srcs"])
    keysets: List[List[Tuple[str, ...]]] = [[] for _ in range(n)]
    for _, i, j, lk, rk in case["links"]:
        for x, k in ((i, tuple(lk)), (j, tuple(rk))):
            if k not in keysets[x]:
                keysets[x].append(k)
    sources = [make_source(s, "ABCDE"[x], keysets[x]) for x, s in enumerate(case["srcs"])]
    tag = F.uniq("run")
    consumer = B.make_consumer_class(sources, case["cfws"], tag)
    order = case.get("linkorder") or list(range(len(case["links"])))
    links = set()
    for x in order:
        t, i, j, lk, rk = case["links"][x]
        links.add(Link(JoinType[t], JoinSpec(sources[i].cls, Index(tuple(lk))), JoinSpec(sources[j].cls, Index(tuple(rk)))))
    avail = sorted({s["fw"] for s in case["srcs"]} | set(case["cfws"]))
    res: Dict[str, Any] = {"plan": None, "got": None, "err": None}
    log = os.environ[F.LOG_ENV]
    try:
        session = mloda.prepare([Feature("z")], compute_frameworks={F.FW_SHORT[x] for x in avail}, links=links, plugin_collector=F.collector({consumer} | {s.cls for s in sources}))
    except BaseException as e:  # noqa: BLE001
        res["err"] = B.classify_error(e)
        return res
    try:
        res["plan"] = B.export_plan(session, sources, consumer, list(links))
    except Exception as e:  # noqa: BLE001
        res["plan"] = {"export-error": repr(e)[:200]}
    open(log, "w").close()
    mode = ParallelizationMode.THREADING if case["mode"] == "thread" else ParallelizationMode.SYNC
    finished, r = S.guarded(lambda: session.run(parallelization_modes={mode}), RUN_LIMIT)
    if not finished:
        res["err"] = "error:run-did-not-end"
        return res
    if isinstance(r, BaseException):
        res["err"] = B.classify_error(r)
        return res
    evs = []
    with open(log) as fh:
        for line in fh:
            try:
                ev = json.loads(line)
            except Exception:
                continue
            if ev.get("ev") == "rows" and ev.get("tag") == tag:
                evs.append(ev)
    if len(evs) != 1:
        res["err"] = f"error:consumer-called-{len(evs)}-times"
        return res
    ev = evs[0]
    res["got"] = {"kind": B.KIND_OF_TYPE.get(ev["kind"], ev["kind"]), "cols": ev["cols"], "rows": [[(c, v) for c, v in r] for r in ev["rows"]]}
    return res


def judge(case: Dict[str, Any], res: Dict[str, Any], exp: Counter) -> Tuple[Optional[str], Any, Optional[Counter]]:
    """-> (what is wrong | None, what to show, bag of received rows | None)"""
    if res["err"]:
        return f"the request fails with {res['err']} instead of handing the declared join to the consumer", res["err"], None
    got = res["got"]
    _, bag = M.tag_rows(got["kind"], [], got["cols"], got["rows"])
    shown = {"kind": got["kind"], "cols": got["cols"], "rows": M.exact_bag(got["rows"])}
    if got["kind"] not in case["cfws"]:
        return f"the consumer is executed on {got['kind']}, its compute_framework_rule allows {case['cfws']}", shown, bag
    if bag != exp:
        desc = ", ".join(f"{t} {'ABCDE'[i]}.{'+'.join(lk)}={'ABCDE'[j]}.{'+'.join(rk)}" for t, i, j, lk, rk in case["links"])
        fws = "/".join(s["fw"] for s in case["srcs"])
        return (f"{len(case['srcs'])} sources on {fws} ({case['shape']}: {desc}): the consumer received rows that are not the join its links describe: "
                f"missing {list((exp - bag).elements())[:3]} unexpected {list((bag - exp).elements())[:3]} (columns received: {got['cols']})"), shown, bag  # fmt: skip
    return None, shown, bag


def check_cases(ctx: Ctx, suite: str, cases: List[Dict[str, Any]]) -> None:
    lean_reqs, lean_exp = [], []
    for case in cases:
        assert link_tree_ok(case), case
        exp = reference_join(case)
        tags = layout_tags(case)
        outcomes = []
        for _ in range(case.get("rep", 1)):
            res = run_once(case)
            what, shown, bag = judge(case, res, exp)
            outcomes.append("ok" if what is None else (res["err"] or "wrong-rows").split(":")[0])
            if what is not None:
                ctx.violation(suite, case, what, shown, sorted(exp.elements()), finding_class=known_class(case, res, bag, exp))
        nsub = sum(1 for sel in sub_trees(case) if reference_join(case, sel) == exp)
        types = "+".join(l[0] for l in case["links"])
        ctx.case(suite, case, sum(exp.values()) > 0 and nsub == 0, ssf_shape=case["shape"], ssf_pattern=case["pattern"], ssf_types=types,
                 ssf_fws="/".join(s["fw"] for s in case["srcs"]) + ">" + "+".join(case["cfws"]), ssf_mode=case["mode"],
                 ssf_rights_sharing_foreign_fw=tags["rights_sharing_a_foreign_fw"], ssf_left_on_consumer_fw=tags["left_on_consumer_fw"],
                 ssf_keynames="diff" if any(l[3] != l[4] for l in case["links"]) else "same",
                 ssf_keycols=len({tuple(l[3]) for l in case["links"] if l[1] == 0}), ssf_distinct_link_types=len({l[0] for l in case["links"]}),
                 ssf_known_layout=left_off_consumer(case), ssf_outcome="|".join(sorted(set(outcomes))))  # fmt: skip
        # the Lean specification of n-way inner joins on one key (Rel.joinAll): star, all links INNER on the same equally named key
        ks = case["links"][0][3]
        if all(l[1] == 0 and l[0] == "INNER" and l[3] == ks and l[4] == ks for l in case["links"]):
            enc = lambda s: [[[cc, v] for cc, v in zip(s["cols"], r)] for r in s["data"]]  # noqa: E731
            lean_reqs.append({"op": "C05.joinAll", "ks": ks, "L": enc(case["srcs"][0]), "Ts": [enc(case["srcs"][l[2]]) for l in case["links"]]})
            lean_exp.append((case, exp))
    if lean_reqs and ctx.lean is not None:
        for (case, exp), o in zip(lean_exp, ctx.lean.batch(lean_reqs)):
            _, bag = M.tag_rows("spec", [], [], M.lean_rows(o) if isinstance(o, list) else [])
            ctx.case(suite + "/spec-vs-oracle", {"srcs": case["srcs"], "links": case["links"]}, sum(exp.values()) > 0)
            if bag != exp:
                ctx.disagree(suite + "/spec-vs-oracle", case, sorted(exp.elements()), sorted(bag.elements()))


# ----------------------------------------------------------------------------------------------------------------
# generator


SHAPES = {
    "star3": [(0, 1), (0, 2)],
    "star4": [(0, 1), (0, 2), (0, 3)],
    "chain": [(0, 1), (1, 2)],
    "startail": [(0, 1), (0, 2), (2, 3)],
    "twostars": [(0, 1), (0, 2), (2, 3), (2, 4)],
}


def _fw_layout(rng: Any, edges: List[Tuple[int, int]], pattern: str) -> Tuple[List[str], List[str]]:
    """frameworks of the sources (index 0 = root) and of the consumer.  In every pattern but "inner-foreign" each source that is
    the LEFT side of a link lives on the consumer's framework `fa` (the layouts the unchanged tree joins correctly); the
    patterns say where the leaves - the sources that are right-hand sides only - live."""
    nsrc = len(edges) + 1
    fa = rng.choice(FWS)
    others = [f for f in FWS if f != fa]
    fr = rng.choice(others)
    third = [f for f in others if f != fr][0]
    inner = {i for i, _ in edges}
    leaves = [x for x in range(nsrc) if x not in inner]
    fws = [fa] * nsrc
    if pattern == "shared":  # every leaf on ONE framework that is not the consumer's
        lf = [fr] * len(leaves)
    elif pattern == "shared+own":  # two leaves on one foreign framework, the others on the third framework
        lf = [fr, fr] + [third] * (len(leaves) - 2)
        rng.shuffle(lf)
    elif pattern == "shared+left":  # two leaves on one foreign framework, the others on the consumer's
        lf = [fr, fr] + [fa] * (len(leaves) - 2)
        rng.shuffle(lf)
    elif pattern == "distinct":  # control: no two leaves share a foreign framework
        lf = ([fr, third] + [fa] * len(leaves))[: len(leaves)]
        rng.shuffle(lf)
    elif pattern == "one-fw":  # control: everything on one framework
        lf = [fa] * len(leaves)
    elif pattern == "inner-foreign":  # known findings of the unchanged tree: every non-root source on one foreign framework, also the inner ones
        return [fa] + [fr] * (nsrc - 1), [fa]
    else:
        raise ValueError(pattern)
    for x, f in zip(leaves, lf):
        fws[x] = f
    return fws, [fa]


def gen_case(rng: Any, pattern: Optional[str] = None, mode: str = "sync", shape: Optional[str] = None) -> Dict[str, Any]:
    shape = shape or rng.choices(["star3", "star4", "chain", "startail", "twostars"], [6, 4, 1, 3, 2])[0]
    edges = SHAPES[shape]
    nsrc = len(edges) + 1
    nleaves = nsrc - len({i for i, _ in edges})
    if pattern is None:
        # "inner-foreign" (the known findings of the unchanged tree; some of those plans never end) is not drawn: harness/corr/c05.py
        # samples those layouts; it stays available for replays and explicit calls
        pattern = rng.choices(["shared", "shared+own", "shared+left", "distinct", "one-fw"], [9, 2, 2, 2, 1])[0]
    if pattern in ("shared+own", "shared+left") and nleaves < 3:
        pattern = "shared"
    if pattern == "inner-foreign" and nleaves == nsrc - 1:
        pattern = "shared"  # a star has no inner source but the root
    fws, cf = _fw_layout(rng, edges, pattern)
    uniq = "py" in set(fws) | set(cf)
    # columns: root has 1-2 key columns k0,k1 used by the links leaving it; a non-root source with a child gets an own second key column
    nkeys0 = rng.choice([1, 2, 2]) if sum(1 for i, _ in edges if i == 0) > 1 else 1
    cols: List[List[str]] = [[f"k{x}" for x in range(nkeys0)] + ["a"]] + [[] for _ in range(1, nsrc)]
    feats = [["abcde"[j]] for j in range(nsrc)]
    links: List[List[Any]] = []
    used0: List[str] = []
    for i, j in edges:
        if i == 0:
            lkcol = rng.choice(cols[0][:nkeys0]) if len(used0) >= nkeys0 or rng.random() < 0.3 else [c for c in cols[0][:nkeys0] if c not in used0][0]
            used0.append(lkcol)
        else:
            lkcol = f"m{i}"  # the own second key column of the inner node i
            if lkcol not in cols[i]:
                cols[i].insert(len(cols[i]) - 1, lkcol)
        rkcol = lkcol if rng.random() < 0.65 else f"r{j}"
        cols[j] = [rkcol] + [feats[j][0]]
        t = rng.choice(["INNER", "LEFT"])
        links.append([t, i, j, [lkcol], [rkcol]])
    if len(links) >= 2 and len({l[0] for l in links}) == 1 and rng.random() < 0.7:
        x = rng.randrange(len(links))
        links[x][0] = "LEFT" if links[x][0] == "INNER" else "INNER"  # aim at DIFFERENT join types per link
    for l in links:
        # below a LEFT link only LEFT links: (A left B) inner C is not A left (B inner C), the declared result would depend on the planner's order
        parent = [p for p in links if p[2] == l[1]]
        if parent and parent[0][0] == "LEFT":
            l[0] = "LEFT"

    def table(x: int, tries: int) -> List[List[Any]]:
        nrows = rng.choice([3, 4, 4, 5]) if x == 0 else rng.choice([2, 3, 3, 4])
        pool = [1, 2, 3, 4, 5, 6] if x == 0 else [1, 2, 3, 4, 5, 6, 7, 8]
        if tries > 6:
            pool = [1, 2, 3, 4, 5]
        keycols = [c for c in cols[x] if c not in feats[x]]
        kv: Dict[str, List[Any]] = {}
        for c in keycols:
            kv[c] = rng.sample(pool, nrows) if uniq or rng.random() < 0.5 else [rng.choice(pool) for _ in range(nrows)]
        return [[kv[c][r] if c in kv else 10 * (x + 1) * 10 + r for c in cols[x]] for r in range(nrows)]

    case: Dict[str, Any] = {}
    for tries in range(12):
        srcs = [{"fw": fws[x], "cols": cols[x], "data": table(x, tries), "feats": feats[x]} for x in range(nsrc)]
        case = {"shape": shape, "pattern": pattern, "srcs": srcs, "links": links, "cfws": cf, "mode": mode, "rep": 3 if mode == "thread" else 2}
        exp = reference_join(case)
        # wanted: a non-empty result that no proper sub-tree of the links gives, and right tables with different key sets
        if sum(exp.values()) > 0 and all(reference_join(case, sel) != exp for sel in sub_trees(case)):
            rk = [sorted(r[0] for r in s["data"]) for s in srcs[1:]]
            if len({tuple(k) for k in rk}) == len(rk):
                break
    order = list(range(len(links)))
    rng.shuffle(order)
    case["linkorder"] = order
    return case


def witness_cases() -> List[Dict[str, Any]]:
    """hand-written corner stones of the class: customers / orders / payments style star, the right sources on one foreign framework"""
    A = [[1, 10], [2, 20], [3, 30], [4, 40], [5, 50]]
    Bt = [[2, 200], [3, 300], [4, 400], [9, 900]]
    Ct = [[3, 3000], [5, 5000], [8, 8000]]
    out = []
    for fa, fr in (("pd", "pa"), ("pa", "pd"), ("pd", "py"), ("py", "pa"), ("pa", "py"), ("py", "pd")):
        for t1, t2 in (("INNER", "LEFT"), ("LEFT", "INNER"), ("LEFT", "LEFT"), ("INNER", "INNER")):
            for mode in ("sync",):
                out.append({"shape": "star3", "pattern": "shared", "mode": mode, "rep": 2, "cfws": [fa],
                            "srcs": [{"fw": fa, "cols": ["k0", "a"], "data": A, "feats": ["a"]}, {"fw": fr, "cols": ["k0", "b"], "data": Bt, "feats": ["b"]},
                                     {"fw": fr, "cols": ["k0", "c"], "data": Ct, "feats": ["c"]}],
                            "links": [[t1, 0, 1, ["k0"], ["k0"]], [t2, 0, 2, ["k0"], ["k0"]]]})  # fmt: skip
    return out


# ----------------------------------------------------------------------------------------------------------------


def _with_log(fn: Any) -> None:
    old = os.environ.get(F.LOG_ENV)
    fd, path = tempfile.mkstemp(prefix="verif-c05ssf-", suffix=".log")
    os.close(fd)
    os.environ[F.LOG_ENV] = path
    try:
        fn()
    finally:
        if old is None:
            os.environ.pop(F.LOG_ENV, None)
        else:
            os.environ[F.LOG_ENV] = old
        try:
            os.unlink(path)
        except OSError:
            pass


def run(ctx: Ctx) -> None:
    def body() -> None:
        rng = sub_rng(ctx, "starsamefw")
        check_cases(ctx, "starsamefw", [gen_case(rng) for _ in range(ctx.budget(220, 2000))])
        rng = sub_rng(ctx, "starsamefw_thread")
        # THREADING: stars only (a tail adds a same-framework join below the root, where the unchanged tree's known THREADING race
        # - F-C05-three-threading - also produces merge errors, which no predicate on the received table can tell apart)
        check_cases(ctx, "starsamefw_thread", [gen_case(rng, mode="thread", shape=rng.choice(["star3", "star3", "star4"])) for _ in range(ctx.budget(36, 250))])
        check_cases(ctx, "starsamefw_witness", witness_cases())

    _with_log(body)


def search(ctx: Ctx, broken: List[str]) -> None:
    run(ctx)


def replay(ctx: Ctx, body: Dict[str, Any]) -> None:
    case = body.get("case")
    if not isinstance(case, dict) or "srcs" not in case:
        run(ctx)
        return
    case = dict(case)
    case["rep"] = max(4, case.get("rep", 1))
    _with_log(lambda: check_cases(ctx, body.get("suite", "starsamefw"), [case]))
